"""C11 — exact arithmetic: outcomes invariant under vote scaling, near ties separated, equal rationals tied, no floats."""
from fractions import Fraction
from common import *   # noqa
import families as fam_mod

ID = 'C11'
NAMESPACE = 'VL.C11'
LEAN_MODULES = ['VotelibProofs.Props.C11']
GEN_MODULES = ['Divisor', 'Quota', 'Threshold', 'RankScore', 'PairwinScorer']
REQUIRED = ['getNBest_scale', 'plurality_scale', 'highestAverages_scale', 'sumVals_scale', 'hare_homogeneous',
            'hagenbach_bischoff_homogeneous', 'imperiali_homogeneous', 'quotaSelector_scale', 'near_tie_separated',
            'equal_rationals_tied',
            'relativeThreshold_scale', 'quotaDistributor_scale', 'largestRemainder_scale',
            'rankedToPositional_linear', 'approvalToSimple_linear', 'rankedToCondorcet_linear', 'positionalRule_scale',
            'approvalRule_scale', 'condorcetEv_scale', 'condorcetSet_scale', 'rankedToCondorcetVotes_linear',
            'condorcetRule_scale', 'condorcetSetRule_scale', 'rankedToCondorcetVotesNoBottom_linear', 'condorcetRuleNoBottom_scale',
            'condorcetSetRuleNoBottom_scale', 'noquota_homogeneousSTV', 'benham_scale', 'tideman_scale', 'tidemanN_scale',
            'spav_scale', 'pav_scale', 'pav_fresh_scale',
            'scoreVoting_scale', 'scoreAggregate_scale', 'majorityJudgmentPlus_scale', 'star_scale',
            'bucklin_scale', 'bucklinWhole_scale', 'preferenceAddition_scale', 'bucklinSeats_scale', 'oklahoma_scale',
            'baldwin_scale', 'hare_homogeneousSTV', 'imperiali_homogeneousSTV', 'hagenbach_bischoff_homogeneousSTV', 'stvSelector_scale', 'stvDistributor_scale',
            'pureProportionality_scale', 'majorityJudgmentDefault_scale_partial', 'majorityJudgmentDefault_scale_witness']
# families whose scale invariance is proved in Lean (Props/C11.lean); the rest is covered by the oracle only
PROVED_FAMILIES = ['plurality', 'ha_d_hondt', 'ha_sainte_lague', 'ha_imperiali', 'ha_danish', 'ha_macau', 'quota_selector_hare',
                   'rel_threshold_5pc', 'rel_threshold_third', 'rel_threshold_5pc_decimal', 'rel_threshold_5pc_float',
                   'lr_hare', 'lr_hagenbach_bischoff', 'lr_imperiali', 'qd_hare',
                   'positional_borda', 'positional_borda0', 'positional_dowdall', 'positional_geometric',
                   'positional_modified_borda', 'positional_fixed_top3', 'approval_av', 'approval_sav',
                   'condorcet_rankedpairs_winvotes', 'condorcet_rankedpairs_margins', 'condorcet_rankedpairs_pwo',
                   'condorcet_copeland_2o', 'condorcet_copeland_raw', 'condorcet_schulze', 'condorcet_kemeny_young',
                   'condorcet_minimax_winvotes', 'condorcet_minimax_margins', 'condorcet_minimax_pwo',
                   'condorcet_winner', 'smith_set', 'schwartz_set', 'benham', 'tideman_alternative',
                   'approval_pav', 'approval_spav',
                   'score_mean', 'score_sum0', 'score_median', 'majority_judgment_plus', 'star', 'bucklin',
                   'oklahoma', 'bucklin_whole', 'oklahoma_whole', 'baldwin', 'stv_gregory_hare', 'stv_gregory_hare_strict', 'stv_gregory_imperiali', 'stv_gregory_noquota',
                   'pure_proportionality', 'pure_proportionality_constrained']
PROVED_FAMILIES += [f + '_sparse' for f in PROVED_FAMILIES if f.startswith('condorcet_') or f in ('smith_set', 'schwartz_set')]
# proved for a part of the family's parameter space only: the rest stays listed as unproved
PARTLY_PROVED = {}
# families of the quantifier for which the statement is FALSE of the current code
FALSE_AS_STATED = {'majority_judgment': 'FALSE as stated on the current code (majorityJudgmentDefault_scale_witness: the default tie-break '
                   'removes an absolute number of median grades per step - {(b:5):1, (a:3,b:2,c:2):1}, two seats: StatisticsError, with '
                   'all counts tripled [a, b]; open finding C11-mj-default-tiebreak-scale); proved instead: '
                   'majorityJudgmentDefault_scale_partial (invariant whenever the medians decide every place, i.e. the tie-break is not '
                   'entered) and majorityJudgmentPlus_scale (tie_breaking=\'plus\' is invariant)'}
MULTIPLIERS = [2, 3, 7, 10 ** 6, 10 ** 25 + 7]
SMALL_MULTIPLIERS = [2, 3, 7]
BIG_MULTIPLIERS = [10 ** 25 + 7, 2 ** 70 + 1, 3 * 10 ** 30 + 11, 10 ** 25 + 7]     # directed boundary cases
# Bucklin/Oklahoma boundary cases: EVEN factors too (a quota computed as `sum // 2` is only wrong for odd totals, which an odd
# factor keeps odd in both runs and an even factor repairs in the scaled run)
HALF_MULTIPLIERS = [10 ** 25 + 7, 2 * (10 ** 25 + 7), 10 ** 6, 2 ** 70 + 1, 2, 3 * 10 ** 30 + 11, 2 ** 70, 7]
NAMES = Names(prefix='cand')
REL_THRESHOLDS = {'rel_threshold_5pc': ('1/20', True), 'rel_threshold_third': ('1/3', False),
                  'rel_threshold_5pc_decimal': ('1/20', True), 'rel_threshold_5pc_float': ('3602879701896397/72057594037927936', True)}   # as built in families.py
DIST_FAMILIES = ('ha_', 'lr_', 'qd_')
SCORERS = {'positional_borda': {'s': 'Borda', 'base': 1}, 'positional_borda0': {'s': 'Borda', 'base': 0},
           'positional_dowdall': {'s': 'Dowdall'}, 'positional_geometric': {'s': 'Geometric', 'base': 2},
           'positional_modified_borda': {'s': 'ModifiedBorda'}, 'positional_fixed_top3': {'s': 'FixedTop', 'top': 3}}   # families.py


def enc_ranked(prof):
    """families.py ranked profile -> the C13 driver encoding (shared rank = {"set": [...]})"""
    return [[[({'set': it} if isinstance(it, list) else it) for it in b], w] for b, w in prof]


def pairwise_of(prof, at_bottom=True):
    """the pairwise dictionary the real RankedToCondorcetVotes(unranked_at_bottom) makes of a (protocol) ranked profile, insertion order kept"""
    import votelib.convert as cv
    d = cv.RankedToCondorcetVotes(unranked_at_bottom=at_bottom).convert(fam_mod.build('ranked', prof, NAMES))
    return [[NAMES.i(a), NAMES.i(b), num_str(c)] for (a, b), c in d.items()]


CONDORCET_SETS = {'condorcet_winner': 'winner', 'smith_set': 'smith', 'schwartz_set': 'schwartz'}


SCORE_CFG = {'score_mean': ('score', {'function': 'mean', 'unscored': None}),
             'score_sum0': ('score', {'function': 'sum', 'unscored': '0'}),
             'score_median': ('score', {'function': 'median_low', 'unscored': None}),
             'majority_judgment_plus': ('mj', {'function': 'median_low', 'unscored': None, 'tie_breaking': 'plus'}),
             'star': ('star', {'function': 'sum', 'unscored': None, 'added_count': 1, 'added_fraction': '0'})}   # families.py
MODEL_MAX_VOTES = 5000      # the model expands one list element per vote as the code does (and sorts by insertion)


def enc_score(prof):
    """families.py score profile -> the C12 driver encoding; None when a count is not a Python int (the code raises TypeError
    there: open finding C11-score-aggregation-expands-votes) or the profile is too large for the expanding model"""
    out, tot = [], 0
    for b, w in prof:
        f = Fraction(w)
        if f.denominator != 1:
            return None
        tot += int(f)
        out.append([[[c, str(sc)] for c, sc in b], int(f)])
    return out if tot <= MODEL_MAX_VOTES else None


def enc_stv(prof):
    """families.py ranked profile -> the C03 driver encoding: shared ranks in the iteration order of the frozenset the
    implementation is given (the STV model reads that order)"""
    votes = fam_mod.build('ranked', prof, NAMES)
    return [[[[NAMES.i(x) for x in it] if isinstance(it, frozenset) else NAMES.i(it) for it in b], num_str(w)]
            for b, w in votes.items()]


def pure_constraints(prof, n):
    """the floors / caps families._PureConstrained derives from the vote VALUES (a cap on the unique largest party one seat below
    its exact share, previous seats for the unique smallest party equal to its share rounded up), on protocol ids"""
    import math
    vals = {c: Fraction(w) for c, w in prof}
    total = sum(vals.values())
    prev, caps = [], []
    if total > 0 and len(vals) >= 3:
        sv = sorted(vals.values())
        if sv[-1] != sv[-2]:
            top = [c for c, v in vals.items() if v == sv[-1]][0]
            caps.append([top, max(math.floor(sv[-1] * n / total) - 1, 0)])
        if sv[0] != sv[1]:
            low = [c for c, v in vals.items() if v == sv[0]][0]
            prev.append([low, math.ceil(sv[0] * n / total)])
    return prev, caps


def enc_approval(prof):
    return [[{'set': b}, w] for b, w in prof]


def canon_runs(sel, keyvals):
    """canonical form of a selection given the value each candidate was ranked by: runs of individually listed winners of
    equal value are sorted (their order is the iteration order of a Python set / dict built from one)"""
    out, i = [], 0
    while i < len(sel):
        if isinstance(sel[i], dict):
            out.append(canon(sel[i]))
            i += 1
            continue
        j = i
        while j < len(sel) and not isinstance(sel[j], dict) and keyvals.get(sel[j]) == keyvals.get(sel[i]):
            j += 1
        out.append(sorted(sel[i:j]))
        i = j
    return out
# ---- op `pair_tie`: "equal rational totals are always recognised as tied" on the pairwise-based evaluators -------------------------
# A pairwise contest with EQUAL totals (w : w) is a tie whatever the common total w is.  For an evaluator that is a function of the
# pairwise MAJORITIES (who beats whom, and by which winning total / margin) the relation
#     outcome(d with the tied contests at (w, w)) == outcome(d with the same contests at (w', w'))    for all w, w' >= 0
# must hold - in particular with w' = 0, and with both entries of the tied contests deleted from the dictionary.  Checked on the
# unchanged tree (3000 random dictionaries of 3-5 candidates, w in {>= the largest genuine total, 0, 3, 11/2, 10^30}): it holds
# EXACTLY (same list, same order) for rankedpairs_winvotes, rankedpairs_margins, copeland_2o, copeland_raw, schulze, kemeny_young
# (a tied contest adds the same w to the score of every ranking), minimax_winvotes, minimax_margins, CondorcetWinner, SmithSet and
# SchwartzSet.  It does NOT hold, by definition of the rule, for the pairwise-opposition variants (rankedpairs_pwo, minimax_pwo rank
# by the raw opposing total, ties included) - these are not in PAIR_TIE_EVALUATORS.  The `deleted` variant changes the insertion
# order of the dictionary (hence the order among equally placed individually listed winners): compared up to order, only when every
# candidate still occurs in the dictionary, and not for ranked pairs (RankedPairs raises VotingSystemError on a dictionary that lacks a
# contest - behaviour on incomplete dictionaries, not this property's subject).
PAIR_TIE_EVALUATORS = ['rankedpairs_winvotes', 'rankedpairs_margins', 'copeland_2o', 'copeland_raw', 'schulze', 'kemeny_young',
                       'minimax_winvotes', 'minimax_margins', 'winner', 'smith', 'schwartz']


def _pt_num(s):
    f = Fraction(s)
    return int(f) if f.denominator == 1 else f


def pair_tie_dict(case, w):
    """the pairwise dictionary of a `pair_tie` case with every tied contest at (w, w); w = 'del': both entries left out.
    Protocol form [[a, b, "count"], ...] in insertion order."""
    out = []
    for a, b, v in case['votes']:
        if v is None:
            if w == 'del':
                continue
            v = w
        out.append([a, b, v])
    return out


def _pair_tie_run(case, w):
    import votelib.evaluate.condorcet as vcon
    name = case['name']
    d = {(NAMES.n(a), NAMES.n(b)): _pt_num(v) for a, b, v in pair_tie_dict(case, w)}
    if name in CONDORCET_SETS.values():
        ev = {'winner': vcon.CondorcetWinner, 'smith': vcon.SmithSet, 'schwartz': vcon.SchwartzSet}[name]()
        return guarded(lambda: enc_selection(ev.evaluate(d), NAMES), 10)
    return guarded(lambda: enc_selection(vcon.EVALUATORS[name].evaluate(d, case['n']), NAMES), 10)


def _unordered(o):
    if isinstance(o, dict):
        return o
    return sorted(json.dumps(x, sort_keys=True) for x in canon(o))


def gen_pair_tie(rng, tier):
    """pairwise dictionaries (3-5 candidates, complete, shuffled insertion order) with one or more EXACTLY tied contests whose
    common total is LARGE - at least the largest genuine winning total, up to 10^30 - next to genuine wins of small totals (what
    truncated ballots produce: contests of different turnout); integer and Fraction totals; the alternatives the tied total is
    replaced by: 0, a value below every winning total, another large one, and deletion of the entries"""
    import itertools
    per = 10 if tier == 'quick' else 150
    for name in PAIR_TIE_EVALUATORS:
        for t in range(per):
            m = rng.randint(3, 4) if (name == 'kemeny_young' or t % 3) else 5
            pairs = list(itertools.combinations(range(m), 2))
            tied = set(rng.sample(pairs, rng.randint(1, len(pairs) - 1)))
            frac = t % 3 == 1
            den = rng.choice([2, 3, 7]) if frac else 1
            vals, top = {}, Fraction(0)
            for a, b in pairs:
                if (a, b) in tied:
                    vals[a, b] = vals[b, a] = None
                else:
                    x, y = rng.sample(range(0, 7 * den), 2)
                    if t % 5 == 0:
                        x, y = max(x, y), max(x, y) - 1 if max(x, y) > 0 else 1       # near ties next to the exact ones
                    if rng.random() < 0.5:
                        x, y = y, x
                    vals[a, b], vals[b, a] = Fraction(x, den), Fraction(y, den)
                    top = max(top, vals[a, b], vals[b, a])
            order = [(a, b) for a, b in pairs] + [(b, a) for a, b in pairs]
            rng.shuffle(order)
            w = top + rng.choice([0, 0, Fraction(1, den), 1, 5, 10 ** 30, 10 ** 25 + 7])
            alts = ['0', num_str(Fraction(rng.randint(0, 2), den)), num_str(w * 3 + 1)]
            left = {c for p in order if vals[p] is not None for c in p}
            tags = ['equal_rational', 'pair_tie', 'pair_tie_large_total']
            if len(left) == m and not name.startswith('rankedpairs'):
                alts.append('del')
                tags.append('pair_tie_entries_deleted')
            if frac:
                tags.append('pair_tie_fraction_totals')
            if w > 2 ** 53:
                tags.append('beyond_2^53')
            yield {'op': 'pair_tie', 'name': name, 'n': rng.randint(1, m),
                   'votes': [[a, b, None if vals[a, b] is None else num_str(vals[a, b])] for a, b in order],
                   'w': num_str(w), 'alts': alts, '_tags': tags + ['pt:' + name]}


_FAMS = None


def fams():
    global _FAMS
    if _FAMS is None:
        _FAMS = {f.name: f for f in fam_mod.families()}
    return _FAMS


UNPROVED = []   # filled at import: scale-free families without a Lean theorem yet


def _init_unproved():
    try:
        for f in fams().values():
            if f.scale_free and f.name in FALSE_AS_STATED:
                UNPROVED.append(f'scale_invariant_{f.name}: {FALSE_AS_STATED[f.name]}')
            elif f.scale_free and f.name not in PROVED_FAMILIES:
                UNPROVED.append('scale_invariant_' + f.name)
            elif f.name in PARTLY_PROVED:
                UNPROVED.append(f'scale_invariant_{f.name} for {PARTLY_PROVED[f.name]}')
    except Exception:
        pass


_init_unproved()
NAME_MODES = ['str', 'int0', 'empty0', 'person', 'tuple']
REQUIRED_COUNTERS = (['score_fraction_counts', 'score_large_factor', 'scale', 'near_tie', 'equal_rational', 'beyond_2^53', 'modelled', 'qd_options', 'qd_policy_subtract', 'qd_prev_gains', 'qd_caps', 'ha_options', 'ha_prev_gains', 'ha_caps', 'ha_prev_at_least_votes', 'equal_quotients_three_or_more', 'mj_all_share_the_median', 'mj_step_size_decides', 'irv_totals_around_2^63',
                      'lr_equal_remainders', 'pure_total_below_one', 'approval_later_seat_level', 'threshold_boundary', 'coef_tie', 'coef_as_decimal', 'coef_as_float', 'exact_half_or_quota', 'odd_total_half', 'even_factor',
                      'pair_tie', 'pair_tie_large_total', 'pair_tie_fraction_totals', 'pair_tie_entries_deleted']
                     + ['pt:' + e for e in PAIR_TIE_EVALUATORS]
                     + ['m:' + f for f in PROVED_FAMILIES])      # every proved family is also run through its Lean model
RULE = ('every scale-free evaluator family of the quantifier (plurality, divisor methods, largest remainder with exact quotas, '
        'Condorcet methods, STV-Gregory with Hare quota, Bucklin/Oklahoma, positional, approval, score, majority judgment, STAR, '
        'relative thresholds) x generated profiles (2-5 candidates) x multipliers {2,3,7,10^6,10^25+7} (score family: {2,3,7}, '
        'because its aggregation expands one element per vote); directed boundary profiles: largest-remainder profiles whose '
        'remainders are equal as rationals but come from different whole-quota counts (and totals that are exact multiples of the '
        'quota), Bucklin/Oklahoma profiles with a first choice of exactly half of the voters and STV profiles with exactly the Hare '
        'quota, at factors 10^25+7, 2^70+1, 3*10^30+11; one-seat runs of Bucklin/Benham/Tideman; near-tie pairs (v,v+1) for v up to '
        '10^30; equal rationals in different representations; op pair_tie: pairwise dictionaries (3-5 candidates, integer and Fraction totals) with '
        'exactly tied contests of a LARGE common total (at least the largest genuine winning total, up to 10^30) next to genuine wins, '
        'for every majority-based Condorcet evaluator (all of EVALUATORS but the pairwise-opposition variants, Condorcet winner, Smith, '
        'Schwartz): the outcome must not depend on the common total of the tied contests (0, small, large, entries deleted), and the '
        'Lean model evaluates the same dictionary. Every proved family is also evaluated by its Lean model on the SCALED '
        'profile and compared with the implementation. Non-trivial = the base outcome is not an error; distinct by canonical request.')
NOT_VERIFIED = ['returned numeric TYPES (int/Fraction/Decimal, never float) are a runtime fact monitored by the harness, not a theorem',
                'families listed under unproved are decided by the oracle on the implementation only',
                'score family: the theorems are for positive NATURAL factors (ballot counts are Python ints) and for min_count = 0, '
                'truncation = 0, unscored_value not the builtin min (min_count and an integer truncation are absolute numbers of votes)',
                'Condorcet families: the evaluator model runs on the pairwise dictionary the real converter produced (its insertion order '
                'depends on frozenset iteration); the converter model is checked against it as a map on every case',
                'order among equally valued winners listed individually (positional / approval / score / PAV / second-order Copeland) is '
                'compared up to permutation inside runs of equal value (Python set iteration order)',
                'Benham is a one-seat evaluator (it asserts n_seats == 1); Tideman runs through tidemanN (one tier per seat, C05); Bucklin / Oklahoma / Baldwin run through the n-seat models '
                'of the C08 extension (shared ranks are iterated in protocol order there: compared order-insensitively on such profiles); '
                'the score-family model expands one '
                'element per vote like the code, so it is run on profiles of at most 5000 votes']


def generate(rng, tier):
    F = list(fams().values())
    per = 14 if tier == 'quick' else 350
    for f in F:
        mults = SMALL_MULTIPLIERS if f.small_weights else MULTIPLIERS
        for t in range(per):
            m = rng.randint(2, 5)
            prof = fam_mod.gen_profile(rng, f.vtype, m)
            cands = fam_mod.candidates_of(fam_mod.base_vtype(f.vtype), prof)
            n = rng.randint(1, max(1, len(cands)))
            k = mults[t % len(mults)]
            tags = ['scale']
            if k > 2 ** 53:
                tags.append('beyond_2^53')
            yield {'op': 'scale', 'family': f.name, 'prof': prof, 'n': n, 'k': str(k), '_tags': tags}
    # largest remainder: remainders that are EQUAL AS RATIONALS but come from different whole-quota counts (v = q*g + r with
    # the same r and different g): a float quotient v/q separates them (4/3-1 != 7/3-2 in doubles), exact arithmetic ties them
    offs = {'lr_hare': 0, 'lr_hagenbach_bischoff': 1, 'lr_imperiali': 2, 'qd_hare': 0}
    for f in F:
        if f.name in offs:
            for t in range(10 if tier == 'quick' else 100):
                q = rng.choice([3, 6, 7, 9, 11, 13])
                r = rng.randint(0, q - 1)              # r = 0: totals that are exact multiples of the quota
                g1, g2 = rng.sample(range(0, 4), 2)
                a, b = q * g1 + r, q * g2 + r
                n = rng.randint(max(g1 + g2 + 1, 2), g1 + g2 + 4)
                rest = q * (n + offs[f.name]) - a - b          # total = q * (n + offset): the quota is exactly q
                if rest < 0:
                    continue
                vals = [a, b] + ([rest] if rest > 0 else [])
                k = MULTIPLIERS[t % len(MULTIPLIERS)]
                yield {'op': 'scale', 'family': f.name, 'prof': [[i, str(v)] for i, v in enumerate(vals)], 'n': n, 'k': str(k),
                       '_tags': ['scale', 'lr_equal_remainders'] + (['beyond_2^53'] if k > 2 ** 53 else [])}
    # thresholds: a party holding EXACTLY the threshold share (and one vote below / above it at the base scale), at factors
    # where a product threshold * total is no longer exact in Decimal (28 digits) or double arithmetic
    for f in F:
        if f.name in REL_THRESHOLDS:
            thr = Fraction(REL_THRESHOLDS[f.name][0]).limit_denominator(1000)      # 1/20 for the float family too
            for t in range(12 if tier == 'quick' else 120):
                T = rng.randint(1, 60)
                a = thr.numerator * T + rng.choice([0, 0, 0, -1, 1])
                rest = thr.denominator * T - a
                parts = [rest]
                if rest > 2 and rng.random() < 0.6:
                    x = rng.randint(1, rest - 1)
                    parts = [x, rest - x]
                vals = [a] + parts
                order = list(range(len(vals)))
                rng.shuffle(order)
                k = (BIG_MULTIPLIERS + [10 ** 30 + 570, 10 ** 6])[t % (len(BIG_MULTIPLIERS) + 2)]
                yield {'op': 'scale', 'family': f.name, 'prof': [[i, str(vals[i])] for i in order], 'n': 1, 'k': str(k),
                       '_tags': ['scale', 'threshold_boundary'] + (['beyond_2^53'] if k > 2 ** 53 else [])}
    # sequential / proportional approval: a later seat that is an exact tie (or a two-vote race) between a reweighted ballot group and
    # an untouched one, at factors where a float weight is off by far more than the margin
    for f in F:
        if f.name in ('approval_spav', 'approval_pav'):
            for t in range(16 if tier == 'quick' else 160):
                prof = fam_mod.gen_approval_level(rng, rng.randint(3, 4))
                k = (BIG_MULTIPLIERS + [3 * 10 ** 40 + 1, 2 ** 60 + 100, 10 ** 6, 7])[t % (len(BIG_MULTIPLIERS) + 4)]
                yield {'op': 'scale', 'family': f.name, 'prof': prof, 'n': 2, 'k': str(k),
                       '_tags': ['scale', 'approval_later_seat_level'] + (['beyond_2^53'] if k > 2 ** 53 else [])}
    # exact proportional shares of RATIONAL vote counts whose total lies below one vote (alone, or after a cap / floor has fixed
    # the larger parties): an absolute "one vote" constant in a scale-free quotient shows only there
    for f in F:
        if f.name.startswith('pure_proportionality'):
            for t in range(16 if tier == 'quick' else 160):
                d = rng.choice([12, 24, 60])
                parts = sorted(rng.sample(range(1, d), 3), reverse=True)
                vals = [Fraction(x, d * rng.choice([1, 2, 5])) for x in parts]
                if t % 3 == 0:
                    vals[0] = vals[0] + rng.randint(3, 9)          # one large party: the others' total stays below one
                order = [0, 1, 2]
                rng.shuffle(order)
                k = [2, 3, 12, 10 ** 6, 10 ** 25 + 7, 7][t % 6]
                yield {'op': 'scale', 'family': f.name, 'prof': [[i, num_str(vals[i])] for i in order], 'n': rng.choice([4, 11, 20]),
                       'k': str(k), '_tags': ['scale', 'pure_total_below_one'] + (['beyond_2^53'] if k > 2 ** 53 else [])}
    # every scale-free rule on party totals: RATIONAL counts (vote shares summing to one, thirds, sevenths) and tiny electorates with
    # fewer voters than seats - the quota, the quotients and the threshold product all lie below one vote at the base scale and far
    # above it after scaling, so an absolute constant (0 or 1 vote) compared with a scale-free quantity shows
    for f in F:
        if f.vtype == 'simple' and f.scale_free and not f.name.startswith('pure_proportionality'):
            for t in range(10 if tier == 'quick' else 120):
                m = rng.randint(2, 4)
                if t % 2 == 0:
                    d = rng.choice([7, 12, 60, 100, 1000])
                    cuts = sorted(rng.sample(range(1, d), m - 1))
                    vals = [Fraction(b - a, d) for a, b in zip([0] + cuts, cuts + [d])]      # shares summing to exactly one
                    if t % 4 == 0:
                        vals = [v / rng.choice([2, 3, 10])for v in vals]
                    tag = 'shares_below_one_vote'
                else:
                    vals = [rng.choice([0, 1, 1, 2]) for _ in range(m)]
                    if sum(vals) == 0:
                        vals[0] = 1
                    tag = 'fewer_voters_than_seats'
                n = rng.randint(sum(1 for v in vals if v), 12) if f.kind == 'dist' else rng.randint(1, m)
                k = [2, 3, 7, 100, 10 ** 6, 10 ** 25 + 7][t % 6]
                yield {'op': 'scale', 'family': f.name, 'prof': [[i, num_str(v)] for i, v in enumerate(vals)], 'n': n, 'k': str(k),
                       '_tags': ['scale', tag] + (['beyond_2^53'] if k > 2 ** 53 else [])}
    # majority judgment, default tie-break: every candidate graded by everybody, ALL sharing the (lower) median grade, above-median
    # grades held by two or more voters - the tie-break's removal step is computed from vote COUNTS, so it must scale with them
    # (where the unchanged code itself is not scale-free the listed finding covers it only while implementation and model agree)
    for t in range(60 if tier == 'quick' else 1200):
        # the shape in which the size of the removal step decides: X and Y share the median `lo`; b >= 2 voters lift X far above it, a + b
        # voters lift Y above it, so Y's median moves after ONE removal while X's moves only after a + 1
        lo = rng.randint(0, 2)
        a, b = rng.randint(1, 2), rng.randint(2, 3)
        prof = [[[[0, lo], [1, lo]], str(a)], [[[0, lo + rng.randint(2, 3)], [1, lo]], str(b)], [[[0, lo], [1, lo + rng.randint(1, 2)]], str(a + b)]]
        if rng.random() < 0.4:
            g = rng.randint(0, 4)
            prof = [[b_ + [[2, g]], w] for b_, w in prof]
        rng.shuffle(prof)
        yield {'op': 'scale', 'family': 'majority_judgment', 'prof': prof, 'n': 1, 'k': str([2, 3, 7, 10][t % 4]),
               '_tags': ['scale', 'mj_all_share_the_median', 'mj_step_size_decides']}
    for t in range(60 if tier == 'quick' else 1200):
        m = rng.randint(2, 3)
        for _try in range(200):
            nb = rng.randint(2, 4)
            prof = [[[[c, rng.randint(0, 4)] for c in range(m)], str(rng.randint(1, 3))] for _ in range(nb)]
            if len({json.dumps(b) for b, _ in prof}) < nb:
                continue
            meds = []
            for c in range(m):
                gs = sorted(g for b, w in prof for cc, g in b if cc == c for _ in range(int(w)))
                meds.append(gs[(len(gs) - 1) // 2])
            if len(set(meds)) == 1 and any(int(w) > 1 and g > meds[0] for b, w in prof for _, g in b):
                break
        else:
            continue
        k = [2, 3, 7, 10][t % 4]          # the aggregation (and its model) expands one element per vote: small factors only
        yield {'op': 'scale', 'family': 'majority_judgment', 'prof': prof, 'n': 1, 'k': str(k),
               '_tags': ['scale', 'mj_all_share_the_median']}
    # highest averages with every argument of evaluate(): previous gains (also at least as large as the party's vote count: tiny
    # electorates, sub-unit rational counts, zero-vote parties) and caps, every divisor and modified first coefficients - the theorem
    # highestAverages_scale holds for every configuration, only the votes are scaled
    for t in range(80 if tier == 'quick' else 2500):
        m = rng.randint(2, 5)
        div = rng.choice(['d_hondt', 'sainte_lague', 'imperiali', 'danish', 'macau'])
        first = rng.choice([None, None, None, '7/5', '1/2', '1'])
        if t % 3 == 0:
            vals = [Fraction(rng.randint(0, 9), rng.choice([1, 2, 3, 7, 10])) for _ in range(m)]
        else:
            vals = [rng.choice([0, 0, 1, 1, 2, 3, 5]) if rng.random() < 0.6 else rng.randint(1, 40) for _ in range(m)]
        if sum(vals) == 0:
            vals[0] = 2
        n = rng.randint(1, 12)
        prev, left = [], n
        if rng.random() < 0.7:
            for i in rng.sample(range(m), rng.randint(1, m)):
                g = rng.randint(0, min(4, left))
                if g:
                    prev.append([i, g]); left -= g
        caps = []
        if rng.random() < 0.3:
            pd = dict(prev)
            caps = [[i, pd.get(i, 0) + rng.randint(0, 3)] for i in rng.sample(range(m), rng.randint(1, m - 1))]
        k = (MULTIPLIERS + [100])[t % (len(MULTIPLIERS) + 1)]
        big_prev = any(g >= Fraction(vals[i]) for i, g in prev)
        yield {'op': 'scale_ha', 'divisor': div, 'first_coef': first, 'prof': [[i, num_str(v)] for i, v in enumerate(vals)], 'n': n,
               'prev': prev, 'max': caps, 'k': str(k),
               '_tags': ['scale', 'ha_options'] + (['ha_prev_gains'] if prev else []) + (['ha_caps'] if caps else []) +
                        (['ha_prev_at_least_votes'] if big_prev else []) + (['beyond_2^53'] if k > 2 ** 53 else [])}
    # the quota distributor / largest remainder with EVERY option of the constructor and of evaluate(): exact quota x over-award
    # policy x accept_equal x previous gains x caps, on small electorates where surpluses and remainders are close (previous gains and
    # caps are seat counts: only the votes are scaled) - theorems quotaDistributor_scale / largestRemainder_scale hold for every cfg
    for t in range(80 if tier == 'quick' else 2500):
        m = rng.randint(2, 5)
        quota = rng.choice(['hare', 'hagenbach_bischoff', 'imperiali', 'imperiali'])
        pol = rng.choice(['error', 'subtract', 'subtract', 'ignore'])
        if t % 3 == 0:
            vals = [Fraction(rng.randint(1, 30), rng.choice([1, 2, 3, 7])) for _ in range(m)]
        else:
            vals = [rng.choice([0, 1, 2, 3, 4, 5, 7]) if rng.random() < 0.5 else rng.randint(1, 40) for _ in range(m)]
        if sum(vals) == 0:
            vals[0] = 3
        n = rng.randint(1, 8)
        prev = []
        if rng.random() < 0.6:
            left = n
            for i in rng.sample(range(m), rng.randint(1, m)):
                g = rng.randint(0, min(2, left))
                if g:
                    prev.append([i, g]); left -= g
        caps = []
        if rng.random() < 0.3:
            pd = dict(prev)
            caps = [[i, pd.get(i, 0) + rng.randint(0, 3)] for i in rng.sample(range(m), rng.randint(1, m))]
        k = (MULTIPLIERS + [100])[t % (len(MULTIPLIERS) + 1)]
        yield {'op': 'scale_qd', 'kind': rng.choice(['lr', 'lr', 'qd']), 'quota': quota, 'on_overaward': pol, 'accept_equal': rng.random() < 0.7,
               'prof': [[i, num_str(v)] for i, v in enumerate(vals)], 'n': n, 'prev': prev, 'max': caps, 'k': str(k),
               '_tags': ['scale', 'qd_options', 'qd_policy_' + pol] + (['qd_prev_gains'] if prev else []) + (['qd_caps'] if caps else []) +
                        (['beyond_2^53'] if k > 2 ** 53 else [])}
    # instant run-off (no quota): ordinary close three-way profiles at SEVERAL magnitudes around and beyond 2^63 and 2^64 (a finite
    # stand-in for the absent quota is "reached" there)
    for f in F:
        if f.name == 'stv_gregory_noquota':
            for t in range(24 if tier == 'quick' else 400):
                a, b, c = rng.randint(30, 36), rng.randint(30, 36), rng.randint(28, 34)
                prof = [[[0, 1, 2], str(a)], [[2, 1, 0], str(b)], [[1, 2, 0], str(c)]]
                rng.shuffle(prof)
                k = [2 ** 57, 2 ** 58 + 1, 10 ** 18, 2 ** 62 + 3, 10 ** 19, 10 ** 20 + 7, 10 ** 30, 10 ** 40 + 3][t % 8]
                yield {'op': 'scale', 'family': f.name, 'prof': prof, 'n': rng.choice([1, 1, 2]), 'k': str(k),
                       '_tags': ['scale', 'irv_totals_around_2^63', 'beyond_2^53']}
    # exactly half is not a majority, exactly the quota is the quota - at magnitudes where a float quota is off by 10^9:
    # Bucklin/Oklahoma: the first choice of exactly half of the voters, everybody's second choice wins in round 2;
    # STV-Gregory-Hare: a candidate holding exactly the Hare quota on first preferences
    for f in F:
        if f.name in ('bucklin', 'oklahoma', 'bucklin_whole', 'oklahoma_whole', 'stv_gregory_hare', 'stv_gregory_hare_strict', 'stv_gregory_imperiali', 'stv_gregory_noquota'):
            for t in range(16 if tier == 'quick' else 160):
                h = rng.randint(2, 9)
                x = rng.randint(1, h - 1)
                tags = ['scale', 'exact_half_or_quota']
                if f.name.startswith('stv_gregory_'):
                    k = BIG_MULTIPLIERS[t % len(BIG_MULTIPLIERS)]
                    prof, n = [[[0], str(h)], [[1, 2], str(x)], [[2, 1], str(h - x)]], 2
                else:
                    k = HALF_MULTIPLIERS[(t // 2) % len(HALF_MULTIPLIERS)]
                    if t % 2 == 0:
                        prof, n = [[[0, 1], str(h)], [[2, 1], str(h - x)], [[1, 2], str(x)]], 1
                    else:
                        # ODD total 2h+1; the shared first rank gives candidate 0 exactly h + 1/2 = half of the votes
                        prof, n = [[[[0, 1], 2], '1'], [[0, 2], str(h)], [[2, 1], str(h)]], 1
                        tags.append('odd_total_half')
                    if k % 2 == 0:
                        tags.append('even_factor')
                if k > 2 ** 53:
                    tags.append('beyond_2^53')
                yield {'op': 'scale', 'family': f.name, 'prof': prof, 'n': n, 'k': str(k), '_tags': tags}
    # the one-seat evaluators whose Lean model is the single-winner rule: directed cases with n = 1
    for f in F:
        if f.name in ('bucklin', 'benham', 'tideman_alternative'):
            for t in range(8 if tier == 'quick' else 80):
                m = rng.randint(2, 5)
                prof = fam_mod.gen_profile(rng, f.vtype, m)
                k = MULTIPLIERS[t % len(MULTIPLIERS)]
                yield {'op': 'scale', 'family': f.name, 'prof': prof, 'n': 1, 'k': str(k),
                       '_tags': ['scale', 'one_seat'] + (['beyond_2^53'] if k > 2 ** 53 else [])}
    # score family: rational counts (the statement allows them) and a moderately large integer factor
    for f in F:
        if f.vtype == 'score' and f.scale_free:
            for t in range(3 if tier == 'quick' else 20):
                m = rng.randint(2, 4)
                prof = [[b, num_str(Fraction(w) / 2)] for b, w in fam_mod.gen_profile(rng, 'score', m)]
                cands = fam_mod.candidates_of('score', prof)
                yield {'op': 'scale', 'family': f.name, 'prof': prof, 'n': rng.randint(1, len(cands)), 'k': '2',
                       '_tags': ['scale', 'score_fraction_counts']}
            m = rng.randint(2, 4)
            prof = fam_mod.gen_profile(rng, 'score', m)
            cands = fam_mod.candidates_of('score', prof)
            yield {'op': 'scale', 'family': f.name, 'prof': prof, 'n': rng.randint(1, len(cands)), 'k': str(10 ** 5),
                   '_tags': ['scale', 'score_large_factor']}
    # exact ties created by a modified first divisor given as Decimal / float: A = p*k votes against B = 2*q*k with coefficient
    # p/q: A's first quotient equals B's second one, whatever the magnitude; one vote more / fewer for A decides the seat
    for t in range(24 if tier == 'quick' else 240):
        coef, kind = [('1.4', 'decimal'), ('1.42', 'decimal'), ('1.4142136', 'decimal'), ('1.0000001', 'decimal'),
                      ('1.23456789012345678901', 'decimal'), (repr(1.4), 'float'), (repr(1.1), 'float'), ('1.5', 'float')][t % 8]
        k = (MULTIPLIERS + BIG_MULTIPLIERS)[(t // 8) % (len(MULTIPLIERS) + len(BIG_MULTIPLIERS))]
        yield {'op': 'coef_tie', 'coef': coef, 'kind': kind, 'k': str(k), 'delta': [0, 0, 1, -1][t % 4 if t >= 8 else 0],
               '_tags': ['coef_tie', 'coef_as_' + kind] + (['beyond_2^53'] if k > 2 ** 53 else [])}
    for t in range(60 if tier == 'quick' else 600):
        v = rng.choice([0, 5, 10 ** 9, 2 ** 53, 10 ** 25, 10 ** 30]) + rng.randint(0, 3)
        if rng.random() < 0.3:
            v = Fraction(v, rng.choice([3, 7]))
        order = rng.random() < 0.5
        yield {'op': 'near_tie', 'v': num_str(v), 'first': order, '_tags': ['near_tie']}
    for t in range(40 if tier == 'quick' else 400):
        x = rng.randint(1, 10 ** rng.choice([1, 5, 20, 30]))
        d = rng.choice([2, 3, 4, 6])
        yield {'op': 'equal_rational', 'x': str(x), 'd': d, '_tags': ['equal_rational']}
    # THREE OR MORE equal rational quotients at the last seats of a divisor method: party i holds votes q * d(m_i - 1) (its m_i-th
    # divisor), so every party reaches the quotient q at the same time; with r < g seats left all g parties must be named in the tie,
    # at every magnitude of q (a scan that looks at r + 1 quotients only, or a float comparison, names too few)
    for t in range(40 if tier == 'quick' else 600):
        div = rng.choice(['d_hondt', 'sainte_lague'])
        g = rng.randint(3, 5)
        ms = rng.sample(range(1, 7), g)
        q = Fraction(rng.choice([1, 7, 100, 10 ** 18 + 3, 10 ** 30 + 7]), rng.choice([1, 1, 3, 7]))
        r = rng.randint(1, g - 2)
        k = (MULTIPLIERS + [1])[t % (len(MULTIPLIERS) + 1)]
        yield {'op': 'equal_quotients', 'divisor': div, 'ms': ms, 'q': num_str(q * k), 'r': r,
               '_tags': ['equal_rational', 'equal_quotients_three_or_more'] + (['beyond_2^53'] if q * k > 2 ** 53 else [])}


def _equal_quotients(case):
    d = (lambda j: j + 1) if case['divisor'] == 'd_hondt' else (lambda j: 2 * j + 1)
    q = Fraction(case['q'])
    votes = [(i, q * d(m - 1)) for i, m in enumerate(case['ms'])]
    return votes, sum(m - 1 for m in case['ms']) + case['r']


def impl(case):
    import votelib.evaluate.core as vc
    if case['op'] == 'scale':
        f = fams()[case['family']]
        base = fam_mod.run_family(f, case['prof'], case['n'], NAMES)
        scaled = fam_mod.run_family(f, fam_mod.scale(case['prof'], Fraction(case['k'])), case['n'], NAMES)
        return {'base': base, 'scaled': scaled}
    if case['op'] == 'scale_ha':
        import votelib.evaluate.proportional as vp
        import votelib.component.divisor as vd
        prev = {NAMES.n(i): g for i, g in case['prev']}
        caps = {NAMES.n(i): g for i, g in case['max']}

        def run(prof):
            d = vd.construct(case['divisor'])
            if case['first_coef'] is not None:
                d = vd.modified_first_coef(d, Fraction(case['first_coef']))
            ev = vp.HighestAverages(d)
            kw = {}
            if prev:
                kw['prev_gains'] = dict(prev)
            if caps:
                kw['max_seats'] = dict(caps)
            return guarded(lambda: enc_distribution(ev.evaluate(fam_mod.build('simple', prof, NAMES), case['n'], **kw), NAMES))
        return {'base': run(case['prof']), 'scaled': run(fam_mod.scale(case['prof'], Fraction(case['k'])))}
    if case['op'] == 'scale_qd':
        import votelib.evaluate.proportional as vp
        cls = vp.LargestRemainder if case['kind'] == 'lr' else vp.QuotaDistributor
        prev = {NAMES.n(i): g for i, g in case['prev']}
        caps = {NAMES.n(i): g for i, g in case['max']}

        def run(prof):
            ev = cls(case['quota'], accept_equal=case['accept_equal'], on_overaward=case['on_overaward'])
            kw = {}
            if prev:
                kw['prev_gains'] = dict(prev)
            if caps:
                kw['max_seats'] = dict(caps)
            return guarded(lambda: enc_distribution(ev.evaluate(fam_mod.build('simple', prof, NAMES), case['n'], **kw), NAMES))
        return {'base': run(case['prof']), 'scaled': run(fam_mod.scale(case['prof'], Fraction(case['k'])))}
    if case['op'] == 'coef_tie':
        import votelib.evaluate.proportional as vp
        import votelib.component.divisor as vd
        from decimal import Decimal
        c, a, b = _coef_tie(case)
        given = Decimal(case['coef']) if case['kind'] == 'decimal' else float(case['coef'])
        nm = Names(['a', 'b'])
        ev = vp.HighestAverages(vd.modified_first_coef(vd.d_hondt, given))
        return guarded(lambda: enc_distribution(ev.evaluate({'a': a, 'b': b}, 2), nm))
    if case['op'] == 'near_tie':
        v = Fraction(case['v'])
        v = int(v) if v.denominator == 1 else v
        items = [('a', v + 1), ('b', v)] if case['first'] else [('b', v), ('a', v + 1)]
        nm = Names(['a', 'b'])
        return guarded(lambda: enc_selection(vc.get_n_best(dict(items), 1), nm))
    if case['op'] == 'equal_quotients':
        import votelib.evaluate.proportional as vp
        votes, n = _equal_quotients(case)
        return guarded(lambda: enc_distribution(vp.HighestAverages(case['divisor']).evaluate(
            {NAMES.n(i): (int(v) if v.denominator == 1 else v) for i, v in votes}, n), NAMES))
    if case['op'] == 'pair_tie':
        return {'base': _pair_tie_run(case, case['w']), 'alts': [[w, _pair_tie_run(case, w)] for w in case['alts']]}
    if case['op'] == 'equal_rational':
        x, d = int(case['x']), case['d']
        nm = Names(['a', 'b'])
        votes = {'a': Fraction(2 * x, 2 * d), 'b': Fraction(x, d)}
        return guarded(lambda: enc_selection(vc.get_n_best(votes, 1), nm))
    raise ValueError(case['op'])


def _coef_tie(case):
    """exact coefficient p/q (of the Decimal text, or of the double), A = p*k + delta, B = 2*q*k"""
    from decimal import Decimal
    c = Fraction(Decimal(case['coef'])) if case['kind'] == 'decimal' else Fraction(float(case['coef']))
    k = int(case['k'])
    return c, c.numerator * k + case['delta'], 2 * c.denominator * k


def oracle(case, obs):
    out = []
    if fam_mod.has_float(obs):
        out.append(('float_returned', str(obs)[:200]))
    if case['op'] == 'coef_tie':
        exp = ([[1, 1], [{'tie': [0, 1]}, 1]] if case['delta'] == 0 else [[0, 1], [1, 1]] if case['delta'] > 0 else [[1, 2]])
        if canon(obs) != canon(exp):
            out.append(('coef_tie_misjudged', f"coefficient {case['coef']} given as {case['kind']}, k={case['k']}, delta={case['delta']}: "
                                              f'{json.dumps(canon(obs))} instead of {json.dumps(canon(exp))}'))
        return out
    if case['op'] == 'scale':
        f = fams()[case['family']]
        b, s = canon(obs['base']), canon(obs['scaled'])
        if f.scale_free and b != s:
            out.append(('outcome_changed_by_scaling', f'{f.name} k={case["k"]}: {json.dumps(b)} vs {json.dumps(s)}'))
    elif case['op'] == 'scale_ha':
        b, sc = canon(obs['base']), canon(obs['scaled'])
        if b != sc:
            out.append(('outcome_changed_by_scaling', f"HighestAverages({case['divisor']}, first_coef={case['first_coef']}) prev={case['prev']} "
                        f"max={case['max']} k={case['k']}: {json.dumps(b)} vs {json.dumps(sc)}"))
    elif case['op'] == 'scale_qd':
        b, sc = canon(obs['base']), canon(obs['scaled'])
        if b != sc:
            out.append(('outcome_changed_by_scaling', f"{case['kind']}({case['quota']}, on_overaward={case['on_overaward']}, accept_equal="
                        f"{case['accept_equal']}) prev={case['prev']} max={case['max']} k={case['k']}: {json.dumps(b)} vs {json.dumps(sc)}"))
    elif case['op'] == 'near_tie':
        if obs != [0]:
            out.append(('near_tie_treated_as_tie', str(obs)))
    elif case['op'] == 'equal_quotients':
        g = len(case['ms'])
        exp = sorted([[i, m - 1] for i, m in enumerate(case['ms']) if m > 1] + [[{'tie': list(range(g))}, case['r']]], key=lambda p: json.dumps(p[0], sort_keys=True))
        got = obs if isinstance(obs, dict) else sorted(canon(obs), key=lambda p: json.dumps(p[0], sort_keys=True))
        if got != exp:
            out.append(('equal_rationals_not_tied', f"{g} parties reach the same quotient {case['q']} for the last {case['r']} seat(s): expected "
                                                    f'{json.dumps(exp)}, got {json.dumps(got)}'))
    elif case['op'] == 'pair_tie':
        allc = {c for a, b, _ in case['votes'] for c in (a, b)}
        for w, o in obs['alts']:
            if w == 'del' and ({c for a, b, _ in pair_tie_dict(case, 'del') for c in (a, b)} != allc or case['name'].startswith('rankedpairs')):
                continue        # the relation is claimed only while every candidate still occurs in the dictionary (see PAIR_TIE_EVALUATORS)
            same = (_unordered(o) == _unordered(obs['base'])) if w == 'del' else (canon(o) == canon(obs['base']))
            if not same:
                out.append(('equal_totals_not_tied', f"{case['name']}, {case['n']} seat(s): the contests with equal totals ({case['w']} : {case['w']}) are ties, "
                            f"yet the outcome {json.dumps(canon(obs['base']))} becomes {json.dumps(canon(o))} when their common total is "
                            + ('removed (both entries deleted)' if w == 'del' else f'{w} : {w}')))
                break
    elif case['op'] == 'equal_rational':
        if canon(obs) != [{'tie': [0, 1]}]:
            out.append(('equal_rationals_not_tied', str(obs)))
    return out


def signature(case, clause):
    if case['op'] == 'scale':
        f = fams()[case['family']]
        if f.vtype == 'score' and any(Fraction(w).denominator != 1 for _, w in case['prof']):
            return f"scale:score_family:fraction_counts:{clause}"
        return f"scale:{case['family']}:{clause}"
    if case['op'] == 'pair_tie':
        return f"pair_tie:{case['name']}:{clause}"
    return f"{case['op']}:{clause}"


def nontrivial(case, obs):
    if case['op'] in ('scale', 'scale_qd', 'scale_ha', 'pair_tie'):
        return not (isinstance(obs['base'], dict) and 'err' in obs['base'])
    return True


def model_line(case):
    """the Lean models of the proved families evaluate the SCALED profile; compared with the implementation's scaled run"""
    if case['op'] == 'scale_ha':
        return {'op': 'ha', 'divisor': case['divisor'], 'first_coef': case['first_coef'], 'votes': fam_mod.scale(case['prof'], Fraction(case['k'])),
                'n': case['n'], 'prev': case['prev'], 'max': case['max']}
    if case['op'] == 'scale_qd':
        return {'op': case['kind'], 'quota': case['quota'], 'accept_equal': case['accept_equal'], 'on_overaward': case['on_overaward'],
                'n': case['n'], 'votes': fam_mod.scale(case['prof'], Fraction(case['k'])), 'prev': case['prev'], 'max': case['max']}
    if case['op'] == 'scale':
        f = case['family']
        prof = fam_mod.scale(case['prof'], Fraction(case['k']))
        if f == 'plurality':
            return {'op': 'plurality', 'n': case['n'], 'votes': prof}
        if f.startswith('ha_') and f in PROVED_FAMILIES:
            return {'op': 'ha', 'divisor': f[3:], 'first_coef': None, 'votes': prof, 'n': case['n'], 'prev': [], 'max': []}
        if f == 'pure_proportionality':
            return {'op': 'pure_proportionality', 'votes': prof, 'n': case['n'], 'prev': [], 'max': []}
        if f == 'pure_proportionality_constrained':
            prev, caps = pure_constraints(prof, case['n'])
            return {'op': 'pure_proportionality', 'votes': prof, 'n': case['n'], 'prev': prev, 'max': caps}
        if f == 'quota_selector_hare':
            return {'op': 'quota_selector', 'n': case['n'], 'votes': prof, 'quota': 'hare', 'accept_equal': True, 'on_more': 'select'}
        if f == 'majority_judgment':
            # not a proved family (the statement is FALSE of the code): the C12 model of the default tie-break still evaluates the
            # scaled profile, which ties `majorityJudgmentDefault_scale_witness` to the implementation
            votes = enc_score(prof)
            if votes is None:
                return None
            return {'op': 'mj', 'function': 'median_low', 'unscored': None, 'tie_breaking': 'default', 'votes': votes, 'n': case['n'],
                    'min_count': 0, 'truncation': '0', 'bottom': '0'}
        if f not in PROVED_FAMILIES:
            return None
        if f in REL_THRESHOLDS:
            t, eq = REL_THRESHOLDS[f]
            return {'op': 'rel_threshold', 'votes': prof, 'threshold': t, 'accept_equal': eq}
        if f in SCORERS:
            return {'op': 'c11_positional', 'scorer': SCORERS[f], 'votes': enc_ranked(prof), 'n': case['n']}
        if f in ('approval_av', 'approval_sav'):
            return {'op': 'c11_approval', 'split': f == 'approval_sav', 'votes': enc_approval(prof), 'n': case['n']}
        if f.endswith('_sparse') or f in CONDORCET_SETS or f.startswith('condorcet_'):
            ab = fams()[f].at_bottom
            f = f[:-len('_sparse')] if f.endswith('_sparse') else f
            name = CONDORCET_SETS.get(f) or f[len('condorcet_'):]
            return {'op': 'c11_condorcet', 'name': name, 'profile': prof, 'votes': pairwise_of(prof, ab), 'n': case['n'], 'bottom': ab}
        if f in ('stv_gregory_hare', 'stv_gregory_hare_strict', 'stv_gregory_imperiali', 'stv_gregory_noquota'):
            return {'op': 'stv_eval', 'method': 'gregory', 'quota': 'imperiali' if f.endswith('imperiali') else None if f.endswith('noquota') else 'hare',
                    'accept_equal': not f.endswith('_strict'), 'mandatory': False, 'step': -1,
                    'form': 'selector', 'votes': enc_stv(prof), 'n': case['n'], 'prev': [], 'max': [], 'draws': []}
        if f == 'bucklin' and case['n'] == 1 and 'one_seat' in case.get('_tags', ()):
            return {'op': 'c11_bucklin', 'votes': enc_ranked(prof), 'split': True}      # the one-seat model of C17
        if f in ('bucklin', 'oklahoma', 'bucklin_whole', 'oklahoma_whole'):                                                 # the n-seat model of the C08 extension
            return {'op': 'preference_addition', 'votes': prof, 'n': case['n'], 'coef': f.split('_')[0], 'split': not f.endswith('_whole')}
        if f == 'baldwin':
            return {'op': 'baldwin', 'votes': prof, 'n': case['n']}
        if f == 'benham':
            if case['n'] != 1:
                return None          # Benham asserts n_seats == 1
            return {'op': 'benham', 'profile': prof}
        if f == 'tideman_alternative':
            if case['n'] == 1 and 'one_seat' in case.get('_tags', ()):
                return {'op': 'tideman', 'profile': prof}                 # the one-seat evaluator `tideman`
            return {'op': 'tideman', 'profile': prof, 'n': case['n']}      # `tidemanN`: one tier per seat
        if f in SCORE_CFG:
            votes = enc_score(prof)
            if votes is None:
                return None
            op, cfg = SCORE_CFG[f]
            return dict(cfg, op=op, votes=votes, n=case['n'], min_count=0, truncation='0', bottom='0')
        if f in ('approval_pav', 'approval_spav'):
            return {'op': f[len('approval_'):], 'votes': prof, 'n': case['n']}
        if f.startswith('lr_') or f.startswith('qd_'):
            return {'op': f[:2], 'quota': f[3:], 'accept_equal': True, 'on_overaward': 'error', 'n': case['n'], 'votes': prof,
                    'prev': [], 'max': []}
        return None
    if case['op'] == 'pair_tie':
        return {'op': 'c11_pairwise', 'name': case['name'], 'votes': pair_tie_dict(case, case['w']), 'n': case['n']}
    if case['op'] == 'coef_tie':
        c, a, b = _coef_tie(case)
        return {'op': 'ha', 'divisor': 'd_hondt', 'first_coef': num_str(c), 'votes': [[0, str(a)], [1, str(b)]], 'n': 2,
                'prev': [], 'max': []}
    if case['op'] == 'near_tie':
        v = Fraction(case['v'])
        items = [[0, num_str(v + 1)], [1, num_str(v)]]
        return {'op': 'get_n_best', 'n': 1, 'votes': items if case['first'] else items[::-1]}
    if case['op'] == 'equal_quotients':
        votes, n = _equal_quotients(case)
        return {'op': 'ha', 'divisor': case['divisor'], 'first_coef': None, 'votes': [[i, num_str(v)] for i, v in votes], 'n': n, 'prev': [], 'max': []}
    if case['op'] == 'equal_rational':
        x, d = int(case['x']), case['d']
        return {'op': 'get_n_best', 'n': 1, 'votes': [[0, num_str(Fraction(2 * x, 2 * d))], [1, num_str(Fraction(x, d))]]}
    return None


def compare(case, iobs, mobs):
    got = iobs['scaled'] if case['op'] in ('scale', 'scale_qd', 'scale_ha') else iobs['base'] if case['op'] == 'pair_tie' else iobs
    if case['op'] == 'scale' and case['family'] in ('bucklin', 'oklahoma', 'bucklin_whole', 'oklahoma_whole', 'baldwin') and \
            any(isinstance(it, list) for b, _ in case['prof'] for it in b):
        # shared ranks: the model iterates them in protocol order, Python in frozenset order - the order among equally placed
        # individually elected winners follows it (C10's subject): compare the elected set and the tie places
        def unordered(o):
            if isinstance(o, dict):
                return o
            o = canon(o)
            return [sorted(x for x in o if not isinstance(x, dict)), [x for x in o if isinstance(x, dict)]]
        a, b = unordered(got), unordered(mobs)
        return None if a == b else f'impl={json.dumps(a)} model={json.dumps(b)} (order-insensitive: shared ranks)'
    if case['op'] == 'scale' and case['family'].startswith('pure_proportionality'):
        # exact shares: the code reports ints where the share is integral, Fractions otherwise - compare the numbers
        if isinstance(got, dict) or isinstance(mobs, dict):
            return None if got == mobs else f'impl={json.dumps(got)} model={json.dumps(mobs)}'
        a = sorted([c, str(Fraction(v))] for c, v in got)
        b = sorted([c, str(Fraction(v))] for c, v in mobs)
        return None if a == b else f'impl={json.dumps(a)} model={json.dumps(b)}'
    if isinstance(mobs, dict) and 'res' in mobs and 'grp' in mobs:      # second-order Copeland: the C05 canonicalisation
        from props import C05
        return C05.compare({'op': 'eval', 'name': 'copeland_2o'}, got, mobs)
    if case['op'] == 'scale' and case['family'] in ('approval_pav', 'score_mean', 'score_sum0', 'score_median', 'star'):
        from props import C12          # the C12 canonicalisation (order among equal sort keys)
        return C12._cmp_keyed(got, mobs)
    if case['op'] == 'scale' and case['family'] in ('majority_judgment_plus', 'majority_judgment'):
        from props import C12          # the evaluator documents that it does not order the elected candidates
        return C12.compare({'op': 'mj'}, got, mobs)
    if isinstance(mobs, dict) and 'sel' in mobs and 'keys' in mobs:
        if isinstance(got, dict):
            return f'impl={json.dumps(got)} model={json.dumps(mobs["sel"])}'
        kv = {c: Fraction(v) for c, v in mobs['keys']}
        a, b = canon_runs(got, kv), canon_runs(mobs['sel'], kv)
        if a != b:
            return f'impl={json.dumps(a)} model={json.dumps(b)} (runs of equal value sorted)'
        return None
    if case['op'] in ('scale_qd', 'scale_ha', 'equal_quotients') or (case['op'] == 'scale' and case['family'].startswith(DIST_FAMILIES)):
        a, b = canon(got), canon_dist(mobs)
    else:
        a, b = canon(got), canon(mobs)
    if a != b:
        return f'impl={json.dumps(a)} model={json.dumps(b)}'
    return None


_gen = generate


def generate(rng, tier):    # noqa
    import itertools
    for c in itertools.chain(_gen(rng, tier), gen_pair_tie(rng, tier)):
        if model_line(c) is not None and c['op'] == 'scale':
            c['_tags'].append('modelled')
            c['_tags'].append('m:' + c['family'])
        yield c


def describe(case):
    if case['op'] == 'scale':
        return f"{case['family']}: evaluate(profile, {case['n']}) vs evaluate(profile x {case['k']}, {case['n']}); profile={case['prof']}"
    if case['op'] == 'scale_ha':
        return (f"HighestAverages({case['divisor']!r}, first_coef={case['first_coef']}).evaluate(profile, {case['n']}, prev_gains="
                f"{dict(map(tuple, case['prev']))}, max_seats={dict(map(tuple, case['max']))}) vs the same on profile x {case['k']}; "
                f"profile={case['prof']}")
    if case['op'] == 'scale_qd':
        cls = 'LargestRemainder' if case['kind'] == 'lr' else 'QuotaDistributor'
        return (f"{cls}({case['quota']!r}, accept_equal={case['accept_equal']}, on_overaward={case['on_overaward']!r}).evaluate(profile, "
                f"{case['n']}, prev_gains={dict(map(tuple, case['prev']))}, max_seats={dict(map(tuple, case['max']))}) vs the same on profile x "
                f"{case['k']}; profile={case['prof']}")
    if case['op'] == 'pair_tie':
        ev = {'winner': 'CondorcetWinner()', 'smith': 'SmithSet()', 'schwartz': 'SchwartzSet()'}.get(case['name'], f"EVALUATORS[{case['name']!r}]")
        d = {(NAMES.n(a), NAMES.n(b)): ('W' if v is None else v) for a, b, v in case['votes']}
        return (f"votelib.evaluate.condorcet.{ev}.evaluate(d" + ('' if case['name'] in CONDORCET_SETS.values() else f", {case['n']}") +
                f") with d = {d}: W = {case['w']} vs W in {case['alts']} ('del' = the W entries left out)")
    return json.dumps(strip_case(case))


def shrink_candidates(case):
    if case['op'] in ('scale_qd', 'scale_ha'):
        for key in ('max', 'prev'):
            for i in range(len(case[key])):
                c = dict(case)
                c[key] = case[key][:i] + case[key][i+1:]
                yield c
        return
    if case['op'] == 'pair_tie':
        cs = sorted({c for a, b, _ in case['votes'] for c in (a, b)})
        if len(cs) > 2:
            for x in cs:
                c = dict(case)
                c['votes'] = [e for e in case['votes'] if x not in e[:2]]
                c['n'] = min(case['n'], len(cs) - 1)
                if any(e[2] is None for e in c['votes']):
                    yield c
        for i in range(len(case['alts'])):
            if len(case['alts']) > 1:
                c = dict(case)
                c['alts'] = case['alts'][:i] + case['alts'][i+1:]
                yield c
        if case['n'] > 1:
            c = dict(case)
            c['n'] = case['n'] - 1
            yield c
        for big, small in (('w', '7'), ('w', '5')):
            if Fraction(case['w']) > 7:
                c = dict(case)
                c['w'] = small
                yield c
        return
    if case['op'] != 'scale':
        return
    p = case['prof']
    for i in range(len(p)):
        if len(p) > 1:
            c = dict(case)
            c['prof'] = p[:i] + p[i+1:]
            yield c
    if case['n'] > 1:
        c = dict(case)
        c['n'] = case['n'] - 1
        yield c


TECHNIQUE = ('Lean 4 proofs of scale invariance by simulation (state2 = k * state1 preserved by every step of every loop) for every positive '
             'rational factor (natural factor for the score family), resting on the order-only dependence of get_n_best and on linearity of '
             'the converters; the Lean model of every proved family evaluates the scaled profile and is compared with the implementation; '
             'implementation oracle over all families and multipliers up to 3*10^30')
LEVEL_TEXT = ('Scale invariance is a Lean theorem, for ALL inputs of the model and all positive rational factors, for: plurality/get_n_best, the '
              'quota selector, all divisor methods, RelativeThreshold, QuotaDistributor and LargestRemainder with the homogeneous quotas (every '
              'over-award policy, any previous gains and caps), the converters (linear maps) and hence positional rules and (satisfaction) '
              'approval voting, every entry of condorcet.EVALUATORS on arbitrary pairwise dictionaries and composed with RankedToCondorcetVotes, '
              'Condorcet winner / Smith / Schwartz sets, Benham, Tideman alternative (any number of seats), PAV (from any state of its coefficient cache), '
              'SPAV, PreferenceAddition with any coefficient function and any number of seats (Bucklin, Oklahoma), Baldwin, STV with Gregory transfers and a homogeneous quota (selector and distributor; stvSelector_scale covers Hare with accept_quota_equal True or False - stv_gregory_hare, stv_gregory_hare_strict - and Imperiali - stv_gregory_imperiali); for positive natural '
              'factors: ScoreVoting sum/mean/lower median, MajorityJudgment with the plus tie-break, STAR. Near-tie separation and equal-rational '
              'ties are theorems over all rationals. PureProportionality for every seat number, floors and caps. Nothing scale-free is left to the oracle alone; '
              'MajorityJudgment with the default tie-break is scale DEPENDENT (open finding). Returned numeric types are monitored (no float).')
LEVEL_NOTE = ('Trusted: Lean kernel + standard axioms; the models of C01/C02/C03/C05/C06/C08(sequential)/C09/C12/C13/C16/C17 tied to the code by correspondence '
              '(re-run here on the scaled profiles); CPython int/Fraction exactness. Partial: the families listed as unproved are decided by the '
              'oracle only; numeric types are a runtime fact; the score-family theorems carry the hypothesis ScaleFreeCfg.')
