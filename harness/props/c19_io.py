"""C19 helper: BLT / STV ballot files — documents, tokeniser (lexing is done with Python's own predicates and
never modelled), an independent reference reader of BLT text, text mutations.

A document (`doc`) is JSON:  {"seats": n, "cands": [[name, withdrawn, kind], ...], "ballots": [[[i, ...], weight], ...],
"title": str | None}  with kind 'str' | 'person', 0-based candidate positions, weight {"k":"int"|"dec"|"frac","v":"..."}
(for 'dec' the literal text of the Decimal).
"""
import re
import json
from fractions import Fraction
from decimal import Decimal, InvalidOperation


# ------------------------------------------------------------------------------------------------ documents
def weight_py(w):
    if w['k'] == 'int':
        return int(w['v'])
    if w['k'] == 'dec':
        return Decimal(w['v'])
    return Fraction(w['v'])


def weight_model(w):
    """the model's `Weight`"""
    x = weight_py(w)
    f = Fraction(x)
    fs = str(f.numerator) if f.denominator == 1 else f'{f.numerator}/{f.denominator}'
    if w['k'] == 'int':
        return {'k': 'int', 'v': str(x)}
    if w['k'] == 'dec':
        return {'k': 'dec', 'v': fs, 'digits': str(x).isdigit()}
    return {'k': 'frac', 'v': fs}


def fstr(x):
    f = Fraction(x)
    return str(f.numerator) if f.denominator == 1 else f'{f.numerator}/{f.denominator}'


def build_doc(doc):
    """-> votes dict, n_seats, candidates list, title   (real votelib objects)"""
    from votelib.candidate import Person, PoliticalParty
    cands = []
    party = None
    for i, (name, wd, kind) in enumerate(doc['cands']):
        if kind == 'str':
            cands.append(name)
        elif kind == 'int':                 # a bare int as candidate (0 included); its name in a file is str(int)
            cands.append(int(name))
        elif kind == 'person_full':         # a Person with number, party membership and candidacy
            party = party or PoliticalParty('The Party', number=3)
            cands.append(Person(name, number=40 - i, membership=party, candidacy_for=party,
                                properties={'district': 'N'}, withdrawn=bool(wd)))
        else:
            cands.append(Person(name, withdrawn=bool(wd)))
    votes = {}
    for idx, w in doc['ballots']:
        votes[tuple(cands[i] for i in idx)] = weight_py(w)
    return votes, doc['seats'], cands, doc.get('title')


def doc_of_loaded(votes, n_seats, cands, title):
    """what a loader returned -> canonical JSON (candidates by position in the returned list)"""
    pos = {id(c): i for i, c in enumerate(cands)}
    out_b = []
    for ballot, w in votes.items():
        out_b.append([[pos.get(id(c), -1) for c in ballot], fstr(w)])     # -1: a ballot names somebody who is not in the list
    return {'seats': n_seats,
            'cands': [[c.name, bool(c.withdrawn)] for c in cands],
            'ballots': out_b,
            'title': title}


def expected_doc(doc):
    """the document a faithful reload must give (field by field)"""
    return {'seats': doc['seats'],
            'cands': [[n, bool(w)] for n, w, _ in doc['cands']],
            'ballots': [[list(idx), fstr(weight_py(w))] for idx, w in doc['ballots']],
            'title': doc.get('title')}


def same_ballots(a, b):
    da = {tuple(i): w for i, w in a}
    db = {tuple(i): w for i, w in b}
    return da == db and len(da) == len(a) and len(db) == len(b)


def diff_docs(exp, got, clauses):
    out = []
    if got['seats'] != exp['seats']:
        out.append((clauses + 'seats_differ', f"{exp['seats']} -> {got['seats']}"))
    if [c[0] for c in got['cands']] != [c[0] for c in exp['cands']]:
        out.append((clauses + 'names_differ', f"{[c[0] for c in exp['cands']]} -> {[c[0] for c in got['cands']]}"))
    elif [c[1] for c in got['cands']] != [c[1] for c in exp['cands']]:
        out.append((clauses + 'withdrawn_differ', f"{[c[1] for c in exp['cands']]} -> {[c[1] for c in got['cands']]}"))
    if not same_ballots(exp['ballots'], got['ballots']):
        out.append((clauses + 'ballots_differ', f"{exp['ballots']} -> {got['ballots']}"))
    if got['title'] != exp['title']:
        out.append((clauses + 'title_differ', f"{exp['title']!r} -> {got['title']!r}"))
    return out


# ------------------------------------------------------------------------------------------------ BLT lexing
def blt_clean(line):
    s = line.strip()
    start = s.rfind('"') if '"' in s else 0
    h = s[start:].find('#')
    return s if h == -1 else s[:start + h].rstrip()


def blt_tok(item):
    if item.isdigit():
        try:
            return {'n': str(int(item))}
        except ValueError:
            return 'udigit'
    if '/' in item:
        try:
            return {'d': fstr(Fraction(item))}
        except (ValueError, ZeroDivisionError):
            return 'bad'
    try:
        d = Decimal(item)
    except InvalidOperation:
        return 'bad'
    if d.is_infinite():
        return None                   # outside the token model
    if d.is_snan():
        return 'bad'                  # comparing a signalling NaN raises InvalidOperation (an ArithmeticError)
    if d.is_nan():
        return 'nan'
    return {'d': fstr(d)}


def blt_tokenise(text):
    """text -> token lines of the model (None if some item is outside the token model)"""
    out = []
    for line in text.split('\n'):
        c = blt_clean(line)
        if not c:
            out.append(None)
        elif c.startswith('"') and c.endswith('"'):
            out.append({'q': c[1:-1]})
        else:
            toks = [blt_tok(x) for x in c.split()]
            if any(t is None for t in toks):
                return None
            out.append(toks)
    return out


# ------------------------------------------------------------------------------------------------ BLT reference reader
class Invalid(Exception):
    pass


class Unspecified(Exception):
    pass


def ref_blt(text, oneplus=False):
    """An independent reading of the BLT format (Hill/Wichmann/Woodall + the conventions votelib documents: '#'
    comments, blank lines ignored before the strings, withdrawn lines before the ballots, decimal weights, optional
    title).  Returns the canonical doc, raises Invalid where the text is not a BLT file, Unspecified where the format
    leaves the reading open (those inputs only need to avoid foreign exceptions)."""
    lines = [blt_clean(l) for l in text.split('\n')]
    pos = 0

    def numbers(s, first_decimal):
        out = []
        for i, it in enumerate(s.split()):
            if re.fullmatch(r'[0-9]+', it):
                out.append(int(it))
            elif i == 0 and first_decimal and re.fullmatch(r'[+-]?([0-9]+\.?[0-9]*|\.[0-9]+)([eE][+-]?[0-9]+)?', it):
                out.append(Decimal(it))
            elif i == 0 and first_decimal and _decimal_ok(it) and Decimal(it).is_nan():
                raise Invalid('NaN weight')
            elif (it.isdigit() and _int_ok(it)) or (i == 0 and first_decimal and (_decimal_ok(it) or _fraction_ok(it))):
                raise Unspecified('exotic spelling of a number')
            elif i == 0 and first_decimal and re.fullmatch(r'[0-9]+/[1-9][0-9]*', it):
                out.append(Fraction(it))      # the spelling the writer gives a Fraction weight
            else:
                raise Invalid(f'not a number: {it!r}')
        return out
    if not lines or not lines[0]:
        raise Invalid('no header')
    if lines[0].startswith('"'):
        raise Invalid('header is a string')
    hdr = numbers(lines[0], False)
    if len(hdr) != 2:
        raise Invalid('header needs two integers')
    n_cands, n_seats = hdr
    pos = 1
    withdrawn = set()
    ballots = {}
    order = []
    seen_ballot = False
    while True:
        if pos >= len(lines):
            raise Invalid('no end-of-ballots marker')
        s = lines[pos]
        pos += 1
        if not s:
            continue
        if s.startswith('"'):
            raise Invalid('string before end of ballots')
        nums = numbers(s, True)
        if len(nums) == 1 and nums[0] == 0:
            if not isinstance(nums[0], int):
                raise Unspecified('decimal zero as terminator')
            break
        if nums[0] < 0:
            if seen_ballot:
                raise Invalid('withdrawn after ballots')
            if len(nums) > 1 or nums[0] != int(nums[0]) or -int(nums[0]) > n_cands:
                raise Unspecified('odd withdrawn line')
            withdrawn.add(-int(nums[0]))
            continue
        if nums[-1] != 0 or len(nums) < 2:
            raise Invalid('ballot not zero-terminated')
        body = nums[1:-1]
        for i in body:
            if i < 1 or i > n_cands:
                raise Invalid(f'candidate number {i} outside 1..{n_cands}')
        if len(set(body)) != len(body):
            raise Unspecified('candidate repeated on a ballot')
        key = tuple(i - 1 for i in body)
        if key not in ballots:
            ballots[key] = 0
            order.append(key)
        if oneplus and nums[0] < 1:
            raise Invalid('ballot weight below 1 in a file whose weights count whole ballots')
        ballots[key] += Fraction(nums[0])
        seen_ballot = True
    strings = []
    blank = False
    for s in lines[pos:]:
        if not s:
            blank = True
        elif len(s) >= 2 and s.startswith('"') and s.endswith('"'):
            if blank:
                raise Invalid('string after blank line')
            strings.append(s[1:-1])
        elif s == '"':
            raise Unspecified('lone quote')
        else:
            raise Invalid('not a quoted string')
    if len(strings) == 0:
        names, title = None, None
    elif len(strings) == n_cands:
        names, title = strings, None
        if n_cands == 1:
            pass
    elif len(strings) == n_cands + 1:
        names, title = strings[:-1], strings[-1]
    elif len(strings) == 1:
        names, title = None, strings[0]
    else:
        raise Invalid('wrong number of strings')
    if len(strings) == 1 and n_cands == 0:
        names, title = None, strings[0]
    if names is None:
        names = [str(i + 1) for i in range(n_cands)]
    return {'seats': n_seats, 'cands': [[n, (i + 1) in withdrawn] for i, n in enumerate(names)],
            'ballots': [[list(k), fstr(ballots[k])] for k in order], 'title': title}


def _int_ok(it):
    try:
        int(it)
        return True
    except ValueError:
        return False


def _fraction_ok(it):
    try:
        Fraction(it)
        return '/' in it
    except (ValueError, ZeroDivisionError):
        return False


def _decimal_ok(it):
    try:
        Decimal(it)
        return True
    except InvalidOperation:
        return False


# ------------------------------------------------------------------------------------------------ generators
NAMES_PLAIN = ['Ann', 'Bob', 'Cy', 'Dee', 'Eve', 'Flo', 'Gus', 'Hal']
# names that differ only in case or in the white space inside, names that look like file syntax
NAMES_CLASH = ['Ann Lee', 'ann lee', 'ANN LEE', 'Ann  Lee', 'Ann\tLee', 'AnnLee', 'end', 'End', '3X', 'X', '0', '-1', '1 2 0',
               'ballots=blt', 'candidate=x y', 'title', 'Ünal Ö.', 'ünal ö.', 'Ωmega', 'ß', 'ǅ']
# runs of white space inside a name: several spaces, tabs, no-break / em / ideographic spaces, a vertical tab (all of them white space
# to str.split and str.strip) — a reader that splits and re-joins a value collapses them (seeded change C19i)
NAMES_WS = ['Ann   Lee', 'Ann \t Lee', 'Bo\t\tRay', 'Ann\u00a0Lee', 'Ann \u00a0Lee', 'Jo\u00a0 \u00a0Ann  Li', 'A\u2003B C', 'x\u3000y',
            'Cy\x0bVee', 'Dee  D.  Dee']
NAMES_CLASH += NAMES_WS
TITLES_RICH = ['Council 2020', 'T', ' padded ', '', 'Ward\u00a03   East', 'A\t\tB', 'Élection 2024 — Gemeinderat', '選挙', 'seats=3', 'end', '0', '"']
NAMES_RICH = ['J. Smith', "O'Neil, Pat", 'Jean-Luc P.', 'A B', 'A. B.', 'Ab', 'al', 'Émile Ÿ', 'Dr. X (ind.)', 'x=y', 'A;B',
              '漢字 名', 'a "quoted" one', '1', '0', 'John  Doe', 'M.C. Hammer', 'van der Berg', 'Ann', 'Bob B. Bob', 'Q']
# double quotes and hash signs in every order (BLT only: the STV header form cannot carry '#')
NAMES_QUOTE_HASH = ['Ann "#1" Lee', 'Bob "the #2" Ray', '#1 "Al"', 'C# "sharp"', 'No. #5', '"', '#', '"#', '#"', '"#"', '#"#',
                    'x" # y', 'a # b " c # d " e', '""', '##', 'tail"', '"head', 'tail#', ' "#" ']
TITLES_QUOTE_HASH = ['Board "East" seat #3', '#3 "East"', 'with # hash', '"q"', 'a "b" # c "d" # e', '"#', '#"', 'Ward #3']


def ws_features(text):
    """white space inside a text beyond single blanks: runs of two or more, tabs, white space outside ASCII"""
    out = set()
    inner = text.strip()
    if re.search(r'\s\s', inner):
        out.add('inner_ws_run')
    if '\t' in inner:
        out.add('inner_tab')
    if any(c.isspace() and not c.isascii() for c in inner):
        out.add('inner_non_ascii_space')
    return out


def quote_hash_order(text):
    """which of the two orders of a double quote and a hash sign occur in the text"""
    out = set()
    if '"' in text and '#' in text[text.index('"'):]:
        out.add('quote_then_hash')
    if '#' in text and '"' in text[text.index('#'):]:
        out.add('hash_then_quote')
    return out


# 10^9, 2^53 and its neighbours, 10^18, 10^30, 10^400 (never first on a line of a text that gets mutated: see huge_header)
BIG_INTS = [10 ** 9, 2 ** 53 - 1, 2 ** 53, 2 ** 53 + 1, 10 ** 18, 10 ** 30, 10 ** 400]


def weight_features(w):
    """tags for the weight dimensions of the generator checklist"""
    x = weight_py(w)
    out = set()
    if x == 0:
        out.add('weight_zero_' + w['k'])
    if x < 0:
        out.add('weight_negative')
    if Fraction(x).denominator > 10 ** 6:
        out.add('weight_huge_denominator')
    if w['k'] == 'dec' and 'E' in w['v'].upper():
        out.add('weight_decimal_exponent')
    if abs(x) >= 2 ** 53:
        out.add('weight_2_53_and_above')
    if abs(x) >= 10 ** 400:
        out.add('weight_10_400')
    return out


def gen_weight(rng, kinds=('int', 'dec', 'frac'), big=True):
    k = rng.choice(kinds)
    if k == 'int':
        return {'k': 'int', 'v': str(rng.choice([1, 1, 1, 2, 3, 5, 12, 0, 4000] + (BIG_INTS if big else [])))}
    if k == 'dec':
        return {'k': 'dec', 'v': rng.choice(['1.5', '0.25', '2', '3.0', '10.125', '1.50', '7', '0.001', '100', '1000000000000.5',
                                             '0', '0.0', '1', '1.4', '0.1234567', '1E+2', '1E-30', '9007199254740993.5',
                                             '0.333333333333', '0.333333333334'])}
    return {'k': 'frac', 'v': rng.choice(['2', '3', '1', '7', '1/2', '7/3', '22/7', '0', '123456789/1000000007',
                                          '1/1000000000000000000000000000007', '333333333333/1000000000000',
                                          '333333333334/1000000000000'])}


def gen_doc(rng, names=None, max_c=6, person=None, weights=('int', 'dec', 'frac'), title=None, withdrawn=True, big=True):
    n = rng.randint(1, max_c) if rng.random() < 0.95 else 0
    pool = list(names or (NAMES_PLAIN + NAMES_RICH + NAMES_QUOTE_HASH + NAMES_CLASH))
    if person is None:
        person = rng.random() < 0.6
    all_person = person and rng.random() < 0.5
    if not (all_person and rng.random() < 0.4):
        pool = list(dict.fromkeys(pool))          # string candidates must be distinct; Person objects may share a name
    rng.shuffle(pool)
    chosen = pool[:n]
    cands = []
    for nm in chosen:
        kind = ('person_full' if rng.random() < 0.3 else 'person') if person else 'str'
        if person and not all_person and rng.random() < 0.15:
            kind = 'str'
        wd = withdrawn and kind != 'str' and rng.random() < 0.3
        cands.append([nm, wd, kind])
    if not person and names is None and n and rng.random() < 0.1:       # bare ints as candidates, 0 included
        cands = [[str(i), False, 'int'] for i in rng.sample(range(0, 9), n)]
    ballots, seen = [], set()
    for _ in range(rng.randint(0, 6)):
        k = rng.randint(0, n)
        idx = rng.sample(range(n), k)
        if tuple(idx) in seen:
            continue
        seen.add(tuple(idx))
        ballots.append([idx, gen_weight(rng, weights, big)])
    if title is None:
        title = rng.choice([None, None, None] + TITLES_RICH + TITLES_QUOTE_HASH)
    elif title == '-':
        title = None
    return {'seats': rng.randint(0, max(n, 1)), 'cands': cands, 'ballots': ballots, 'title': title}


JUNK = ['abc', '-1', '1.5', '²', 'nan', '1/2', '"', '""', '#', '0', '00', '99', '-0', '+3', '1e3', '१२', 'NaN', '-', '.']


def mutate_text(rng, text):
    """-> (mutated text, mutation kind)"""
    lines = text.split('\n')
    kind = rng.choice(['crlf', 'bom', 'no_final_newline', 'truncate_chars', 'truncate_lines', 'drop_line', 'dup_line', 'swap_lines', 'junk_token', 'junk_token',
                       'insert_token', 'drop_token', 'char_replace', 'unquote', 'extra_string', 'blank_and_comment',
                       'index_out_of_range', 'zero_inside', 'insert_junk_line'])
    r = rng
    if kind == 'crlf':                       # Windows line ends: the same file
        return text.replace('\n', '\r\n'), kind
    if kind == 'bom':                        # a byte order mark read as text: not a number / not a header key
        return '\ufeff' + text, kind
    if kind == 'no_final_newline':
        return text.rstrip('\n'), kind
    if kind == 'truncate_chars':
        return text[:r.randint(0, max(len(text) - 1, 0))], kind
    if kind == 'truncate_lines':
        return '\n'.join(lines[:r.randint(0, max(len(lines) - 1, 0))]), kind
    if kind == 'drop_line' and len(lines) > 1:
        i = r.randrange(len(lines))
        return '\n'.join(lines[:i] + lines[i + 1:]), kind
    if kind == 'dup_line':
        i = r.randrange(len(lines))
        return '\n'.join(lines[:i] + [lines[i]] + lines[i:]), kind
    if kind == 'swap_lines' and len(lines) > 2:
        i, j = r.sample(range(len(lines)), 2)
        lines[i], lines[j] = lines[j], lines[i]
        return '\n'.join(lines), kind
    if kind in ('junk_token', 'insert_token', 'drop_token', 'index_out_of_range', 'zero_inside'):
        cand = [i for i, l in enumerate(lines) if l.strip() and not l.strip().startswith('"')]
        if cand:
            i = r.choice(cand)
            toks = lines[i].split()
            j = r.randrange(len(toks))
            if kind == 'junk_token':
                toks[j] = r.choice(JUNK)
            elif kind == 'insert_token':
                toks.insert(j, r.choice(JUNK))
            elif kind == 'drop_token':
                del toks[j]
            elif kind == 'index_out_of_range':
                toks.insert(min(max(j, 1), len(toks)), str(r.choice([7, 9, 50, 10 ** 4])))
            else:
                toks.insert(min(max(j, 1), max(len(toks) - 1, 1)), '0')
            lines[i] = ' '.join(toks)
            return '\n'.join(lines), kind
    if kind == 'char_replace' and text:
        i = r.randrange(len(text))
        return text[:i] + r.choice('0123456789 -".#x\n=/XÿŸ²') + text[i + 1:], kind
    if kind == 'unquote':
        cand = [i for i, l in enumerate(lines) if l.strip().startswith('"')]
        if cand:
            i = r.choice(cand)
            lines[i] = lines[i].strip().strip('"') if r.random() < 0.5 else lines[i].strip()[:-1]
            return '\n'.join(lines), kind
    if kind == 'extra_string':
        lines.insert(r.randint(0, len(lines)), '"extra"')
        return '\n'.join(lines), kind
    if kind == 'blank_and_comment':
        i = r.randint(0, len(lines))
        lines.insert(i, r.choice(['', '   ', '# a comment', '  # c']))
        if r.random() < 0.5 and lines:
            j = r.randrange(len(lines))
            lines[j] = lines[j] + '  # trailing'
        return '\n'.join(lines), kind
    lines.insert(r.randint(0, len(lines)), r.choice(JUNK + ['1 2 3', 'x y', '"a" b', '-2 3 0']))
    return '\n'.join(lines), 'insert_junk_line'


def huge_header(text, limit=20000):
    """a header announcing more candidates than `limit` makes every reader allocate that many names: not generated"""
    for line in text.split('\n'):
        for it in line.split():
            if it.isdigit():
                try:
                    if len(it) > 6 or int(it) > limit:
                        return True
                except ValueError:
                    pass
    return False


# ------------------------------------------------------------------------------------------------ STV lexing
def stv_initials(name):
    return ''.join(part[0].lower() for part in re.split(r'\W', name) if part)


def stv_sval(value):
    """a header value with the classifications `_create_evaluator` applies to it (lexing is Python's)"""
    digits, intv = None, None
    if value.isdecimal():
        digits = str(int(value))
    try:
        intv = str(int(value))
    except ValueError:
        pass
    return {'text': value, 'digits': digits, 'int': intv}


def stv_carriable(text, allow_empty=True):
    """what a `key=value` header line gives back unchanged: no comment sign, no line break, no edge whitespace"""
    return text == text.strip() and not any(c in text for c in '#\n\r') and bool(text or allow_empty)


def stv_hline(line):
    if '#' in line:
        line = line[:line.find('#')]
    line = line.strip()
    if not line:
        return None
    if '=' not in line:
        return 'invalid'
    key, value = line.split('=', 1)
    if key == 'ballots':
        if value == 'blt':
            return 'ballotsBlt'
        if value.isdecimal():
            return {'ballots': int(value)}
        return 'ballotsBad'
    if key == 'order':
        return {'order': value.split()}
    if key in ('candidate', 'withdrawn'):
        parts = value.split(None, 1)
        if len(parts) == 2:
            return {'cand': [key == 'withdrawn', parts[0], parts[1]]}
        return 'candBad'
    return {'other': [key, stv_sval(value)]}


def stv_vline(line):
    s = line.strip()
    if s == 'end':
        return 'end'
    if not s:
        return None
    items = s.split()
    f = items[0]
    if f.endswith('X'):
        m = f[:-1]
        try:
            if '/' in m:
                first = {'mult': fstr(Fraction(m))}
            elif '.' in m:
                d = Decimal(m)
                if not d.is_finite():
                    return 'UNSUPPORTED'
                first = {'mult': fstr(d)}
            elif m.isdigit():
                first = {'mult': str(int(m))}
            else:
                first = 'multBad'
        except ZeroDivisionError:
            first = 'multBad'
        except ValueError:
            first = 'multBad'
        except InvalidOperation:
            first = 'multBad'
    else:
        first = {'word': f}
    return {'first': first, 'rest': items[1:]}


def stv_tokenise(text):
    """-> (header views up to and including the first ballots= line, ballot views of the rest) or None"""
    lines = text.split('\n')
    hdr, k = [], len(lines)
    for i, l in enumerate(lines):
        h = stv_hline(l)
        if h == 'UNSUPPORTED':
            return None
        hdr.append(h)
        if h in ('ballotsBlt', 'ballotsBad') or (isinstance(h, dict) and 'ballots' in h):
            k = i + 1
            break
        if h in ('invalid', 'candBad'):
            k = i + 1                      # the reader stops here with an exception; the rest is never looked at
            return hdr, []
    votes = [stv_vline(l) for l in lines[k:]]
    if any(v == 'UNSUPPORTED' for v in votes):
        return None
    return hdr, votes


def stv_cls(text):
    """how `_load_ordered_votes` classifies the items of the ballot lines of a text: [item, int(item)] for item.isdecimal(),
    [item, 'dash'] for '-'; everything else is left out (= bad)"""
    out, seen = [], set()
    lines = text.split('\n')
    k = len(lines)
    for i, l in enumerate(lines):
        h = stv_hline(l)
        if h in ('ballotsBlt', 'ballotsBad', 'invalid', 'candBad') or (isinstance(h, dict) and 'ballots' in h):
            k = i + 1
            break
    for l in lines[k:]:
        for it in l.strip().split():
            if it in seen:
                continue
            seen.add(it)
            if it.isdecimal():
                out.append([it, int(it)])
            elif it == '-':
                out.append([it, 'dash'])
    return out


def ordered_text(doc, order, nicks=None, dup_order=False, title=None):
    """an STV file in the ordered ballot format, written by the harness (votelib has no writer for it): candidate lines in document
    order, `order=` with the nicknames in the order `order` (a permutation of the candidate positions; with dup_order the first one
    is repeated at the end, which changes nothing), one column per nickname of the order line holding the rank or '-'.
    Returns (text, expected candidates / ballots)."""
    n = len(doc['cands'])
    nicks = nicks or [f'n{i}' for i in range(n)]
    out = ['method=BC', 'quota=droop']
    if title is not None:
        out.append(f'title={title}')
    for (name, wd, _), nick in zip(doc['cands'], nicks):
        out.append(f"{'withdrawn' if wd else 'candidate'}={nick} {name}")
    onicks = [nicks[i] for i in order] + ([nicks[order[0]]] if dup_order and order else [])
    out.append('order=' + ' '.join(onicks))
    out.append(f"ballots={len(doc['ballots'])}")
    for idx, w in doc['ballots']:
        cols = ['-'] * len(order)
        for rank, c in enumerate(idx):
            cols[order.index(c)] = str(rank + 1)
        x = weight_py(w)
        line = ' '.join(cols)
        if x != 1 or not cols:
            sx = format(x, 'f') if isinstance(x, Decimal) else str(x)
            line = f'{sx}X {line}'.rstrip()
        out.append(line)
    out.append('end')
    exp = {'cands': [[nm, bool(wd)] for nm, wd, _ in doc['cands']],
           'ballots': [[list(idx), fstr(weight_py(w))] for idx, w in doc['ballots']]}
    return '\n'.join(out) + '\n', exp


def stv_blt_rest(text):
    """the rest of an STV text after its first `ballots=` line as the BLT reader sees it (token lines of the BLT model), when that
    line says `ballots=blt`; [] otherwise; None if an item is outside the token model"""
    lines = text.split('\n')
    for i, l in enumerate(lines):
        h = stv_hline(l)
        if h in ('invalid', 'candBad', 'ballotsBad') or (isinstance(h, dict) and 'ballots' in h):
            return []
        if h == 'ballotsBlt':
            return blt_tokenise('\n'.join(lines[i + 1:]))
    return []


def stv_weight_model(w):
    x = weight_py(w)
    s = format(x, 'f') if isinstance(x, Decimal) else str(x)      # the writer spells a Decimal without exponent
    ok = True
    try:
        if '/' in s:
            Fraction(s)
        elif '.' in s:
            Decimal(s)
        elif not s.isdigit():
            ok = False
    except Exception:
        ok = False
    return {'v': fstr(x), 'spellable': ok}


def repeated_decimal_weight(text, fmt):
    """the text lists one ballot more than once and one of those lines has a Decimal weight: the readers then add with Decimal
    arithmetic (rounded to 28 digits, and not defined against a Fraction) — the hazard of the open finding on weight sums"""
    seen = {}
    for line in text.split('\n'):
        if fmt == 'blt':
            items = blt_clean(line).split()
            if len(items) < 2 or items[-1] != '0' or items[0].startswith('-') or items[0].startswith('"'):
                continue
            w, key = items[0], tuple(items[1:-1])
            dec = not w.isdigit() and '/' not in w
        else:
            items = line.strip().split()
            if not items or line.strip() == 'end' or '=' in line:
                continue
            if items[0].endswith('X'):
                w, key = items[0][:-1], tuple(items[1:])
                dec = '.' in w and '/' not in w
            else:
                key, dec = tuple(items), False
        seen.setdefault(key, []).append(dec)
    return any(len(v) > 1 and any(v) for v in seen.values())
