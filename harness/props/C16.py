"""C16 — thresholds, quota selectors and open-list jumps are exact at the boundary.

ops
  abs_threshold / rel_threshold   AbsoluteThreshold / RelativeThreshold.evaluate
  seatless                        a tree of AbsoluteThreshold, RelativeThreshold, AlternativeThresholds,
                                  CoalitionMemberBracketer, PropertyBracketer, PreviousGainThreshold
  quota_selector                  approval.QuotaSelector (served by the C09 handler of the driver)
  openlist                        ThresholdOpenList.evaluate
  tiebreak                        ListOrderTieBreaker around Plurality / QuotaSelector(select)
  break_by_list                   core.Tie.break_by_list
  alt_ranks                       AlternativeThresholds over stub selectors returning fixed lists (the union and its
                                  mean-rank order on arbitrary partial results)
"""
import math
import itertools
from fractions import Fraction
from decimal import Decimal
from common import *   # noqa

ID = 'C16'
NAMESPACE = 'VL.C16'
LEAN_MODULES = ['VotelibProofs.Props.C16']
GEN_MODULES = ['Quota', 'Threshold', 'OpenList']
REQUIRED = ['abs_condition_exact', 'rel_condition_exact', 'abs_threshold_exact', 'abs_threshold_order', 'rel_threshold_exact', 'rel_threshold_exact_pos',
            'share_boundary', 'rel_threshold_zero_total', 'alternative_combine_mem', 'alternative_combine_nodup',
            'alternative_combine_sorted', 'alternative_is_union', 'alternative_error_iff', 'coalition_dispatch',
            'coalition_error_iff', 'property_dispatch',
            'sel_alt_is_union', 'sel_coalition_dispatch',
            'sel_property_dispatch', 'quota_selector_exact', 'quota_selector_overflow_error',
            'quota_selector_overflow_select', 'jump_condition_exact', 'mem_jumpers', 'jump_threshold_spec', 'quota_fraction_scales_quota', 'openlist_no_threshold',
            'openlist_fill', 'openlist_overflow_by_votes', 'openlist_overflow_by_list', 'jumpers_nodup',
            'jumpers_sorted', 'jumpers_sub_keys', 'openlist_length_distinct', 'openlist_length_min', 'openlist_order',
            'openlist_no_pass_over', 'openlist_overflow_votes_best', 'openlist_overflow_list_best', 'openlist_overflow_list_order',
            'break_by_list_only_tied', 'list_tiebreak_only_tied', 'break_by_list_nbest', 'sortByIndex_spec',
            'list_tiebreak_plurality_tie', 'list_tiebreak_no_tie', 'list_tiebreak_plurality_fits',
            'list_tiebreak_quota_tie', 'openlist_error_iff', 'sel_eval_fuel_mono', 'openlist_zero_seats', 'openlist_at_pos']
NAME_MODES = ['str', 'int0', 'empty0', 'person', 'tuple']
REQUIRED_COUNTERS = ['on_threshold_eq', 'on_threshold_noeq', 'decimal_threshold', 'int_threshold', 'fraction_threshold',
                     'alternative', 'bracketer', 'bracketer_property', 'openlist_jump', 'openlist_fill',
                     'openlist_overflow', 'openlist_precedence', 'openlist_no_threshold', 'openlist_tie',
                     'quota_by_name', 'quota_by_callable', 'quota_fraction_one', 'quota_fraction_half',
                     # caller-written quota callables (parameters not named votes / seats), per shape and per class
                     'quota_by_def', 'quota_by_lambda', 'quota_by_posonly', 'quota_by_object', 'quota_by_partial',
                     'quota_user:openlist', 'quota_user:quota_selector', 'quota_user:tiebreak',
                     'take_higher', 'quota_selector', 'rel_boundary_5pct',
                     # generator audit (harness/GENERATOR_CHECKLIST.md)
                     'float_threshold', 'float_dyadic', 'float_nondyadic', 'float_counts', 'float_jump_fraction',
                     'float_quota_fraction', 'bigden_on_threshold', 'decimal7_on_threshold', 'bigden_jump_fraction',
                     'bigden_quota_fraction', 'decimal_quota_fraction', 'quota_fraction_other',
                     'falsy_threshold:i', 'falsy_threshold:F', 'falsy_threshold:D', 'falsy_threshold:f',
                     'falsy_jump_fraction:i', 'falsy_jump_fraction:F', 'falsy_jump_fraction:D',
                     'falsy_quota_fraction:i', 'falsy_quota_fraction:F', 'falsy_quota_fraction:D',
                     'beyond_2_53', 'beyond_1e28', 'huge_on_boundary', 'huge_one_off_boundary', 'decimal_context_inexact',
                     'float_arith_inexact', 'mixed_F_votes_D_param', 'mixed_D_votes_F_param',
                     'names:int0', 'names:empty0', 'names:person',
                     'tie3_draw2', 'two_zero_vote', 'prev_absent', 'list_member_without_votes', 'off_list',
                     'more_seats_than_list', 'called_twice', 'other_config_first', 'after_exception',
                     'property_name_nondefault', 'prop_via_dict', 'prop_via_instance_attribute', 'prop_via_class_attribute',
                     'prop_via_property', 'prop_via_namedtuple', 'prop_of_coalition', 'prop_of_coalition_instance_attribute',
                     'prop_missing', 'prop_shadowed_by_properties_dict',
                     # checklist items 10-12
                     'multi_on_threshold', 'three_on_threshold', 'level4_places3', 'level4_places3:tiebreak',
                     'level4_places3:quota_selector', 'level4_places3:break_by_list', 'threshold_out_of_range',
                     'zero_seats:openlist', 'zero_seats_quota_divides_by_seats', 'zero_seats:tiebreak', 'zero_seats:quota_selector', 'n_equals_list',
                     'alt_default_prev_gains', 'prev_with_empty_votes', 'result_kept_after_next_call',
                     'thr:i:eq', 'thr:i:noeq', 'thr:F:eq', 'thr:F:noeq', 'thr:D:eq', 'thr:D:noeq', 'thr:f:eq', 'thr:f:noeq',
                     'jf:i:eq', 'jf:i:noeq', 'jf:F:eq', 'jf:F:noeq', 'jf:D:eq', 'jf:D:noeq', 'jf:f:eq', 'jf:f:noeq',
                     'sens:accept_equal', 'sens:coalition_evaluators',
                     'sens:property_evaluators', 'sens:property_default', 'sens:property_name', 'sens:partials',
                     'sens:prev_gain_selector', 'sens:qs_quota_function', 'sens:qs_accept_equal',
                     'sens:qs_on_more_over_quota', 'sens:jump_fraction', 'sens:quota_function', 'sens:quota_fraction',
                     'sens:take_higher', 'sens:list_precedence']
NAMES = Names()
QUOTAS = ['hare', 'hare_rounded', 'droop', 'hagenbach_bischoff', 'hagenbach_bischoff_ceil',
          'hagenbach_bischoff_rounded', 'imperiali']
BIG = [(500001, 10 ** 7), (1, 1000003), (333667, 10 ** 6 + 3), (1234567, 10 ** 8), (50000001, 10 ** 9)]   # denominators > 10^6
HUGE_K = [2 ** 53 - 1, 2 ** 53, 2 ** 53 + 1, 10 ** 18, 10 ** 30, 10 ** 30 + 1, 10 ** 60]
FLOATS_DYADIC = [0.25, 0.5, 0.125, 0.375, 0.0625]
FLOATS_NONDYADIC = [0.05, 0.1, 0.3, 0.07]
NICE = [(1, 20), (5, 100), (3, 100), (1, 10), (1, 3), (1, 4), (2, 5), (1, 2), (1, 1000), (7, 100), (1, 8), (1, 5)]


# ------------------------------------------------------------------------------------------------
# numbers

def to_py(s, t):
    """protocol string + type letter ('i', 'F', 'D', 'f' = float) -> Python number of that type (exact)"""
    f = Fraction(s)
    if t == 'f':
        try:
            x = float(f)
        except OverflowError:
            return f
        return x if Fraction(x) == f else f
    if t == 'i' and f.denominator == 1:
        return int(f)
    if t == 'D':
        d = Decimal(f.numerator) / Decimal(f.denominator)
        if Fraction(d) == f:
            return d
    return f


def dec_ok(f):
    d = Decimal(f.numerator) / Decimal(f.denominator)
    return Fraction(d) == f


def tletter(v):
    return 'D' if isinstance(v, Decimal) else 'F' if isinstance(v, Fraction) else 'f' if isinstance(v, float) else 'i'


def float_ok(f):
    """the rational f is exactly a double"""
    try:
        return Fraction(float(f)) == f
    except OverflowError:
        return False


def enc_num(v):
    return num_str(Fraction(v)) if isinstance(v, float) else num_str(v)


def enc_votes(pairs):
    """[(id, number)] -> protocol votes, types"""
    return [[i, enc_num(v)] for i, v in pairs], [tletter(v) for _, v in pairs]


def py_votes(votes, types, obj):
    return {obj(i): to_py(s, t) for (i, s), t in zip(votes, types or ['F'] * len(votes))}


def fvotes(votes):
    """protocol votes -> insertion-ordered dict id -> Fraction"""
    return {i: Fraction(s) for i, s in votes}


def split_total(rng, total, k):
    """k non-negative integers summing to total"""
    if k == 0:
        return []
    cuts = sorted(rng.randint(0, total) for _ in range(k - 1))
    return [b - a for a, b in zip([0] + cuts, cuts + [total])]


# ------------------------------------------------------------------------------------------------
# the property stated in Python (independent of the Lean model)

def passes(v, t, eq):
    return v > t or (eq and v == t)


def order_desc(votes):
    """util.sorted_votes order: non-increasing, equal values in insertion order"""
    return sorted(votes, key=lambda c: -votes[c])


def q_round_half_up(x):
    fl = math.floor(x)
    return fl + 1 if x - fl >= Fraction(1, 2) else fl


TEXTBOOK_QUOTA = {
    'hare': lambda v, s: Fraction(v) / s,
    'hare_rounded': lambda v, s: Fraction(q_round_half_up(Fraction(v) / s)),
    'droop': lambda v, s: Fraction(math.floor(Fraction(v) / (s + 1)) + 1),
    'hagenbach_bischoff': lambda v, s: Fraction(v) / (s + 1),
    'hagenbach_bischoff_ceil': lambda v, s: Fraction(math.ceil(Fraction(v) / (s + 1))),
    'hagenbach_bischoff_rounded': lambda v, s: Fraction(q_round_half_up(Fraction(v) / (s + 1))),
    'imperiali': lambda v, s: Fraction(v) / (s + 2),
}


def quota_value(qname, total, n):
    if qname.startswith('const:'):
        return Fraction(qname[6:])
    return TEXTBOOK_QUOTA[qname](total, n)


class SpecErr(Exception):
    pass


def sel_accepts_prev(sel):
    return sel['k'] in ('alt', 'prev')


def spec_eval(sel, votes, prev, members, props):
    """(ordered list, ambiguous) of the selector tree on votes (dict id->Fraction); prev None = not passed.
    `ambiguous` = the order may depend on set iteration order (equal mean ranks of an alternative)."""
    k = sel['k']
    if k in ('abs', 'rel', 'coalition', 'property') and prev is not None:
        raise SpecErr('TypeError')
    if k == 'abs':
        t = Fraction(sel['t'])
        return [c for c in order_desc(votes) if passes(votes[c], t, sel['eq'])], False
    if k == 'rel':
        if not votes:
            return [], False
        total = sum(votes.values())
        if total == 0:
            raise SpecErr('ZeroDivisionError')
        t = Fraction(sel['t'])
        return [c for c in order_desc(votes) if passes(votes[c] / total, t, sel['eq'])], False
    if k == 'coalition':
        order = order_desc(votes)
        evs = {kk: s for kk, s in sel['evs']}
        passed = {}
        for var in sorted({members.get(c, 1) for c in order}):
            passed[var] = set(spec_eval(evs.get(var, sel['default']), votes, None, members, props)[0])
        return [c for c in order if c in passed[members.get(c, 1)]], False
    if k == 'property':
        evs = {kk: s for kk, s in sel['evs']}
        cache = {}
        out = []
        for c in order_desc(votes):
            var = props.get(c)
            if var not in cache:
                ev = evs.get(var, sel['default']) if var is not None else sel['default']
                cache[var] = set(votes) if ev is None else set(spec_eval(ev, votes, None, members, props)[0])
            if c in cache[var]:
                out.append(c)
        return out, False
    if k == 'alt':
        pg = prev if prev is not None else {}
        results, amb = [], False
        for p in sel['parts']:
            r, a = spec_eval(p, votes, pg if sel_accepts_prev(p) else None, members, props)
            results.append(r)
            amb = amb or a
        union = []
        for r in results:
            for c in r:
                if c not in union:
                    union.append(c)
        mr = {c: Fraction(sum(r.index(c) if c in r else len(r) for r in results), len(results)) for c in union}
        union.sort(key=lambda c: mr[c])
        if len(set(mr.values())) < len(mr):
            amb = True
        return union, amb
    if k == 'prev':
        if prev is None:
            raise SpecErr('TypeError')
        return spec_eval(sel['inner'], prev, None, members, props)
    raise ValueError(k)


def alt_mean_ranks(sel, votes, prev, members, props):
    """mean ranks at an `alt` root when the partial results are unambiguous, else None"""
    pg = prev if prev is not None else {}
    results = []
    for p in sel['parts']:
        r, a = spec_eval(p, votes, pg if sel_accepts_prev(p) else None, members, props)
        if a:
            return None
        results.append(r)
    return lambda c: Fraction(sum(r.index(c) if c in r else len(r) for r in results), len(results))


def sel_kinds(sel, acc=None):
    acc = acc if acc is not None else set()
    if sel is None:
        return acc
    acc.add(sel['k'])
    if sel['k'] == 'alt':
        for p in sel['parts']:
            sel_kinds(p, acc)
    elif sel['k'] in ('coalition', 'property'):
        for _, s in sel['evs']:
            sel_kinds(s, acc)
        sel_kinds(sel['default'], acc)
    elif sel['k'] == 'prev':
        sel_kinds(sel['inner'], acc)
    return acc


def sel_leaves(sel, acc=None):
    acc = acc if acc is not None else []
    if sel is None:
        return acc
    if sel['k'] in ('abs', 'rel'):
        acc.append(sel)
    elif sel['k'] == 'alt':
        for p in sel['parts']:
            sel_leaves(p, acc)
    elif sel['k'] in ('coalition', 'property'):
        for _, s in sel['evs']:
            sel_leaves(s, acc)
        sel_leaves(sel['default'], acc)
    elif sel['k'] == 'prev':
        sel_leaves(sel['inner'], acc)
    return acc


def open_threshold(case, total):
    """the jump threshold of a ThresholdOpenList case (None = no threshold configured)"""
    ths = []
    if case.get('jump_fraction') is not None:
        ths.append(total * Fraction(case['jump_fraction']))
    if case.get('quota') is not None:
        ths.append(quota_value(case['quota'], total, case['n']) * Fraction(case['quota_fraction']))
    if not ths:
        return None
    return max(ths) if case['take_higher'] else min(ths)


INT_QUOTAS = ('droop', 'hare_rounded', 'hagenbach_bischoff_ceil', 'hagenbach_bischoff_rounded')


_EXACT_CACHE = {}


def py_arith_exact(case):
    return arith_class(case) is None


def arith_class(case):
    """None, or why arithmetic in the parameters' own types would be inexact: 'sum' (Decimal vote total), 'decimal'
    (28-digit context), 'float' (53 bits).  Since c90882d the implementation converts to exact rationals first, so only
    'sum' still matters for it; the other two name the input class of the repaired defect (tags, counters)."""
    if case.get('op') != 'openlist':
        return None
    key = json.dumps([case.get(k) for k in ('votes', '_types', 'jump_fraction', '_jftype', 'quota', 'quota_fraction',
                                            '_qftype', 'n')])
    r = _EXACT_CACHE.get(key)
    if r is None:
        if len(_EXACT_CACHE) > 200000:
            _EXACT_CACHE.clear()
        r = _EXACT_CACHE[key] = _py_arith_exact(case)
    return r


def _py_arith_exact(case):
    if case.get('op') != 'openlist':
        return None
    try:
        types = case.get('_types') or ['F'] * len(case['votes'])
        vals = [to_py(s, t) for (_, s), t in zip(case['votes'], types)]
        tot = sum(vals)
        ex_tot = sum((Fraction(s) for _, s in case['votes']), Fraction(0))
        if Fraction(tot) != ex_tot:
            return 'sum'
        if case.get('jump_fraction') is not None:
            jfp = to_py(case['jump_fraction'], case.get('_jftype', 'F'))
            if isinstance(jfp, (Decimal, float)) or isinstance(tot, (Decimal, float)):
                tp = int(tot) if isinstance(tot, Fraction) and tot.denominator == 1 else tot
                if Fraction(tp * jfp) != ex_tot * Fraction(case['jump_fraction']):
                    return 'float' if isinstance(jfp, float) else 'decimal'
        if case.get('quota') is not None:
            qfp = to_py(case['quota_fraction'], case.get('_qftype', 'F'))
            if isinstance(qfp, (Decimal, float)):
                qv = quota_value(case['quota'], ex_tot, case['n'])
                qpy = int(qv) if qv.denominator == 1 else qv
                if Fraction(qpy * qfp) != qv * Fraction(case['quota_fraction']):
                    return 'float' if isinstance(qfp, float) else 'decimal'
    except (TypeError, OverflowError, ValueError, ArithmeticError):
        return None
    return None


def spec_nbest(votes, n):
    order = order_desc(votes)
    if len(order) <= n:
        return order
    tau = sorted(votes.values(), reverse=True)[n - 1]
    above = [c for c in order if votes[c] > tau]
    level = [c for c in order if votes[c] == tau]
    if len(above) + len(level) <= n:
        return above + level
    return above + [{'tie': sorted(level)}] * (n - len(above))


def spec_openlist(case):
    """what the property (with the documented overflow rules) determines for an open-list case — used for tags"""
    votes = fvotes(case['votes'])
    n, clist = case['n'], case['list']
    thr = open_threshold(case, sum(votes.values()))
    if thr is None:
        return clist[:n]
    J = [c for c in order_desc(votes) if passes(votes[c], thr, case['accept_equal'])]
    if len(J) > n:
        if case['list_precedence']:
            if any(c not in clist for c in J):
                return {'err': 'ValueError'}
            top = sorted(J, key=clist.index)[:n]
            return sorted(top, key=lambda c: -votes[c])
        return J[:n]
    el = list(J)
    for c in clist:
        if len(el) == n:
            break
        if c not in el:
            el.append(c)
    return el


def spec_quota_selector(case):
    votes = fvotes(case['votes'])
    n = case['n']
    q = quota_value(case['quota'], sum(votes.values()), n)
    over = {c: v for c, v in votes.items() if passes(v, q, case['accept_equal'])}
    if len(over) > n and case['on_more'] == 'error':
        return {'err': 'VotingSystemError'}
    return spec_nbest(over, n)


def decoy_prop(p):
    """value stored under the property name the bracketer does NOT read"""
    return 0 if p is None else (p + 1) % 4


# ------------------------------------------------------------------------------------------------
# oracle

def _dups(lst):
    return len(set(map(str, lst))) != len(lst)


def oracle_threshold(votes, t, eq, share, obs):
    """clauses for a plain threshold; share(c) is the quantity compared with t"""
    out = []
    if isinstance(obs, dict):
        return [('unexpected_error', obs.get('err'))]
    if any(isinstance(x, dict) for x in obs):
        return [('unexpected_tie', f'a tie object in {obs} although everybody over the threshold fits')]
    got = set(obs)
    for c in votes:
        s = share(c)
        if s > t and c not in got:
            out.append(('above_missing', f'candidate {c} with {s} > {t} not passed'))
        if s < t and c in got:
            out.append(('below_passed', f'candidate {c} with {s} < {t} passed'))
        if s == t and eq and c not in got:
            out.append(('on_threshold_excluded', f'candidate {c} exactly on {t} excluded although equality is accepted'))
        if s == t and not eq and c in got:
            out.append(('on_threshold_passed', f'candidate {c} exactly on {t} passed although equality is not accepted'))
    if not got <= set(votes):
        out.append(('foreign', 'somebody outside the votes was passed'))
    if _dups(obs):
        out.append(('duplicate', 'candidate listed twice'))
    if not out and obs != [c for c in order_desc(votes) if c in got]:
        out.append(('order', 'not in sorted_votes order'))
    return out


def oracle_openlist(case, obs):
    votes = fvotes(case['votes'])
    n, clist = case['n'], case['list']
    if n == 0:
        # outside the property's quantifier (1 <= n_seats); where the evaluator answers it must seat nobody
        if isinstance(obs, dict):
            return []
        return [] if obs == [] else [('zero_seats', f'{obs} seated for no seats')]
    total = sum(votes.values())
    thr = open_threshold(case, total)
    eq = case['accept_equal']
    if thr is None:
        if obs != clist[:n]:
            return [('no_threshold_list_order', f'expected the first {n} of the list, got {obs}')]
        return []
    J = [c for c in order_desc(votes) if passes(votes[c], thr, eq)]
    if len(J) > n and case['list_precedence'] and any(c not in clist for c in J):
        return [] if obs == {'err': 'ValueError'} else [('off_list_jumper', f'expected ValueError, got {obs}')]
    if isinstance(obs, dict):
        return [('unexpected_error', obs.get('err'))]
    out = []
    Jset = set(J)
    if _dups(obs):
        out.append(('duplicate', 'somebody seated twice'))
    wf = len(set(clist)) == len(clist) and set(votes) <= set(clist)
    if wf and n <= len(clist):
        if len(obs) != n:
            out.append(('length', f'{len(obs)} seated for {n} seats'))
        if not set(obs) <= set(clist):
            out.append(('foreign', 'somebody outside the list was seated'))
    # jumpers first, by votes
    isj = [c in Jset for c in obs]
    if any((not a) and b for a, b in zip(isj, isj[1:])):
        out.append(('jumpers_first', 'a candidate over the threshold is seated after one who is not'))
    js = [c for c in obs if c in Jset]
    if any(votes[a] < votes[b] for a, b in zip(js, js[1:])):
        out.append(('jumpers_by_votes', 'jumping candidates are not ordered by votes'))
    rest = [c for c in obs if c not in Jset]
    if any(c not in clist for c in rest):
        out.append(('foreign', 'a candidate below the threshold and outside the list was seated'))
    else:
        idx = [clist.index(c) for c in rest]
        if any(a >= b for a, b in zip(idx, idx[1:])):
            out.append(('rest_list_order', 'the remaining seats are not in list order'))
        # nobody is passed over by a lower-listed colleague who did not reach the threshold
        for c in rest:
            for d in clist[:clist.index(c)]:
                if d not in obs:
                    out.append(('passed_over', f'{d} is listed above {c}, who did not reach the threshold, but only {c} is seated'))
    if rest and not Jset <= set(obs):
        out.append(('jumper_left_out', 'a candidate over the threshold is not seated while one below it is'))
    if len(J) <= n and not Jset <= set(obs):
        out.append(('jumper_left_out', 'the jumpers fit but are not all seated'))
    if len(J) > n:
        if rest or len(obs) != n:
            out.append(('overflow_shape', f'{len(J)} jumpers for {n} seats: exactly {n} of them must be seated'))
        left = [c for c in J if c not in obs]
        if case['list_precedence']:
            if js and left and max(clist.index(c) for c in js) > min(clist.index(c) for c in left):
                out.append(('precedence', 'a jumper lower on the list was preferred to one higher on it'))
            if any(votes[a] == votes[b] and clist.index(a) > clist.index(b) for a, b in zip(js, js[1:])):
                out.append(('jumpers_by_votes', 'jumpers with equal votes are not in list order'))
        else:
            if js and left and min(votes[c] for c in js) < max(votes[c] for c in left):
                out.append(('overflow_votes', 'a jumper with fewer votes was preferred to one with more'))
    return out


def expected_tiebreak(votes, n, clist):
    """plurality with list tie-break, or None when a tied candidate is not on the list"""
    order = order_desc(votes)
    if n == 0:
        return []
    if len(order) <= n:
        return order
    tau = sorted(votes.values(), reverse=True)[n - 1]
    above = [c for c in order if votes[c] > tau]
    level = [c for c in order if votes[c] == tau]
    if len(above) + len(level) <= n:
        return above + level
    if any(c not in clist for c in level):
        return None
    return above + sorted(level, key=clist.index)[:n - len(above)]


def oracle(case, obs):
    try:
        return _oracle(case, obs)
    except (TypeError, KeyError, ValueError, IndexError, AttributeError) as e:
        # the observable does not have the shape of a selection result at all
        return [('malformed_output', f'{type(e).__name__}: {e}; observed {obs!r}')]


def _oracle(case, obs):
    op = case['op']
    if isinstance(obs, dict) and str(obs.get('err', '')).startswith('Aliasing'):
        return [('aliasing', obs['err'])]
    if op in ('abs_threshold', 'rel_threshold'):
        votes = fvotes(case['votes'])
        t = Fraction(case['threshold'])
        if op == 'abs_threshold':
            return oracle_threshold(votes, t, case['accept_equal'], lambda c: votes[c], obs)
        total = sum(votes.values())
        if total == 0:
            return []          # the share is undefined
        return oracle_threshold(votes, t, case['accept_equal'], lambda c: votes[c] / total, obs)
    if op == 'seatless':
        votes = fvotes(case['votes'])
        prev = fvotes(case['prev']) if case.get('prev') is not None else {}
        members = dict(map(tuple, case.get('members') or []))
        props = dict(map(tuple, case.get('props') or []))
        sel = case['sel']
        pv = prev if sel_accepts_prev(sel) else None
        try:
            exp, amb = spec_eval(sel, votes, pv, members, props)
        except SpecErr:
            return []          # the configuration is not callable / share undefined: nothing claimed
        if isinstance(obs, dict):
            return [('unexpected_error', obs.get('err'))]
        clause = {'alt': 'alt_union', 'coalition': 'bracket_dispatch', 'property': 'bracket_dispatch'}.get(sel['k'], 'threshold_exact')
        out = []
        if set(obs) != set(exp):
            out.append((clause, f'expected the set {sorted(exp)}, got {sorted(obs)}'))
        if _dups(obs):
            out.append(('duplicate', 'candidate listed twice'))
        if not out:
            if sel['k'] == 'alt':
                mr = alt_mean_ranks(sel, votes, pv, members, props)
                if mr is not None:
                    seq = [mr(c) for c in obs]
                    if any(a > b for a, b in zip(seq, seq[1:])):
                        out.append(('alt_order', 'not ordered by mean rank in the partial selections'))
            elif not amb and obs != exp:
                out.append(('order', f'expected {exp}, got {obs}'))
        return out
    if op == 'quota_selector':
        votes = fvotes(case['votes'])
        n = case['n']
        q = quota_value(case['quota'], sum(votes.values()), n)
        over = {c: v for c, v in votes.items() if passes(v, q, case['accept_equal'])}
        if len(over) > n and case['on_more'] == 'error':
            return [] if obs == {'err': 'VotingSystemError'} else [('quota_error_expected', str(obs))]
        if isinstance(obs, dict):
            return [('unexpected_error', obs.get('err'))]
        if len(over) <= n:
            return oracle_threshold(votes, q, case['accept_equal'], lambda c: votes[c], obs)
        out = []
        cands = [x for x in obs if not isinstance(x, dict)]
        tied = set(c for x in obs if isinstance(x, dict) for c in x['tie'])
        if not (set(cands) | tied) <= set(over):
            out.append(('below_passed', 'somebody not over the quota was selected'))
        if len(obs) != n:
            out.append(('length', f'{len(obs)} places for {n} seats'))
        return out
    if op == 'openlist':
        return oracle_openlist(case, obs)
    if op == 'tiebreak':
        votes = fvotes(case['votes'])
        n, clist = case['n'], case['list']
        if case['inner'] != 'plurality':
            q = quota_value(case['inner'], sum(votes.values()), n)
            votes = {c: v for c, v in votes.items() if passes(v, q, case['accept_equal'])}
        exp = expected_tiebreak(votes, n, clist)
        if exp is None:
            return [] if obs == {'err': 'ValueError'} else [('off_list_tied', f'expected ValueError, got {obs}')]
        if isinstance(obs, dict):
            return [('unexpected_error', obs.get('err'))]
        if obs != exp:
            if sorted(map(str, obs)) != sorted(map(str, exp)):
                return [('tiebreak_members', f'list tie-break changed who is elected beyond the tie: expected {exp}, got {obs}')]
            return [('tiebreak_order', f'expected {exp}, got {obs}')]
        return []
    if op == 'alt_ranks':
        results = case['results']
        if isinstance(obs, dict):
            return [('unexpected_error', obs.get('err'))]
        union = set(c for r in results for c in r)
        out = []
        if set(obs) != union:
            out.append(('alt_union', f'expected the set {sorted(union)}, got {sorted(obs)}'))
        if _dups(obs):
            out.append(('duplicate', 'candidate listed twice'))
        if not out:
            seq = [Fraction(sum(r.index(c) if c in r else len(r) for r in results), len(results)) for c in obs]
            if any(a > b for a, b in zip(seq, seq[1:])):
                out.append(('alt_order', 'not ordered by mean rank in the partial selections'))
        return out
    if op == 'break_by_list':
        el, br = case['elected'], case['breaker']
        counts = {}
        for x in el:
            if isinstance(x, dict):
                key = tuple(sorted(x['tie']))
                counts[key] = counts.get(key, 0) + 1
        if any(k > len(t) for t, k in counts.items()) or any(c not in br for t in counts for c in t):
            return []          # not a result of a selector / tied candidate not on the list: nothing claimed
        if isinstance(obs, dict):
            return [('unexpected_error', obs.get('err'))]
        out = []
        if len(obs) != len(el):
            return [('break_length', 'length changed')]
        seen = {}
        for x, y in zip(el, obs):
            if isinstance(x, dict):
                key = tuple(sorted(x['tie']))
                exp = sorted(set(x['tie']), key=br.index)[seen.get(key, 0)]
                seen[key] = seen.get(key, 0) + 1
                if y != exp:
                    out.append(('break_pick', f'tie {x["tie"]}: expected {exp}, got {y}'))
            elif x != y:
                out.append(('break_moved', f'untied candidate {x} replaced by {y}'))
        return out
    return []


# ------------------------------------------------------------------------------------------------
# implementation side

class Bare:
    """a party-like candidate without a `properties` attribute (getattr path of PropertyBracketer)"""
    is_coalition = False

    def __init__(self, name):
        self.name = name

    def __repr__(self):
        return f'Bare({self.name})'


PROP_KINDS = ['party', 'bare', 'classattr', 'pyproperty', 'namedtuple', 'plain']
_NT_CACHE = {}


def _namedtuple_class(fields):
    """a namedtuple subclass without instance __dict__ whose fields carry the properties"""
    import collections
    key = tuple(fields)
    if key not in _NT_CACHE:
        base = collections.namedtuple('CandNT', ['name'] + list(fields))
        _NT_CACHE[key] = type('CandNT', (base,), {'__slots__': (), 'is_coalition': False})
    return _NT_CACHE[key]


def make_candidate(i, kind, attrs):
    """candidate i exposing the properties `attrs` (name -> value) in the way named by `kind`:
    party      votelib PoliticalParty, entries of its `properties` dict
    bare       instance attributes of a plain object
    classattr  class attributes (nothing in the instance __dict__)
    pyproperty @property descriptors of the class
    namedtuple fields of a namedtuple (no __dict__ at all)
    plain      str / int / '' / Person by the naming mode — no properties (only when attrs is empty)"""
    import votelib.candidate as vc
    if kind == 'plain' and not attrs:
        return NAMES.n(i)
    if kind == 'bare' or kind == 'plain':
        o = Bare(f'c{i}')
        for k, v in attrs.items():
            setattr(o, k, v)
        return o
    if kind == 'classattr':
        return type('ClassAttrCand', (Bare,), dict(attrs))(f'c{i}')
    if kind == 'pyproperty':
        o = type('PropertyCand', (Bare,), {k: property(lambda self, _v=v: _v) for k, v in attrs.items()})(f'c{i}')
        return o
    if kind == 'namedtuple':
        fields = sorted(attrs)
        return _namedtuple_class(fields)(f'c{i}', *[attrs[f] for f in fields])
    return vc.PoliticalParty(f'c{i}', properties=dict(attrs))


def build_cands(case):
    import votelib.candidate as vc
    ids = [i for i, _ in case['votes']] + [i for i, _ in (case.get('prev') or [])]
    members = dict(map(tuple, case.get('members') or []))
    props = dict(map(tuple, case.get('props') or []))
    styles = dict(map(tuple, case.get('_styles') or []))
    pn = case.get('_prop_name', 'minority')
    other = 'minority' if pn != 'minority' else 'region'
    objs = {}
    for i in ids:
        if i in objs:
            continue
        k, p, st = members.get(i, 1), props.get(i), styles.get(i, 'party')
        if pn == 'is_coalition':
            # votelib's own attribute: Coalition -> True (class attribute, read with getattr); PoliticalParty and Person have
            # a `properties` dict which shadows it (-> default bracket); Bare has the class attribute False; str has none.
            # `props` of the case must say the same (1 / None / None / 0 / None): see gen_property_kinds.
            if k > 1:
                o = vc.Coalition([vc.PoliticalParty(f'p{i}_{j}') for j in range(k)], name=f'c{i}')
            elif st == 'person':
                o = vc.Person(f'c{i}')
            elif st == 'bare':
                o = Bare(f'c{i}')
            elif st == 'plain':
                o = NAMES.n(i)
            else:
                o = vc.PoliticalParty(f'c{i}')
            objs[i] = o
            continue
        attrs = {}
        if p is not None:
            attrs[pn] = p
        if case.get('_prop_name'):
            attrs[other] = decoy_prop(p)
        if k > 1:
            o = vc.Coalition([vc.PoliticalParty(f'p{i}_{j}') for j in range(k)], name=f'c{i}')
            for kk, vv in attrs.items():
                setattr(o, kk, vv)
        else:
            o = make_candidate(i, st, attrs)
        objs[i] = o
    return objs


def build_sel(sel, pn='minority'):
    import votelib.evaluate.threshold as vt
    if sel is None:
        return None
    k = sel['k']
    if k == 'abs':
        return vt.AbsoluteThreshold(to_py(sel['t'], sel.get('ty', 'F')), sel['eq'])
    if k == 'rel':
        return vt.RelativeThreshold(to_py(sel['t'], sel.get('ty', 'F')), sel['eq'])
    if k == 'alt':
        return vt.AlternativeThresholds([build_sel(p, pn) for p in sel['parts']])
    if k == 'coalition':
        return vt.CoalitionMemberBracketer({kk: build_sel(s, pn) for kk, s in sel['evs']}, build_sel(sel['default'], pn))
    if k == 'property':
        return vt.PropertyBracketer(pn, {kk: build_sel(s, pn) for kk, s in sel['evs']}, build_sel(sel['default'], pn))
    if k == 'prev':
        return vt.PreviousGainThreshold(build_sel(sel['inner'], pn))
    raise ValueError(k)


def build_quota(case, key='quota'):
    import votelib.component.quota as vq
    q = case.get(key)
    if q is None:
        return None
    mode = case.get('_quota_mode')
    if q.startswith('const:'):
        return _user_quota(vq.constant(Fraction(q[6:])), mode)
    if mode in USER_QUOTA_MODES:
        return _user_quota(getattr(vq, q), mode)
    if mode == 'callable':
        return getattr(vq, q)
    return q


# how a quota function is handed to QuotaSelector / ThresholdOpenList / the QuotaSelector inside ListOrderTieBreaker:
# 'name' = registered name, 'callable' = the library function object, and caller-written callables of two positional
# arguments (total votes, seats) whose parameters are NOT called votes / seats: a def, a lambda, a def with
# positional-only parameters, an object with __call__, a functools.partial.  The documented type is
# Callable[[int, int], Number]: any of them must give the result of the library function it stands for.
USER_QUOTA_MODES = ['def', 'lambda', 'posonly', 'object', 'partial']
QUOTA_MODES = ['name', 'callable'] + USER_QUOTA_MODES


def _user_quota(base, mode):
    """a caller-written callable equivalent to the library quota `base` (called positionally), in the shape `mode`"""
    if mode == 'def':
        def user_quota(n_votes, n_seats):
            return base(n_votes, n_seats)
        return user_quota
    if mode == 'lambda':
        return lambda t, s: base(t, s)
    if mode == 'posonly':
        def user_quota_posonly(total, mandates, /):
            return base(total, mandates)
        return user_quota_posonly
    if mode == 'object':
        class UserQuota:
            def __call__(self, ballots, places):
                return base(ballots, places)
        return UserQuota()
    if mode == 'partial':
        import functools

        def scaled(factor, ballots, places):
            return base(ballots, places) * factor
        return functools.partial(scaled, 1)
    return base


def pick_quota_mode(rng):
    """half of the time by name / library function object (as before), else one of the caller-written shapes"""
    if rng.random() < 0.5:
        return rng.choice(['name', 'callable'])
    return rng.choice(USER_QUOTA_MODES)


class AliasError(Exception):
    """an input object was changed, the evaluator's own state was changed, or the result is an input object"""


_PRIM = (int, float, str, bool, Fraction, Decimal, type(None))


def _snap(x):
    """order-sensitive snapshot of an argument handed to the library (candidates by identity unless primitive)"""
    def key(c):
        return ('v', repr(c)) if isinstance(c, _PRIM) else ('id', id(c))
    if isinstance(x, dict):
        return ('dict', tuple((key(k), repr(v)) for k, v in x.items()))
    if isinstance(x, (list, tuple)):
        return ('list', tuple(_snap(v) if isinstance(v, (frozenset, set)) else key(v) for v in x))
    if isinstance(x, (set, frozenset)):
        return ('set', tuple(sorted(map(repr, map(key, x)))))
    return key(x)


def _freeze(x, depth=0):
    """the evaluator's own state: __dict__ recursively, private attributes included"""
    import inspect
    if depth > 8:
        return ('deep', type(x).__name__)
    if isinstance(x, _PRIM):
        return (type(x).__name__, repr(x))
    if isinstance(x, dict):
        return ('dict', tuple((_freeze(k, depth + 1), _freeze(v, depth + 1)) for k, v in x.items()))
    if isinstance(x, (list, tuple)):
        return (type(x).__name__, tuple(_freeze(v, depth + 1) for v in x))
    if isinstance(x, (set, frozenset)):
        return ('set', tuple(sorted(repr(_freeze(v, depth + 1)) for v in x)))
    if inspect.isfunction(x) or inspect.isbuiltin(x) or inspect.ismethod(x):
        return ('function', getattr(x, '__qualname__', repr(x)))
    if hasattr(x, '__dict__') and not isinstance(x, type):
        return (type(x).__name__, _freeze(vars(x), depth + 1))
    return ('other', repr(x))


def _checked(obj, fn, args):
    """run fn() (a call into votelib with the argument objects `args`): the arguments and the state of `obj` must be
    the same afterwards, and the result must not be one of the argument objects"""
    import votelib.evaluate.threshold as vt
    before = {k: _snap(v) for k, v in args.items()}
    state = _freeze(vars(obj)) if obj is not None and hasattr(obj, '__dict__') else None
    try:
        res = fn()
    finally:
        for k, v in args.items():
            if _snap(v) != before[k]:
                raise AliasError(f'argument {k} was changed by the call')
        if state is not None and _freeze(vars(obj)) != state:
            raise AliasError('the state of the evaluator object was changed by the call')
        if vt.AlternativeThresholds.evaluate.__defaults__ != ({},):
            raise AliasError('the default prev_gains={} of AlternativeThresholds.evaluate was changed')
    for k, v in args.items():
        if res is v:
            raise AliasError(f'the result is the caller\'s {k} object')
    return res


def _evaluator(case):
    """builds ONE votelib object from the configuration of `case`; returns (call, enc): call(inp) evaluates it on the
    inputs (votes, n, list, prev, candidate attributes) of any case of the same op through `_checked` and returns the raw
    result; enc(inp, raw) encodes it"""
    import votelib.evaluate.core as vcore
    import votelib.evaluate.threshold as vt
    import votelib.evaluate.openlist as vo
    import votelib.evaluate.approval as vapp
    op = case['op']
    obj = NAMES.n
    enc_ids = lambda inp, raw: [NAMES.i(c) for c in raw]               # noqa
    enc_sel = lambda inp, raw: enc_selection(raw, NAMES)                 # noqa
    if op in ('abs_threshold', 'rel_threshold'):
        cls = vt.AbsoluteThreshold if op == 'abs_threshold' else vt.RelativeThreshold
        ev = cls(to_py(case['threshold'], case.get('_ttype', 'F')), case['accept_equal'])

        def call(inp):
            votes = py_votes(inp['votes'], inp.get('_types'), obj)
            return _checked(ev, lambda: ev.evaluate(votes), {'votes': votes})
        return call, enc_ids
    if op == 'seatless':
        sel = build_sel(case['sel'], case.get('_prop_name', 'minority'))
        holder = {}

        def call(inp):
            objs = build_cands(inp)
            holder['back'] = {id(o): i for i, o in objs.items()}
            votes = py_votes(inp['votes'], inp.get('_types'), lambda i: objs[i])
            prev = py_votes(inp.get('prev') or [], None, lambda i: objs[i])
            prev = {c: (int(v) if v.denominator == 1 else v) for c, v in prev.items()}
            if isinstance(sel, vt.PreviousGainThreshold) or \
                    (isinstance(sel, vt.AlternativeThresholds) and not inp.get('_no_prev_kwarg')):
                return _checked(sel, lambda: sel.evaluate(votes, prev_gains=prev), {'votes': votes, 'prev_gains': prev})
            return _checked(sel, lambda: sel.evaluate(votes), {'votes': votes})

        def enc(inp, raw):
            back = holder['back']
            return [back[id(c)] if id(c) in back else NAMES.i(c) for c in raw]
        return call, enc
    if op == 'quota_selector':
        ev = vapp.QuotaSelector(build_quota(case), accept_equal=case['accept_equal'], on_more_over_quota=case['on_more'])

        def call(inp):
            votes = py_votes(inp['votes'], inp.get('_types'), obj)
            return _checked(ev, lambda: ev.evaluate(votes, inp['n']), {'votes': votes})
        return call, enc_sel
    if op in ('openlist', 'tiebreak'):
        if op == 'openlist':
            jf = to_py(case['jump_fraction'], case.get('_jftype', 'F')) if case.get('jump_fraction') is not None else None
            ev = vo.ThresholdOpenList(
                jump_fraction=jf, quota_function=build_quota(case),
                quota_fraction=to_py(case['quota_fraction'], case.get('_qftype', 'F')),
                take_higher=case['take_higher'], accept_equal=case['accept_equal'],
                list_precedence=case['list_precedence'])
        else:
            if case['inner'] == 'plurality':
                inner = vcore.Plurality()
            else:
                inner = vapp.QuotaSelector(build_quota(case, 'inner'), accept_equal=case['accept_equal'],
                                           on_more_over_quota='select')
            ev = vo.ListOrderTieBreaker(inner)

        def call(inp):
            votes = py_votes(inp['votes'], inp.get('_types'), obj)
            clist = [obj(i) for i in inp['list']]
            return _checked(ev, lambda: ev.evaluate(votes, inp['n'], clist), {'votes': votes, 'candidate_list': clist})
        return call, (enc_ids if op == 'openlist' else enc_sel)
    if op == 'alt_ranks':
        class Fixed:
            def __init__(self, res):
                self.res = res

            def evaluate(self, votes):
                return list(self.res)

        def call(inp):
            ev = vt.AlternativeThresholds([Fixed([obj(i) for i in r]) for r in inp['results']])
            votes = {}
            return _checked(None, lambda: ev.evaluate(votes), {'votes': votes})
        return call, enc_ids
    if op == 'break_by_list':
        def call(inp):
            el = [vcore.Tie(obj(i) for i in x['tie']) if isinstance(x, dict) else obj(x) for x in inp['elected']]
            br = [obj(i) for i in inp['breaker']]
            return _checked(None, lambda: vcore.Tie.break_by_list(el, br), {'elected': el, 'breaker': br})
        return call, enc_ids
    raise ValueError(op)


def impl(case):
    """`_warm_cfg` (configuration keys): a differently configured object of the same class is evaluated first;
    `_warm` (input keys): the SAME object is first evaluated on other inputs (its result or exception is discarded);
    then the observable is the evaluation on the inputs of the case; `_after` (input keys): the same object is evaluated
    once more afterwards and the result returned for the case must not have changed.  Every call goes through `_checked`
    (arguments unchanged, evaluator state unchanged, result not an argument object); a breach is reported as the
    observable {'err': 'Aliasing: ...'}."""
    def run():
        try:
            if case.get('_warm_cfg'):
                other = dict(case)
                other.update(case['_warm_cfg'])
                try:
                    _evaluator(other)[0](other)
                except AliasError:
                    raise
                except Exception:       # noqa
                    pass
            call, enc = _evaluator(case)
            if case.get('_warm'):
                w = dict(case)
                w.update(case['_warm'])
                try:
                    call(w)
                except AliasError:
                    raise
                except Exception:       # noqa
                    pass
            raw = call(case)
            out = enc(case, raw)
            if case.get('_after'):
                kept = _snap(raw)
                a = dict(case)
                a.update(case['_after'])
                try:
                    call(a)
                except AliasError:
                    raise
                except Exception:       # noqa
                    pass
                if _snap(raw) != kept:
                    raise AliasError('the result returned earlier changed when the object was evaluated again')
            return out
        except AliasError as e:
            return {'err': 'Aliasing: ' + str(e)}
    out = guarded(run)
    if out == {'err': 'Timeout'}:
        # a 5 s alarm on a loaded machine is not an answer of the library: once more with a generous limit
        out = guarded(run, 60)
    return out


def compare(case, iobs, mobs):
    if case['op'] == 'alt_ranks':
        # the model answers [[candidate, mean rank], ...]; equal mean ranks form groups compared as sets
        if not isinstance(mobs, list) or not isinstance(iobs, list):
            return f'impl={json.dumps(iobs)} model={json.dumps(mobs)}'
        groups, pos = [], 0
        for c, rk in mobs:
            if groups and groups[-1][0] == rk:
                groups[-1][1].add(c)
            else:
                groups.append((rk, {c}))
        for rk, g in groups:
            if set(iobs[pos:pos + len(g)]) != g:
                return f'impl={json.dumps(iobs)} model={json.dumps(mobs)}'
            pos += len(g)
        return None if pos == len(iobs) else f'impl={json.dumps(iobs)} model={json.dumps(mobs)}'
    if canon(iobs) == canon(mobs):
        return None
    if case['op'] == 'seatless' and isinstance(iobs, list) and isinstance(mobs, list) \
            and sorted(iobs) == sorted(mobs) and 'alt' in sel_kinds(case['sel']):
        # AlternativeThresholds sorts a frozenset: the order among equal mean ranks is hash order in Python.
        # Accepted iff the spec says that the order is ambiguous and the implementation's order is a valid one
        # (the oracle checks it against the mean ranks).
        votes = fvotes(case['votes'])
        prev = fvotes(case['prev']) if case.get('prev') is not None else {}
        members = dict(map(tuple, case.get('members') or []))
        props = dict(map(tuple, case.get('props') or []))
        try:
            _, amb = spec_eval(case['sel'], votes, prev if sel_accepts_prev(case['sel']) else None, members, props)
        except SpecErr:
            amb = False
        if amb and not oracle(case, iobs) and not oracle(case, mobs):
            return None
    return f'impl={json.dumps(canon(iobs))} model={json.dumps(canon(mobs))}'


def model_line(case):
    c = strip_case(case)
    return c


def nontrivial(case, obs):
    if isinstance(obs, dict):
        return False
    if case['op'] == 'break_by_list':
        return any(isinstance(x, dict) for x in case['elected'])
    if case['op'] == 'alt_ranks':
        return len(case['results']) >= 2
    return len(case['votes']) >= 2


def _py_num(s, t):
    v = to_py(s, t)
    if isinstance(v, float):
        return repr(v)
    return f"Decimal('{v}')" if isinstance(v, Decimal) else (f'Fraction({v.numerator}, {v.denominator})' if isinstance(v, Fraction) else repr(v))


def _py_sel(sel):
    if sel is None:
        return 'None'
    k = sel['k']
    if k in ('abs', 'rel'):
        cls = 'AbsoluteThreshold' if k == 'abs' else 'RelativeThreshold'
        return f"{cls}({_py_num(sel['t'], sel.get('ty', 'F'))}, accept_equal={sel['eq']})"
    if k == 'alt':
        return 'AlternativeThresholds([' + ', '.join(_py_sel(p) for p in sel['parts']) + '])'
    if k == 'coalition':
        return ('CoalitionMemberBracketer({' + ', '.join(f'{kk}: {_py_sel(v)}' for kk, v in sel['evs']) + '}, '
                + _py_sel(sel['default']) + ')')
    if k == 'property':
        return ("PropertyBracketer('minority', {" + ', '.join(f'{kk}: {_py_sel(v)}' for kk, v in sel['evs']) + '}, '
                + _py_sel(sel['default']) + ')')
    return 'PreviousGainThreshold(' + _py_sel(sel['inner']) + ')'


def describe(case):
    """the Python call of a case, as text"""
    txt = _describe(case)
    if case.get('_warm_cfg'):
        txt = f"# first a differently configured object of the class: {json.dumps(case['_warm_cfg'])}\n" + txt
    if case.get('_warm'):
        txt += f"\n# the same object was first evaluated on the inputs {json.dumps(case['_warm'])}"
    if case.get('_names') or case.get('_prop_name'):
        txt += f"\n# candidate naming mode {case.get('_names', 'str')}, property name {case.get('_prop_name', 'minority')}"
    return txt


def _describe(case):
    op = case['op']
    if op == 'alt_ranks':
        return ('AlternativeThresholds([Fixed(r) for r in ' + repr([[f'c{i}' for i in r] for r in case['results']])
                + ']).evaluate({})   # Fixed(r).evaluate(votes) returns r')
    if op == 'break_by_list':
        el = ', '.join(('Tie({' + ', '.join(f"'c{i}'" for i in x['tie']) + '})') if isinstance(x, dict) else f"'c{x}'"
                       for x in case['elected'])
        return f"Tie.break_by_list([{el}], {[f'c{i}' for i in case['breaker']]})"
    types = case.get('_types') or ['F'] * len(case['votes'])
    votes = '{' + ', '.join(f"'c{i}': {_py_num(s, t)}" for (i, s), t in zip(case['votes'], types)) + '}'
    if op in ('abs_threshold', 'rel_threshold'):
        cls = 'AbsoluteThreshold' if op == 'abs_threshold' else 'RelativeThreshold'
        return f"{cls}({_py_num(case['threshold'], case.get('_ttype', 'F'))}, accept_equal={case['accept_equal']}).evaluate({votes})"
    if op == 'seatless':
        extra = ''
        if sel_accepts_prev(case['sel']):
            extra = ', prev_gains={' + ', '.join(f"'c{i}': {s}" for i, s in case.get('prev') or []) + '}'
        return (f"{_py_sel(case['sel'])}.evaluate({votes}{extra})   # members={case.get('members')} "
                f"minority={case.get('props')} candidate classes={case.get('_styles')}")

    pre = []     # definitions of a caller-written quota callable, printed before the call

    def q(name):
        if name is None:
            return 'None'
        mode = case.get('_quota_mode')
        lib = f"quota.constant(Fraction('{name[6:]}'))" if name.startswith('const:') else f'quota.{name}'
        if mode in USER_QUOTA_MODES:
            pre.append({'def': f'def user_quota(n_votes, n_seats): return {lib}(n_votes, n_seats)',
                        'lambda': f'user_quota = lambda t, s: {lib}(t, s)',
                        'posonly': f'def user_quota(total, mandates, /): return {lib}(total, mandates)',
                        'object': f'class UserQuota:\n    def __call__(self, ballots, places): return {lib}(ballots, places)\n'
                                  'user_quota = UserQuota()',
                        'partial': f'user_quota = functools.partial(lambda factor, ballots, places: {lib}(ballots, places) * factor, 1)'
                        }[mode] + '\n')
            return 'user_quota'
        if name.startswith('const:'):
            return lib
        return lib if mode == 'callable' else repr(name)
    if op == 'quota_selector':
        qs = q(case['quota'])
        return ''.join(pre) + (f"QuotaSelector({qs}, accept_equal={case['accept_equal']}, "
                               f"on_more_over_quota={case['on_more']!r}).evaluate({votes}, {case['n']})")
    clist = [f'c{i}' for i in case['list']]
    if op == 'openlist':
        jf = 'None' if case.get('jump_fraction') is None else _py_num(case['jump_fraction'], case.get('_jftype', 'F'))
        qs = q(case.get('quota'))
        return ''.join(pre) + (
                f"ThresholdOpenList(jump_fraction={jf}, quota_function={qs}, "
                f"quota_fraction={_py_num(case['quota_fraction'], case.get('_qftype', 'F'))}, take_higher={case['take_higher']}, "
                f"accept_equal={case['accept_equal']}, list_precedence={case['list_precedence']})"
                f".evaluate({votes}, {case['n']}, {clist})")
    if op == 'tiebreak':
        inner = 'Plurality()' if case['inner'] == 'plurality' else \
            f"QuotaSelector({q(case['inner'])}, accept_equal={case['accept_equal']}, on_more_over_quota='select')"
        return ''.join(pre) + f"ListOrderTieBreaker({inner}).evaluate({votes}, {case['n']}, {clist})"
    return json.dumps(strip_case(case))


def _sub_selectors(sel):
    if sel is None:
        return
    if sel['k'] == 'alt':
        for p in sel['parts']:
            yield p
        if len(sel['parts']) > 1:
            for i in range(len(sel['parts'])):
                yield {'k': 'alt', 'parts': sel['parts'][:i] + sel['parts'][i + 1:]}
    elif sel['k'] in ('coalition', 'property'):
        for _, s in sel['evs']:
            if s is not None:
                yield s
        if sel['default'] is not None:
            yield sel['default']
        for i in range(len(sel['evs'])):
            c = dict(sel)
            c['evs'] = sel['evs'][:i] + sel['evs'][i + 1:]
            yield c
    elif sel['k'] == 'prev':
        yield sel['inner']


def shrink_candidates(case):
    op = case['op']
    for k in ('_warm', '_warm_cfg'):
        if case.get(k):
            c = dict(case)
            del c[k]
            yield c
    if op == 'alt_ranks':
        rs = case['results']
        for i in range(len(rs)):
            if len(rs) > 1:
                c = dict(case)
                c['results'] = rs[:i] + rs[i + 1:]
                yield c
        return
    if op == 'break_by_list':
        el = case['elected']
        for i in range(len(el)):
            if len(el) > 1:
                c = dict(case)
                c['elected'] = el[:i] + el[i + 1:]
                yield c
        return
    vs = case['votes']
    types = case.get('_types') or ['F'] * len(vs)
    if op == 'seatless':
        for sub in _sub_selectors(case['sel']):
            c = dict(case)
            c['sel'] = sub
            yield c
        if case.get('prev'):
            c = dict(case)
            c['prev'] = case['prev'][:-1]
            yield c
    if len(vs) > 1:
        for i in range(len(vs)):
            c = dict(case)
            c['votes'] = vs[:i] + vs[i + 1:]
            c['_types'] = types[:i] + types[i + 1:]
            if op in ('openlist', 'tiebreak'):
                gone = vs[i][0]
                c['list'] = [x for x in case['list'] if x != gone]
                if not c['list']:
                    continue
                if op == 'openlist':
                    c['n'] = max(1, min(case['n'], len(c['list'])))
            yield c
    if case.get('n', 1) > 1:
        c = dict(case)
        c['n'] = case['n'] - 1
        yield c


# ------------------------------------------------------------------------------------------------
# generator

def _shuffled(rng, xs):
    xs = list(xs)
    rng.shuffle(xs)
    return xs


def _pick_threshold_type(rng, t, allow_float=True):
    """protocol string + type letter for a threshold value t (Fraction)"""
    opts = ['F', 'F']
    if t.denominator == 1:
        opts += ['i', 'i', 'i']
    if dec_ok(t):
        opts += ['D', 'D', 'D']
    if allow_float and float_ok(t):
        opts += ['f']
    return num_str(t), rng.choice(opts)


def boundary_values(rng, V, on, m):
    """m non-negative integers summing to V, one of them exactly `on` (0 <= on <= V), with near misses"""
    vals = [on]
    rest = V - on
    extra = []
    if m >= 3 and rest >= 2 * on + 2 and on >= 1 and rng.random() < 0.5:
        extra = [on + 1, on - 1]
    elif m >= 2 and rest >= on and rng.random() < 0.35:
        extra = [on]
    rest -= sum(extra)
    k = m - 1 - len(extra)
    if k <= 0:
        # put the remainder on one more candidate
        return vals + extra + ([rest] if rest or not extra else [])
    return vals + extra + split_total(rng, rest, k)


def gen_rel_boundary(rng, huge=False):
    kind = rng.random()
    eq = rng.random() < 0.5
    if kind < 0.08 and not huge:
        # integer thresholds 0 and 1
        t = Fraction(rng.choice([0, 1]))
        m = rng.randint(1, 5)
        if t == 1:
            vals = [rng.randint(1, 50)] + [0] * (m - 1)
        else:
            vals = [0] + [rng.randint(0, 9) for _ in range(m - 1)]
            if sum(vals) == 0:
                vals.append(3)
        ts, tt = num_str(t), rng.choice(['i', 'i', 'F', 'D'])
    else:
        p, q = rng.choice(NICE)
        k = rng.randint(1, 12) * rng.choice([1, 1, 1, 1, 10, 1000, 10 ** 20])
        if huge:
            k = rng.randint(1, 3) * rng.choice(HUGE_K)
        V, on = q * k, p * k
        m = rng.randint(1, 7)
        vals = boundary_values(rng, V, on, m)
        t = Fraction(p, q)
        ts, tt = _pick_threshold_type(rng, t)
    vals = _shuffled(rng, vals)
    if rng.random() < 0.2:
        vals = [Fraction(v, 2) for v in vals]          # same shares, Fraction counts
    votes, types = enc_votes(list(enumerate(vals)))
    tags = ['rel_boundary']
    if ts in ('1/20',) or (Fraction(ts) == Fraction(1, 20)):
        tags.append('rel_boundary_5pct')
    return {'op': 'rel_threshold', 'votes': votes, '_types': types, 'threshold': ts, '_ttype': tt,
            'accept_equal': eq, '_tags': tags}


def gen_rel_random(rng):
    m = rng.randint(1, 8)
    vals = [rng.choice([0, 1, 2, 3, 5, 10, 20, 45, 50, 95, 100]) for _ in range(m)]
    if rng.random() < 0.15:
        vals = [Fraction(v, rng.choice([1, 2, 3])) for v in vals]
    if rng.random() < 0.05:
        vals = [-v for v in vals]
    p, q = rng.choice(NICE)
    t = Fraction(p, q) if rng.random() < 0.8 else Fraction(rng.randint(0, 100), 100)
    ts, tt = _pick_threshold_type(rng, t)
    votes, types = enc_votes(list(enumerate(vals)))
    return {'op': 'rel_threshold', 'votes': votes, '_types': types, 'threshold': ts, '_ttype': tt,
            'accept_equal': rng.random() < 0.5, '_tags': ['rel_random']}


def gen_abs(rng):
    m = rng.randint(1, 8)
    kind = rng.choice(['int', 'int', 'frac', 'dec', 'big', 'float', 'huge'])
    if kind == 'int':
        vals = [rng.randint(0, 12) for _ in range(m)]
    elif kind == 'float':
        vals = [rng.choice([0.0, 0.5, 1.4, 2.5, 2.5, 3.0, 0.1, 7.25]) for _ in range(m)]
        if rng.random() < 0.5:
            vals = [rng.choice([Fraction(v), Decimal(v), v, v]) for v in vals]     # the same numbers in other types
    elif kind == 'huge':
        base = rng.choice(HUGE_K)
        vals = [base + rng.choice([-1, 0, 0, 1, 2]) for _ in range(m)]
    elif kind == 'frac':
        vals = [Fraction(rng.randint(-4, 24), rng.choice([1, 2, 3, 4])) for _ in range(m)]
    elif kind == 'dec':
        vals = [Decimal(rng.randint(0, 60)) / Decimal(rng.choice([1, 2, 4, 5, 10])) for _ in range(m)]
        if rng.random() < 0.4:
            vals = [Fraction(v) if rng.random() < 0.5 else v for v in vals]
    else:
        vals = [10 ** 25 + rng.choice([-1, 0, 0, 1, 2]) for _ in range(m)]
    if rng.random() < 0.75:
        t = Fraction(rng.choice(vals))                  # somebody exactly on the threshold
    else:
        t = Fraction(rng.randint(0, 24), rng.choice([1, 2]))
    ts, tt = _pick_threshold_type(rng, t)
    votes, types = enc_votes(list(enumerate(vals)))
    return {'op': 'abs_threshold', 'votes': votes, '_types': types, 'threshold': ts, '_ttype': tt,
            'accept_equal': rng.random() < 0.5, '_tags': ['abs']}


def gen_leaf(rng, votes, prevish=False):
    """a plain threshold, mostly placed exactly on one of the candidates"""
    vals = list(votes.values()) or [Fraction(1)]
    total = sum(vals)
    eq = rng.random() < 0.5
    if rng.random() < 0.5 and total != 0 and not prevish:
        t = rng.choice(vals) / total if rng.random() < 0.65 else Fraction(*rng.choice(NICE))
        ts, tt = _pick_threshold_type(rng, t)
        return {'k': 'rel', 't': ts, 'ty': tt, 'eq': eq}
    t = rng.choice(vals) if rng.random() < 0.65 else Fraction(rng.randint(0, 12))
    ts, tt = _pick_threshold_type(rng, t)
    return {'k': 'abs', 't': ts, 'ty': tt, 'eq': eq}


def gen_sel(rng, votes, prev, depth, force=None, under_bracket=False):
    kinds = ['leaf']
    if depth > 0:
        kinds += ['alt', 'alt', 'coalition', 'property', 'prev']
    k = force or rng.choice(kinds)
    if k == 'prev' and under_bracket and rng.random() < 0.9:
        k = 'leaf'                     # PreviousGainThreshold under a bracketer is a TypeError; keep it rare
    if k == 'leaf':
        return gen_leaf(rng, votes)
    if k == 'alt':
        return {'k': 'alt', 'parts': [gen_sel(rng, votes, prev, depth - 1, under_bracket=False)
                                      for _ in range(rng.randint(1, 3))]}
    if k == 'coalition':
        keys = rng.sample([1, 2, 3, 4], rng.randint(0, 3))
        return {'k': 'coalition', 'evs': [[kk, gen_sel(rng, votes, prev, depth - 1, under_bracket=True)] for kk in keys],
                'default': gen_sel(rng, votes, prev, depth - 1, under_bracket=True)}
    if k == 'property':
        keys = rng.sample([0, 1, 2], rng.randint(0, 3))
        def opt():
            return None if rng.random() < 0.3 else gen_sel(rng, votes, prev, depth - 1, under_bracket=True)
        return {'k': 'property', 'evs': [[kk, opt()] for kk in keys], 'default': opt()}
    if k == 'prev':
        inner = gen_leaf(rng, prev, prevish=True) if rng.random() < 0.8 else gen_sel(rng, prev, prev, depth - 1, under_bracket=True)
        return {'k': 'prev', 'inner': inner}
    raise ValueError(k)


def gen_seatless(rng, force=None):
    m = rng.randint(1, 7)
    if rng.random() < 0.5:
        p, q = rng.choice(NICE)
        kk = rng.randint(1, 6)
        vals = _shuffled(rng, boundary_values(rng, q * kk, p * kk, m))
    else:
        vals = [rng.choice([0, 1, 2, 3, 5, 5, 10, 20, 45, 50]) for _ in range(m)]
    if sum(vals) == 0 and rng.random() < 0.9:
        vals[0] = 4
    pairs = list(enumerate(vals))
    votes, types = enc_votes(pairs)
    fv = {i: Fraction(v) for i, v in pairs}
    prev_ids = rng.sample(range(len(vals) + 1), rng.randint(0, len(vals)))
    prev = [[i, str(rng.choice([0, 1, 1, 2, 3]))] for i in prev_ids]
    fprev = {i: Fraction(s) for i, s in prev}
    sel = gen_sel(rng, fv, fprev, rng.choice([1, 2, 2, 3]), force=force)
    kinds = sel_kinds(sel)
    members = [[i, rng.choice([1, 1, 1, 2, 2, 3, 4, 5])] for i in sorted(set(fv) | set(fprev))] if 'coalition' in kinds else []
    props = [[i, rng.choice([None, None, 0, 1, 2, 3])] for i in sorted(set(fv) | set(fprev))] if 'property' in kinds else []
    styles = []
    for i in sorted(set(fv) | set(fprev)):
        opts = ['party', 'party', 'bare', 'classattr', 'pyproperty', 'namedtuple']
        if 'coalition' not in kinds:
            opts.append('plain')
        styles.append([i, rng.choice(opts)])
    tags = ['seatless']
    extra = {}
    if 'property' in kinds and rng.random() < 0.6:
        extra['_prop_name'] = rng.choice(['region', 'region', 'minority'])     # the other name carries decoy values
    if 'alt' in kinds:
        tags.append('alternative')
    if 'coalition' in kinds:
        tags += ['bracketer', 'bracketer_coalition']
    if 'property' in kinds:
        tags += ['bracketer', 'bracketer_property']
    if 'prev' in kinds:
        tags.append('prev_gain')
    return dict({'op': 'seatless', 'sel': sel, 'votes': votes, '_types': types, 'prev': prev, 'members': members,
                 'props': props, '_styles': styles, '_tags': tags}, **extra)


def gen_property_kinds(rng):
    """PropertyBracketer over candidates that expose the property in every way Python offers, with vote shares that the
    candidate's own bracket and the default bracket judge differently (5 % / 10 % bars, relative and absolute)"""
    k = rng.randint(1, 6) * rng.choice([1, 1, 10, 10 ** 6])
    V = 100 * k
    lo, hi = 5 * k, 10 * k
    shares = [lo, hi, 7 * k, 7 * k, lo - 1 if lo > 1 else lo, hi + 1, 3 * k, lo + 1]
    m = rng.randint(3, 7)
    vals = rng.sample(shares, m) if m <= len(shares) else shares
    rest = V - sum(vals)
    if rest < 0:
        vals = vals[:3]
        rest = V - sum(vals)
    vals.append(rest)                                   # the big party
    ids = list(range(len(vals)))
    pairs = list(zip(ids, _shuffled(rng, vals)))
    votes, types = enc_votes(pairs)

    def bar(level):
        if rng.random() < 0.5:
            return {'k': 'rel', 't': num_str(Fraction(level, V)), 'ty': rng.choice(['F', 'D'] if dec_ok(Fraction(level, V)) else ['F']),
                    'eq': rng.random() < 0.5}
        return {'k': 'abs', 't': str(level), 'ty': 'i', 'eq': rng.random() < 0.5}
    mode = rng.choice(['generic', 'generic', 'generic', 'is_coalition', 'number'])
    tags = ['seatless', 'bracketer', 'bracketer_property', 'property_kinds']
    if mode == 'is_coalition':
        # coalitions need 10 %, everybody else (default) 5 % — or the other way round
        a, b = (hi, lo) if rng.random() < 0.7 else (lo, hi)
        sel = {'k': 'property', 'evs': [[1, bar(a)]] + ([[0, bar(rng.choice([lo, hi]))]] if rng.random() < 0.6 else []),
               'default': bar(b)}
        members, props, styles = [], [], []
        for i in ids:
            st = rng.choice(['coalition', 'coalition', 'party', 'bare', 'person', 'plain'])
            members.append([i, rng.randint(2, 3) if st == 'coalition' else 1])
            props.append([i, 1 if st == 'coalition' else 0 if st == 'bare' else None])
            styles.append([i, 'party' if st == 'coalition' else st])
        return {'op': 'seatless', 'sel': sel, 'votes': votes, '_types': types, 'prev': [], 'members': members,
                'props': props, '_styles': styles, '_prop_name': 'is_coalition', '_tags': tags}
    vals_p = [0, 1]
    sel = {'k': 'property', 'evs': [[0, bar(rng.choice([lo, hi]))], [1, (bar(rng.choice([lo, hi])) if rng.random() < 0.8 else None)]],
           'default': bar(rng.choice([lo, hi])) if rng.random() < 0.85 else None}
    if rng.random() < 0.2:
        sel = {'k': 'alt', 'parts': [sel, {'k': 'abs', 't': str(50 * k), 'ty': 'i', 'eq': True}]}
    props = [[i, rng.choice([0, 1, 0, 1, None])] for i in ids]
    if mode == 'number':
        # votelib's own Coalition carries `number` as an instance attribute
        members = [[i, rng.choice([1, 2, 2])] for i in ids]
        styles = [[i, rng.choice(['bare', 'classattr'])] for i in ids]
        return {'op': 'seatless', 'sel': sel, 'votes': votes, '_types': types, 'prev': [], 'members': members,
                'props': props, '_styles': styles, '_prop_name': 'number', '_tags': tags}
    styles = [[i, rng.choice(PROP_KINDS[:5])] for i in ids]
    extra = {'_prop_name': rng.choice(['region', 'minority'])} if rng.random() < 0.5 else {}
    return dict({'op': 'seatless', 'sel': sel, 'votes': votes, '_types': types, 'prev': [], 'members': [],
                 'props': props, '_styles': styles, '_tags': tags}, **extra)


def gen_quota_selector(rng, huge=False):
    n = rng.randint(1, 5)
    m = rng.randint(1, 7)
    qn = rng.choice(QUOTAS)
    V = rng.randint(1, 30) * rng.choice([1, 1, n, n + 1, n + 2, 10])
    if huge:
        V = rng.randint(1, 30) * rng.choice([1, n, n + 1, n + 2]) * rng.choice(HUGE_K)
    q = quota_value(qn, V, n)
    tags = ['quota_selector']
    if rng.random() < 0.75 and q.denominator == 1 and 0 <= q <= V:
        vals = _shuffled(rng, boundary_values(rng, V, int(q), m))
    elif rng.random() < 0.5 and 0 <= q <= V:
        # Fraction counts with somebody exactly on a fractional quota
        rest = split_total(rng, V * q.denominator - q.numerator, max(m - 1, 1))
        vals = _shuffled(rng, [q] + [Fraction(r, q.denominator) for r in rest])
    else:
        vals = split_total(rng, V, m)
    votes, types = enc_votes(list(enumerate(vals)))
    mode = pick_quota_mode(rng)
    return {'op': 'quota_selector', 'votes': votes, '_types': types, 'n': n, 'quota': qn, '_quota_mode': mode,
            'accept_equal': rng.random() < 0.5, 'on_more': rng.choice(['select', 'select', 'error']), '_tags': tags}


QF_RICH = [('1', 'i'), ('1', 'F'), ('1/2', 'F'), ('8/5', 'F'), ('3/50', 'F'), ('27/100', 'D'), ('1/2', 'D'), ('1/2', 'f'),
           ('0', 'i'), ('0', 'F'), ('0', 'D'), ('500001/10000000', 'D'), ('1/1000003', 'F'), ('2', 'i'), ('1/4', 'f')]


def _demote_inexact(case):
    """since c90882d the open list multiplies exact rationals whatever the types of its parameters: nothing is demoted
    any more; only a Decimal vote TOTAL beyond the context precision stays outside (sum() of Decimals rounds)"""
    if arith_class(case) == 'sum':
        case['_types'] = ['F' if t == 'D' else t for t in case['_types']]
    return case


def gen_openlist(rng, directed=True, m=None, rich=False, huge=False):
    m = m or rng.randint(1, 8)
    ids = list(range(m))
    clist = _shuffled(rng, ids)
    n = rng.randint(1, m)
    vtype = rng.choices(['i', 'F', 'D'], [0.75, 0.2, 0.05])[0]
    if huge:
        vtype = 'i'
    # jump fraction
    jf, jft = None, 'F'
    r = rng.random()
    if vtype == 'D':
        r = min(r, 0.69)
    if r < 0.7:
        if rich:
            f = Fraction(*rng.choice(NICE + BIG + BIG)) if rng.random() < 0.8 else Fraction(rng.choice([0, 0, 1]))
        else:
            f = Fraction(*rng.choice(NICE)) if rng.random() < 0.9 else Fraction(rng.choice([0, 1]))
        if rich and rng.random() < 0.1:
            f = Fraction(rng.choice(FLOATS_NONDYADIC))       # the exact value of a non-dyadic double
        jf, jft = _pick_threshold_type(rng, f)
        # every combination of count type and parameter type is accepted since c90882d (exact rationals)
    # quota
    quota, qmode = None, 'name'
    if vtype != 'D' and rng.random() < 0.7:
        if rng.random() < 0.12:
            quota = 'const:' + num_str(Fraction(rng.randint(0, 20), rng.choice([1, 2])))
        else:
            quota = rng.choice(QUOTAS + ['hare', 'hare', 'droop'])
        qmode = pick_quota_mode(rng)
    if rich:
        qf, qft = rng.choice(QF_RICH)
        if rng.random() < 0.1:
            qf, qft = num_str(Fraction(rng.choice(FLOATS_NONDYADIC + [1.4]))), 'f'
    else:
        qf, qft = rng.choice([('1', 'i'), ('1', 'i'), ('1', 'F'), ('1/2', 'F'), ('1/2', 'F')])
    case = {'op': 'openlist', 'n': n, 'list': clist, 'jump_fraction': jf, '_jftype': jft, 'quota': quota,
            '_quota_mode': qmode, 'quota_fraction': qf, '_qftype': qft,
            'take_higher': rng.random() < 0.5, 'accept_equal': rng.random() < 0.5,
            'list_precedence': rng.random() < 0.5}
    # votes: total first, the threshold depends on the total and n only
    den = 1 if vtype == 'i' else rng.choice([1, 2, 4]) if vtype == 'D' else rng.choice([1, 2, 3])
    V = rng.randint(1, 12) * rng.choice([1, 1, n, n + 1, 20, 100, 10 ** 20]) * rng.choice([1, 2, 10])
    if huge:
        V = rng.randint(1, 12) * rng.choice(HUGE_K) * rng.choice([1, n, n + 1, 20])
    if rich and jf is not None and Fraction(jf).denominator > 1000 and vtype != 'D':
        V = Fraction(jf).denominator * rng.randint(1, 12) * rng.choice([1, 1, n + 1, 10 ** 20])   # t*V integral
    if rich and quota is not None and Fraction(qf).denominator > 1000 and vtype != 'D':
        # quota * quota_fraction integral: somebody can sit exactly on it
        V = Fraction(qf).denominator * n * (n + 1) * (n + 2) * rng.randint(1, 12) * rng.choice([1, 1, 10 ** 20])
        if jf is not None and rng.random() < 0.5:
            case['jump_fraction'], jf = None, None
    thr = open_threshold(case, Fraction(V))
    voters = list(ids)
    if rng.random() < 0.2 and m > 1:
        voters = rng.sample(ids, rng.randint(1, m))             # list members without any preference votes
    k = len(voters)
    if directed and thr is not None and 0 <= thr <= V and (thr * den).denominator == 1 and rng.random() < 0.85:
        scaled = boundary_values(rng, V * den, int(thr * den), k)
        scaled = (scaled + [0] * k)[:k] if len(scaled) < k else scaled
        if len(scaled) > k:
            scaled = scaled[:k - 1] + [sum(scaled[k - 1:])] if k > 1 else [sum(scaled)]
    else:
        scaled = split_total(rng, V * den, k)
        if rng.random() < 0.3 and k >= 2:
            scaled[1] = scaled[0]                                # equal votes
    vals = [Fraction(s, den) for s in scaled]
    if vtype == 'i':
        vals = [int(v) for v in vals]
    elif vtype == 'D':
        vals = [Decimal(v.numerator) / Decimal(v.denominator) for v in vals]
    pairs = list(zip(_shuffled(rng, voters), vals))
    tags = ['openlist']
    if rng.random() < 0.04:
        pairs.append((m, rng.choice(vals) if vals else 1))        # somebody who is not on the list
    case['votes'], case['_types'] = enc_votes(pairs)
    case['_tags'] = tags
    return _demote_inexact(case)


def gen_decimal_context(rng):
    """int votes, Decimal jump_fraction / quota_fraction, totals so large that total*fraction needs more than the 28
    significant digits of the default Decimal context, one candidate exactly on the exact threshold"""
    for _ in range(50):
        m = rng.randint(2, 5)
        ids = list(range(m))
        n = rng.randint(1, m - 1)
        use_q = rng.random() < 0.4
        p, q = rng.choice([(1, 20), (1, 4), (500001, 10 ** 7), (3, 100)])
        case = {'op': 'openlist', 'n': n, 'list': _shuffled(rng, ids), 'jump_fraction': None, '_jftype': 'F',
                'quota': None, '_quota_mode': pick_quota_mode(rng), 'quota_fraction': '1', '_qftype': 'i',
                'take_higher': False, 'accept_equal': rng.random() < 0.5, 'list_precedence': rng.random() < 0.5}
        if use_q:
            case['quota'] = 'droop'
            case['quota_fraction'], case['_qftype'] = num_str(Fraction(p, q)), 'D'
        else:
            case['jump_fraction'], case['_jftype'] = num_str(Fraction(p, q)), 'D'
        V = q * (n + 1) * (rng.choice([10 ** 30, 10 ** 28, 10 ** 40]) + rng.randint(1, 99))
        thr = open_threshold(case, Fraction(V))
        if thr.denominator != 1 or not (0 <= thr <= V):
            continue
        vals = _shuffled(rng, boundary_values(rng, V, int(thr), m))[:m]
        if sum(vals) != V:
            continue
        case['votes'], case['_types'] = enc_votes(list(zip(_shuffled(rng, ids), vals)))
        case['_tags'] = ['openlist']
        if arith_class(case) == 'decimal':
            return case
    return None


def gen_numeric(rng):
    """thresholds with denominators above 10^6 (Fraction and 7+ decimals), floats (dyadic and not), falsy thresholds,
    each with a candidate exactly on the boundary; totals up to 10^60"""
    kind = rng.choice(['rel_big', 'rel_big', 'rel_float', 'rel_float', 'abs_float', 'falsy', 'falsy', 'rel_huge', 'rel_huge'])
    eq = rng.random() < 0.5
    if kind in ('rel_big', 'rel_float', 'rel_huge'):
        if kind == 'rel_big':
            t = Fraction(*rng.choice(BIG))
            tt = rng.choice(['D', 'F']) if dec_ok(t) else 'F'
            k = rng.randint(1, 12) * rng.choice([1, 1, 10 ** 6, 10 ** 25])
        elif kind == 'rel_float':
            t = Fraction(rng.choice(FLOATS_DYADIC + FLOATS_NONDYADIC))
            tt = 'f'
            k = rng.randint(1, 12)
        else:
            t = Fraction(*rng.choice(NICE + BIG))
            tt = rng.choice(['D', 'F']) if dec_ok(t) else 'F'
            k = rng.choice(HUGE_K) * rng.randint(1, 3)
        V, on = t.denominator * k, t.numerator * k
        vals = _shuffled(rng, boundary_values(rng, V, on, rng.randint(2, 6)))
        if tt == 'f' and rng.random() < 0.3:
            # the decimal reading of a non-dyadic float: 5 of 100 is NOT on the threshold 0.05 (a double slightly above)
            vals = [5, 95] if t == Fraction(0.05) else vals
        votes, types = enc_votes(list(enumerate(vals)))
        return {'op': 'rel_threshold', 'votes': votes, '_types': types, 'threshold': num_str(t), '_ttype': tt,
                'accept_equal': eq, '_tags': ['numeric']}
    if kind == 'abs_float':
        x = rng.choice([2.5, 1.4, 0.1, 3.0, 0.0])
        vals = [rng.choice([x, Fraction(x), Decimal(x), Fraction(x) + 1, Fraction(x) - Fraction(1, 10 ** 12), 2, 0])
                for _ in range(rng.randint(1, 6))]
        votes, types = enc_votes(list(enumerate(vals)))
        return {'op': 'abs_threshold', 'votes': votes, '_types': types, 'threshold': num_str(Fraction(x)), '_ttype': 'f',
                'accept_equal': eq, '_tags': ['numeric']}
    # falsy thresholds 0, Fraction(0), Decimal('0'), 0.0 with zero-vote candidates
    m = rng.randint(2, 6)
    vals = [0, 0] + [rng.randint(0, 9) for _ in range(m - 2)]
    if sum(vals) == 0:
        vals.append(4)
    votes, types = enc_votes(list(enumerate(_shuffled(rng, vals))))
    return {'op': rng.choice(['rel_threshold', 'abs_threshold']), 'votes': votes, '_types': types, 'threshold': '0',
            '_ttype': rng.choice(['i', 'F', 'D', 'f']), 'accept_equal': eq, '_tags': ['numeric']}


def gen_falsy_openlist(rng):
    """jump_fraction / quota_fraction given as 0, Fraction(0), Decimal('0'): the threshold is zero, every candidate with
    votes jumps (and the zero-vote ones too when equality is accepted)"""
    c = gen_openlist(rng, directed=False)
    if rng.random() < 0.5 or c['quota'] is None:
        c['jump_fraction'], c['_jftype'] = '0', rng.choice(['i', 'F', 'D', 'f'])
    else:
        c['quota_fraction'], c['_qftype'] = '0', rng.choice(['i', 'F', 'D', 'f'])
    if c['votes'] and rng.random() < 0.7:
        c['votes'][-1][1] = '0'
        if len(c['votes']) > 2:
            c['votes'][0][1] = '0'
    return _demote_inexact(c)


def gen_struct(rng):
    """ties of 3+ members from which 2+ seats are drawn; two or more zero-vote candidates; lists and votes that do not
    name the same people"""
    kind = rng.choice(['tie3', 'tie3', 'zeros_rel', 'zeros_open', 'mismatch'])
    if kind == 'tie3':
        a, L = rng.randint(0, 2), rng.randint(3, 5)
        d = rng.randint(2, L - 1)
        below = rng.randint(0, 2)
        vals = [5 + i for i in range(a)] + [3] * L + [rng.randint(0, 2) for _ in range(below)]
        ids = list(range(len(vals)))
        pairs = list(zip(_shuffled(rng, ids), vals))
        votes, types = enc_votes(pairs)
        return {'op': 'tiebreak', 'votes': votes, '_types': types, 'n': a + d, 'list': _shuffled(rng, ids),
                'inner': 'plurality', 'accept_equal': True, '_tags': ['tiebreak', 'struct']}
    if kind == 'zeros_rel':
        c = gen_rel_boundary(rng)
        k = len(c['votes'])
        c['votes'] += [[k, '0'], [k + 1, '0']]
        c['_types'] += ['i', 'i']
        c['_tags'] = ['rel_boundary', 'struct']
        return c
    c = gen_openlist(rng)
    m = max(list(c['list']) + [i for i, _ in c['votes']]) + 1          # fresh ids
    if kind == 'zeros_open':
        c['votes'] += [[m, '0'], [m + 1, '0']]
        c['_types'] += [c['_types'][0] if c['_types'] else 'i'] * 2
        c['list'] = _shuffled(rng, c['list'] + [m, m + 1])
    else:
        # the list names two people without votes, and a voter is missing from the list
        c['list'] = _shuffled(rng, c['list'] + [m, m + 1])
        if c['votes']:
            c['votes'].append([m + 2, c['votes'][0][1]])
            c['_types'].append(c['_types'][0])
    c['_tags'] = ['openlist', 'struct']
    return _demote_inexact(c)


NONDIVIDING_QUOTAS = ['droop', 'hagenbach_bischoff', 'hagenbach_bischoff_ceil', 'hagenbach_bischoff_rounded', 'imperiali']


def gen_multi(rng):
    """multiplicity of the rare event: three candidates exactly on the threshold at once; four to six candidates level at
    the cut contesting three or more places; thresholds outside the usual range"""
    kind = rng.choice(['three_rel', 'three_abs', 'three_open', 'three_open', 'three_qs', 'level_tb', 'level_tb', 'level_qs',
                       'level_break', 'range', 'range'])
    eq = rng.random() < 0.5
    if kind in ('three_rel', 'three_abs'):
        p, q = rng.choice([(1, 20), (1, 10), (1, 8), (3, 100), (500001, 10 ** 7)])
        k = rng.randint(1, 9) * rng.choice([1, 1, 10 ** 6, 2 ** 53])
        V, on = q * k, p * k
        others = split_total(rng, V - 3 * on, rng.randint(1, 3))
        vals = _shuffled(rng, [on, on, on] + others)
        votes, types = enc_votes(list(enumerate(vals)))
        if kind == 'three_rel':
            ts, tt = _pick_threshold_type(rng, Fraction(p, q))
            return {'op': 'rel_threshold', 'votes': votes, '_types': types, 'threshold': ts, '_ttype': tt,
                    'accept_equal': eq, '_tags': ['multi']}
        ts, tt = _pick_threshold_type(rng, Fraction(on))
        return {'op': 'abs_threshold', 'votes': votes, '_types': types, 'threshold': ts, '_ttype': tt,
                'accept_equal': eq, '_tags': ['multi']}
    if kind == 'three_open':
        for _ in range(30):
            c = gen_openlist(rng, rich=rng.random() < 0.3)
            tot = sum(fvotes(c['votes']).values())
            thr = open_threshold(c, tot)
            if thr is None or thr.denominator != 1 or thr < 0 or 3 * thr > tot or set(c['_types']) != {'i'}:
                continue
            m = max(len(c['list']), 4)
            ids = list(range(m))
            vals = _shuffled(rng, [int(thr)] * 3 + split_total(rng, int(tot - 3 * thr), m - 3))
            c['list'] = _shuffled(rng, ids)
            c['n'] = rng.randint(1, m)
            if c['quota'] is not None and not c['quota'].startswith('const:'):
                continue                    # the quota depends on n: keep only cases whose threshold is n-free
            c['votes'], c['_types'] = enc_votes(list(zip(_shuffled(rng, ids), vals)))
            c['_tags'] = ['openlist', 'multi']
            return c
        return gen_openlist(rng)
    if kind == 'three_qs':
        n = rng.randint(1, 4)
        qn = rng.choice(['hare', 'droop', 'hagenbach_bischoff'])
        V = (n + 1) * n * rng.randint(3, 12)
        q = quota_value(qn, V, n)
        if q.denominator != 1 or 3 * q > V:
            q = Fraction(V // 4)
            qn = 'const:' + num_str(q)
        vals = _shuffled(rng, [int(q)] * 3 + split_total(rng, int(V - 3 * q), rng.randint(1, 3)))
        votes, types = enc_votes(list(enumerate(vals)))
        qn2 = qn if not qn.startswith('const:') else 'hare'
        if qn.startswith('const:'):
            # the C09 handler takes a plain number as a constant quota
            return {'op': 'tiebreak', 'votes': votes, '_types': types, 'n': n, 'list': _shuffled(rng, range(len(vals))),
                    'inner': qn, '_quota_mode': 'name', 'accept_equal': eq, '_tags': ['tiebreak', 'multi']}
        return {'op': 'quota_selector', 'votes': votes, '_types': types, 'n': n, 'quota': qn2,
                '_quota_mode': pick_quota_mode(rng), 'accept_equal': eq,
                'on_more': rng.choice(['select', 'select', 'error']), '_tags': ['quota_selector', 'multi']}
    if kind in ('level_tb', 'level_qs'):
        a, L = rng.randint(0, 2), rng.randint(4, 6)
        d = rng.randint(3, L - 1)
        below = rng.randint(0, 2)
        vals = [7 + i for i in range(a)] + [4] * L + [rng.randint(0, 3) for _ in range(below)]
        ids = list(range(len(vals)))
        votes, types = enc_votes(list(zip(_shuffled(rng, ids), vals)))
        if kind == 'level_tb':
            inner = rng.choice(['plurality', 'plurality', 'const:4', 'const:1'])
            return {'op': 'tiebreak', 'votes': votes, '_types': types, 'n': a + d, 'list': _shuffled(rng, ids),
                    'inner': inner, '_quota_mode': 'name', 'accept_equal': True, '_tags': ['tiebreak', 'multi']}
        return {'op': 'quota_selector', 'votes': votes, '_types': types, 'n': a + d, 'quota': 'imperiali',
                '_quota_mode': pick_quota_mode(rng), 'accept_equal': eq, 'on_more': 'select',
                '_tags': ['quota_selector', 'multi']}
    if kind == 'level_break':
        m = rng.randint(5, 8)
        breaker = _shuffled(rng, range(m))
        pool = _shuffled(rng, range(m))
        L = rng.randint(4, min(6, m))
        tie = sorted(pool[:L])
        rest = pool[L:]
        el = rest[:rng.randint(0, len(rest))] + [{'tie': tie}] * rng.randint(3, L - 1)
        if len(rest) >= 2 and rng.random() < 0.4:
            el = _shuffled(rng, el + [{'tie': sorted(rest[-2:])}])
        return {'op': 'break_by_list', 'elected': el, 'breaker': breaker, '_tags': ['break_by_list', 'multi']}
    # thresholds outside the usual range but inside the documented one
    sub = rng.choice(['rel', 'abs', 'open'])
    if sub in ('rel', 'abs'):
        c = gen_rel_boundary(rng) if sub == 'rel' else gen_abs(rng)
        t = rng.choice([Fraction(3, 2), Fraction(-1, 10), Fraction(1), Fraction(-1)])
        c['threshold'], c['_ttype'] = _pick_threshold_type(rng, t)
        k = max([i for i, _ in c['votes']] + [-1]) + 1
        c['votes'] = c['votes'] + [[k, '0']]              # a zero-vote candidate: a negative threshold passes it
        c['_types'] = list(c['_types']) + ['i']
        c['_tags'] = ['multi']
        return c
    c = gen_openlist(rng)
    if rng.random() < 0.5 or c['quota'] is None:
        c['jump_fraction'], c['_jftype'] = _pick_threshold_type(rng, rng.choice([Fraction(3, 2), Fraction(-1, 10), Fraction(1)]))
    else:
        c['quota_fraction'], c['_qftype'] = _pick_threshold_type(rng, rng.choice([Fraction(5, 2), Fraction(-1, 2), Fraction(100)]))
    c['_tags'] = ['openlist', 'multi']
    return c


def gen_args(rng):
    """every evaluate() argument at its edges, on configured objects: n_seats = 0 / = len(list) / > len(list);
    AlternativeThresholds called without prev_gains; PreviousGainThreshold with an empty votes dict"""
    kind = rng.choice(['zero_open', 'zero_open', 'zero_tb', 'zero_qs', 'n_len', 'n_more', 'alt_noprev', 'prev_empty_votes'])
    if kind in ('zero_open', 'n_len', 'n_more'):
        c = gen_openlist(rng, rich=rng.random() < 0.3)
        c['n'] = 0 if kind == 'zero_open' else len(c['list']) if kind == 'n_len' else len(c['list']) + rng.randint(1, 3)
        return c
    if kind == 'zero_tb':
        c = gen_tiebreak(rng)
        if c['inner'] in ('hare', 'hare_rounded'):
            c['inner'] = 'droop'
        c['n'] = 0
        return c
    if kind == 'zero_qs':
        c = gen_quota_selector(rng)
        c['quota'] = rng.choice(NONDIVIDING_QUOTAS)
        c['n'] = 0
        return c
    if kind == 'alt_noprev':
        c = gen_seatless(rng, force='alt')
        c['prev'] = []
        c['_no_prev_kwarg'] = True
        return c
    c = gen_seatless(rng, force='prev')
    if c['sel']['k'] == 'prev' and c['prev']:
        c['votes'], c['_types'] = [], []
    return c


INPUT_KEYS = {'abs_threshold': ['votes', '_types'], 'rel_threshold': ['votes', '_types'],
              'quota_selector': ['votes', '_types', 'n'], 'openlist': ['votes', '_types', 'n', 'list'],
              'tiebreak': ['votes', '_types', 'n', 'list'],
              'seatless': ['votes', '_types', 'prev', 'members', 'props', '_styles']}
CONFIG_KEYS = {'abs_threshold': ['threshold', '_ttype', 'accept_equal'], 'rel_threshold': ['threshold', '_ttype', 'accept_equal'],
               'quota_selector': ['quota', '_quota_mode', 'accept_equal', 'on_more'],
               'openlist': ['jump_fraction', '_jftype', 'quota', '_quota_mode', 'quota_fraction', '_qftype', 'take_higher',
                            'accept_equal', 'list_precedence'],
               'tiebreak': ['inner', '_quota_mode', 'accept_equal'], 'seatless': ['sel', '_prop_name']}


def gen_twice(rng):
    """the same object evaluated twice (other inputs first), optionally after a differently configured object"""
    g = rng.choice([gen_rel_boundary, gen_abs, gen_seatless, gen_quota_selector, gen_openlist, gen_openlist, gen_tiebreak])
    c, o = g(rng), g(rng)
    if rng.random() < 0.25 and c['op'] == 'openlist':
        # first an evaluation that raises: more jumpers than seats, list precedence, a jumper who is not on the list
        c['list_precedence'] = True
        if c['jump_fraction'] is None and c['quota'] is None:
            c['jump_fraction'], c['_jftype'] = '1/10', 'F'
        c['_warm'] = {'votes': [[0, '40'], [1, '30'], [99, '30']], '_types': ['i', 'i', 'i'], 'n': 1, 'list': [0, 1]}
        c['accept_equal'] = True
        if c['quota'] is not None:
            c['quota'], c['quota_fraction'], c['_qftype'] = 'hare', '1/10', 'F'
    else:
        c['_warm'] = {k: o[k] for k in INPUT_KEYS[c['op']] if k in o}
    if rng.random() < 0.5:
        c['_warm_cfg'] = {k: o[k] for k in CONFIG_KEYS[c['op']] if k in o}
    if rng.random() < 0.5:
        o2 = g(rng)
        c['_after'] = {k: o2[k] for k in INPUT_KEYS[c['op']] if k in o2}
    return _demote_inexact(c)


def gen_tiebreak(rng):
    m = rng.randint(1, 8)
    ids = list(range(m))
    clist = _shuffled(rng, ids)
    base = rng.randint(0, 3)
    vals = [base + rng.choice([0, 0, 0, 1, 2]) for _ in ids]
    if rng.random() < 0.2:
        vals = [Fraction(v, 2) for v in vals]
    n = rng.randint(1, m)
    pairs = list(zip(_shuffled(rng, ids), vals))
    tags = ['tiebreak']
    if rng.random() < 0.05 and m > 1:
        clist = clist[:-1]
    votes, types = enc_votes(pairs)
    case = {'op': 'tiebreak', 'votes': votes, '_types': types, 'n': n, 'list': clist, 'inner': 'plurality',
            'accept_equal': True, '_tags': tags}
    if rng.random() < 0.3:
        case['inner'] = rng.choice(['hare', 'droop', 'hagenbach_bischoff', 'imperiali', 'const:1', 'const:0'])
        case['_quota_mode'] = pick_quota_mode(rng)
        case['accept_equal'] = rng.random() < 0.5
    return case


def gen_quota_shape(rng, op, mode):
    """a class taking a quota function (ThresholdOpenList, QuotaSelector, the QuotaSelector under ListOrderTieBreaker)
    handed a caller-written callable of shape `mode` (USER_QUOTA_MODES) standing for a library quota or a constant"""
    if op == 'quota_selector':
        c = gen_quota_selector(rng)
    elif op == 'openlist':
        c = gen_openlist(rng)
        for _ in range(20):
            if c.get('quota') is not None:
                break
            c = gen_openlist(rng)
        if c.get('quota') is None:
            c['quota'] = 'hare'
    else:
        c = gen_tiebreak(rng)
        if c['inner'] == 'plurality':
            c['inner'] = rng.choice(['hare', 'droop', 'hagenbach_bischoff', 'imperiali', 'const:1'])
            c['accept_equal'] = rng.random() < 0.5
    c['_quota_mode'] = mode
    return c


def gen_break(rng):
    m = rng.randint(2, 8)
    breaker = _shuffled(rng, range(m))
    pool = _shuffled(rng, range(m))
    el = []
    k = rng.randint(0, m - 2)
    el += pool[:k]
    rest = pool[k:]
    if rng.random() < 0.8:
        tie = rest[:rng.randint(2, len(rest))]
        el += [{'tie': sorted(tie)}] * rng.randint(1, len(tie) - 1)
    else:
        # two different ties, interleaved
        h = max(1, len(rest) // 2)
        t1, t2 = rest[:h], rest[h:]
        slots = [{'tie': sorted(t1)}] * rng.randint(1, len(t1)) + ([{'tie': sorted(t2)}] * rng.randint(1, len(t2)) if t2 else [])
        el += _shuffled(rng, slots)
    return {'op': 'break_by_list', 'elected': el, 'breaker': breaker, '_tags': ['break_by_list']}


def gen_alt_ranks(rng):
    m = rng.randint(1, 7)
    results = []
    for _ in range(rng.randint(1, 4)):
        results.append(rng.sample(range(m), rng.randint(0, m)))
    return {'op': 'alt_ranks', 'results': results, '_tags': ['alternative', 'alt_ranks']}


def gen_edge(rng):
    """empty dicts, zero totals, more seats than list members"""
    k = rng.choice(['empty', 'zero', 'long_n', 'zero_open'])
    eq = rng.random() < 0.5
    if k == 'empty':
        op = rng.choice(['abs_threshold', 'rel_threshold'])
        return {'op': op, 'votes': [], '_types': [], 'threshold': rng.choice(['0', '1/20', '1']), '_ttype': 'F',
                'accept_equal': eq, '_tags': ['edge']}
    if k == 'zero':
        m = rng.randint(1, 4)
        return {'op': 'rel_threshold', 'votes': [[i, '0'] for i in range(m)], '_types': ['i'] * m,
                'threshold': rng.choice(['0', '1/20']), '_ttype': 'F', 'accept_equal': eq, '_tags': ['edge']}
    c = gen_openlist(rng)
    if k == 'long_n':
        c['n'] = len(c['list']) + rng.randint(1, 2)
    else:
        c['votes'] = [[i, '0'] for i, _ in c['votes']]
        c['_types'] = ['i'] * len(c['votes'])
        if rng.random() < 0.3:
            c['votes'], c['_types'] = [], []
    c['_tags'] = ['edge', 'openlist']
    return c


def _gen(rng, tier):
    scale = 8 if tier == 'quick' else 100
    for _ in range(500 * scale):
        yield gen_rel_boundary(rng)
    for _ in range(250 * scale):
        yield gen_rel_random(rng)
    for _ in range(400 * scale):
        yield gen_abs(rng)
    for _ in range(700 * scale):
        yield gen_seatless(rng)
    for force in ('alt', 'coalition', 'property', 'prev'):
        for _ in range(40 * scale):
            yield gen_seatless(rng, force=force)
    for _ in range(400 * scale):
        yield gen_quota_selector(rng)
    for _ in range(1500 * scale):
        yield gen_openlist(rng)
    for m in range(1, 9):
        for _ in range(20 * scale):
            yield gen_openlist(rng, m=m)
    for _ in range(300 * scale):
        yield gen_openlist(rng, directed=False)
    for _ in range(400 * scale):
        yield gen_tiebreak(rng)
    for _ in range(200 * scale):
        yield gen_break(rng)
    for _ in range(60 * scale):
        yield gen_edge(rng)
    for _ in range(150 * scale):
        yield gen_alt_ranks(rng)
    # audit dimensions (GENERATOR_CHECKLIST): numeric types, magnitudes, structure, state, parameters
    for _ in range(150 * scale):
        yield gen_numeric(rng)
    for _ in range(300 * scale):
        yield gen_openlist(rng, rich=True)
    for _ in range(100 * scale):
        yield gen_openlist(rng, rich=rng.random() < 0.5, huge=True)
    for _ in range(60 * scale):
        yield gen_falsy_openlist(rng)
    for _ in range(40 * scale):
        yield gen_rel_boundary(rng, huge=True)
    for _ in range(40 * scale):
        yield gen_quota_selector(rng, huge=True)
    for _ in range(120 * scale):
        yield gen_struct(rng)
    for _ in range(250 * scale):
        yield gen_property_kinds(rng)
    for _ in range(220 * scale):
        yield gen_multi(rng)
    for _ in range(160 * scale):
        yield gen_args(rng)
    for _ in range(200 * scale):
        yield gen_twice(rng)
    for op in ('openlist', 'quota_selector', 'tiebreak'):
        for mode in USER_QUOTA_MODES:
            for _ in range(3 * scale):
                yield gen_quota_shape(rng, op, mode)
    for _ in range(12 * scale):
        c = gen_decimal_context(rng)
        if c is not None:
            yield c
    # the witnesses of the two repaired defects, always
    yield {'op': 'rel_threshold', 'votes': [[0, '5'], [1, '95']], '_types': ['i', 'i'], 'threshold': '1/20', '_ttype': 'F',
           'accept_equal': True, '_tags': ['rel_boundary', 'rel_boundary_5pct']}
    yield {'op': 'openlist', 'n': 2, 'list': [0, 1, 2], 'jump_fraction': None, '_jftype': 'F', 'quota': 'hare',
           '_quota_mode': 'name', 'quota_fraction': '1', '_qftype': 'i', 'take_higher': False, 'accept_equal': False,
           'list_precedence': False, 'votes': [[0, '10'], [1, '20'], [2, '70']], '_types': ['i', 'i', 'i'], '_tags': ['openlist']}
    if tier == 'thorough':
        yield from _exhaustive()
        yield from _exhaustive2()


def _exhaustive():
    """small scope, complete: relative/absolute thresholds over {0,1,2,3}^<=4 with thresholds on every attainable
    share, both accept_equal; open lists of <=4 members, votes in {0,1,2}, every switch combination"""
    for m in range(1, 5):
        for vals in itertools.product([0, 1, 2, 3], repeat=m):
            tot = sum(vals)
            ths = sorted({Fraction(v, tot) for v in vals} | {Fraction(1, 2)}) if tot else [Fraction(1, 2)]
            for t in ths:
                for eq in (True, False):
                    votes, types = enc_votes(list(enumerate(vals)))
                    yield {'op': 'rel_threshold', 'votes': votes, '_types': types, 'threshold': num_str(t),
                           '_ttype': 'F', 'accept_equal': eq, '_tags': ['exhaustive']}
            for t in (0, 1, 2):
                for eq in (True, False):
                    votes, types = enc_votes(list(enumerate(vals)))
                    yield {'op': 'abs_threshold', 'votes': votes, '_types': types, 'threshold': str(t),
                           '_ttype': 'i', 'accept_equal': eq, '_tags': ['exhaustive']}
    for m in range(1, 5):
        for vals in itertools.product([0, 1, 2], repeat=m):
            for clist in ([list(range(m))] if m < 3 else [list(range(m)), list(reversed(range(m))), [1, 0] + list(range(2, m))]):
                for n in range(1, m + 1):
                    for jf, quota, qf in ((None, None, '1'), ('1/4', None, '1'), (None, 'hare', '1'), (None, 'droop', '1/2'),
                                          ('1/2', 'hare', '1'), ('1/3', 'hagenbach_bischoff', '1/2')):
                        for th, eq, lp in itertools.product((False, True), repeat=3):
                            if jf is None or quota is None:
                                if th:
                                    continue
                            votes, types = enc_votes(list(enumerate(vals)))
                            yield {'op': 'openlist', 'n': n, 'list': clist, 'jump_fraction': jf, '_jftype': 'F',
                                   'quota': quota, '_quota_mode': 'name', 'quota_fraction': qf,
                                   '_qftype': 'F' if qf != '1' else 'i', 'take_higher': th, 'accept_equal': eq,
                                   'list_precedence': lp, 'votes': votes, '_types': types, '_tags': ['exhaustive', 'openlist']}


def _exhaustive2():
    """list tie-break and quota selector, complete over small scopes"""
    for m in range(1, 5):
        for vals in itertools.product([0, 1, 2], repeat=m):
            votes, types = enc_votes(list(enumerate(vals)))
            for clist in itertools.permutations(range(m)):
                for n in range(1, m + 1):
                    yield {'op': 'tiebreak', 'votes': votes, '_types': types, 'n': n, 'list': list(clist),
                           'inner': 'plurality', 'accept_equal': True, '_tags': ['exhaustive', 'tiebreak']}
            for n in range(1, m + 1):
                for qn in ('hare', 'droop', 'hagenbach_bischoff'):
                    for eq in (True, False):
                        for om in ('select', 'error'):
                            yield {'op': 'quota_selector', 'votes': votes, '_types': types, 'n': n, 'quota': qn,
                                   '_quota_mode': 'name', 'accept_equal': eq, 'on_more': om,
                                   '_tags': ['exhaustive', 'quota_selector']}
                        yield {'op': 'tiebreak', 'votes': votes, '_types': types, 'n': n, 'list': list(range(m)),
                               'inner': qn, '_quota_mode': 'name', 'accept_equal': eq, '_tags': ['exhaustive', 'tiebreak']}


def _quota_mode_tags(tags, c, qname):
    """how the quota function reaches the class: by name, as the library function object, as quota.constant, or as a
    caller-written callable (quota_by_<shape>, and quota_user:<op> per class taking a quota function)"""
    mode = c.get('_quota_mode')
    if mode in USER_QUOTA_MODES:
        tags.append('quota_by_' + mode)
        tags.append('quota_user:' + c['op'])
        if qname.startswith('const:'):
            tags.append('quota_user_constant')
    elif qname.startswith('const:'):
        tags.append('quota_constant')
    else:
        tags.append('quota_by_callable' if mode == 'callable' else 'quota_by_name')


def _num_tags(tags, value_str, tt, what, on_boundary):
    """numeric type / size of one parameter `what` (threshold, jump_fraction, quota_fraction)"""
    f = Fraction(value_str)
    if tt == 'f':
        tags.append('float_' + what)
        if f.denominator & (f.denominator - 1) == 0 and f.denominator <= 2 ** 10:
            tags.append('float_dyadic')
        else:
            tags.append('float_nondyadic')
    if f == 0:
        tags.append('falsy_' + what)
        tags.append('falsy_' + what + ':' + tt)
    if f.denominator > 10 ** 6 and tt != 'f':
        tags.append('bigden_' + what)
        if on_boundary:
            tags.append('bigden_on_threshold')
            if tt == 'D':
                tags.append('decimal7_on_threshold')


def _size_tags(tags, votes, thr):
    """magnitude of the counts and how close somebody is to the boundary"""
    tot = sum(votes.values())
    if tot > 2 ** 53:
        tags.append('beyond_2_53')
    if tot >= 10 ** 28:
        tags.append('beyond_1e28')
    if thr is not None and tot > 2 ** 53:
        if any(v == thr for v in votes.values()):
            tags.append('huge_on_boundary')
        if any(abs(v - thr) == 1 for v in votes.values()):
            tags.append('huge_one_off_boundary')
    if sum(1 for v in votes.values() if v == 0) >= 2:
        tags.append('two_zero_vote')


def _multi_tags(tags, votes, thr):
    k = sum(1 for v in votes.values() if v == thr) if thr is not None else 0
    if k >= 2:
        tags.append('multi_on_threshold')
    if k >= 3:
        tags.append('three_on_threshold')


def _level_tags(tags, votes, n, what):
    """four or more candidates level at the cut contesting three or more places"""
    if 0 < n < len(votes):
        tau = sorted(votes.values(), reverse=True)[n - 1]
        level = sum(1 for v in votes.values() if v == tau)
        above = sum(1 for v in votes.values() if v > tau)
        if above + level > n and level >= 4 and n - above >= 3:
            tags.append('level4_places3')
            tags.append('level4_places3:' + what)


def _sens(tags, case, spec, param, default, key=None):
    """tag sens:<param> when the non-default value of a constructor parameter changes what the property determines"""
    key = key or param
    if case.get(key) == default:
        return
    other = dict(case)
    other[key] = default
    try:
        if spec(other) != spec(case):
            tags.append('sens:' + param)
    except (SpecErr, ZeroDivisionError):
        pass


def _posthoc_tags(c):
    """counters reflect what a case actually exercises"""
    tags = c['_tags']
    op = c['op']

    def ttype_tag(tt):
        tags.append({'D': 'decimal_threshold', 'i': 'int_threshold', 'F': 'fraction_threshold', 'f': 'float_threshold'}[tt])

    def on_tag(hit, eq):
        if hit:
            tags.append('on_threshold_eq' if eq else 'on_threshold_noeq')

    if c.get('_after'):
        tags.append('result_kept_after_next_call')
    if c.get('_no_prev_kwarg'):
        tags.append('alt_default_prev_gains')
    if c.get('n') == 0 and op in ('openlist', 'tiebreak', 'quota_selector'):
        tags.append('zero_seats')
        tags.append('zero_seats:' + op)
    if c.get('_warm'):
        tags.append('called_twice')
    if c.get('_warm_cfg'):
        tags.append('other_config_first')
    if any(t == 'f' for t in c.get('_types') or []):
        tags.append('float_counts')

    if op in ('abs_threshold', 'rel_threshold'):
        votes = fvotes(c['votes'])
        t = Fraction(c['threshold'])
        ttype_tag(c.get('_ttype', 'F'))
        if op == 'abs_threshold':
            hit = any(v == t for v in votes.values())
            on_tag(hit, c['accept_equal'])
            _multi_tags(tags, votes, t)
            tags.append(f"thr:{c.get('_ttype', 'F')}:{'eq' if c['accept_equal'] else 'noeq'}")
            if not (0 <= t):
                tags.append('threshold_out_of_range')
            _num_tags(tags, c['threshold'], c.get('_ttype', 'F'), 'threshold', hit)
            _size_tags(tags, votes, t)
            if hit and not c['accept_equal']:
                tags.append('sens:accept_equal')
        else:
            tot = sum(votes.values())
            hit = tot != 0 and any(v / tot == t for v in votes.values())
            on_tag(hit, c['accept_equal'])
            _multi_tags(tags, votes, t * tot)
            tags.append(f"thr:{c.get('_ttype', 'F')}:{'eq' if c['accept_equal'] else 'noeq'}")
            if not (0 <= t <= 1):
                tags.append('threshold_out_of_range')
            _num_tags(tags, c['threshold'], c.get('_ttype', 'F'), 'threshold', hit)
            _size_tags(tags, votes, t * tot)
            if hit and not c['accept_equal']:
                tags.append('sens:accept_equal')
    elif op == 'seatless':
        for leaf in sel_leaves(c['sel']):
            ttype_tag(leaf.get('ty', 'F'))
        votes = fvotes(c['votes'])
        prev = fvotes(c['prev']) if c.get('prev') is not None else {}
        members = dict(map(tuple, c.get('members') or []))
        props = dict(map(tuple, c.get('props') or []))
        kinds = sel_kinds(c['sel'])
        if 'prev' in kinds and any(i not in votes for i in prev):
            tags.append('prev_absent')
        if c['sel']['k'] == 'prev' and not votes and prev:
            tags.append('prev_with_empty_votes')
        if sum(1 for v in votes.values() if v == 0) >= 2:
            tags.append('two_zero_vote')
        if c.get('_prop_name') == 'region':
            tags.append('property_name_nondefault')
        sel = c['sel']
        pv = prev if sel_accepts_prev(sel) else None

        def ev(sel2, props2=props):
            try:
                return sorted(spec_eval(sel2, votes, pv, members, props2)[0])
            except SpecErr as e:
                return str(e)
        base = ev(sel)
        if sel['k'] == 'coalition' and sel['evs'] and ev(dict(sel, evs=[])) != base:
            tags.append('sens:coalition_evaluators')
        if sel['k'] == 'property':
            if sel['evs'] and ev(dict(sel, evs=[])) != base:
                tags.append('sens:property_evaluators')
            if sel['default'] is not None and ev(dict(sel, default=None)) != base:
                tags.append('sens:property_default')
            if c.get('_prop_name') and ev(sel, {i: decoy_prop(props.get(i)) for i in votes}) != base:
                tags.append('sens:property_name')
        # how each candidate exposes the property, counted when its own bracket and the default bracket disagree on it
        pnode = sel if sel['k'] == 'property' else next((x for x in (sel.get('parts') or []) if x and x['k'] == 'property'), None) \
            if sel['k'] == 'alt' else None
        if pnode is not None:
            styles = dict(map(tuple, c.get('_styles') or []))
            evs = {kk: x for kk, x in pnode['evs']}

            def verdict(x, cand):
                if x is None:
                    return True
                try:
                    return cand in spec_eval(x, votes, None, members, props)[0]
                except SpecErr:
                    return None
            for cand in votes:
                pv_ = props.get(cand)
                own = evs.get(pv_, pnode['default']) if pv_ is not None else pnode['default']
                differs = pv_ is not None and verdict(own, cand) != verdict(pnode['default'], cand)
                if c.get('_prop_name') == 'is_coalition':
                    kind = 'coalition' if members.get(cand, 1) > 1 else styles.get(cand, 'party')
                    if kind == 'coalition' and differs:
                        tags.append('prop_of_coalition')
                    elif kind == 'bare' and differs:
                        tags.append('prop_via_class_attribute')
                    elif kind in ('party', 'person') and verdict(evs.get(0, pnode['default']), cand) != verdict(pnode['default'], cand):
                        tags.append('prop_shadowed_by_properties_dict')
                    continue
                if pv_ is None:
                    if any(verdict(x, cand) != verdict(pnode['default'], cand) for x in evs.values()):
                        tags.append('prop_missing')
                    continue
                if not differs:
                    continue
                if members.get(cand, 1) > 1:
                    tags.append('prop_of_coalition_instance_attribute')
                else:
                    tags.append({'party': 'prop_via_dict', 'bare': 'prop_via_instance_attribute', 'plain': 'prop_via_instance_attribute',
                                 'classattr': 'prop_via_class_attribute', 'pyproperty': 'prop_via_property',
                                 'namedtuple': 'prop_via_namedtuple'}[styles.get(cand, 'party')])
        if sel['k'] == 'alt' and len(sel['parts']) > 1 and ev(dict(sel, parts=sel['parts'][:1])) != base:
            tags.append('sens:partials')
        if sel['k'] == 'prev' and pv is not None and ev(sel['inner']) != base:
            tags.append('sens:prev_gain_selector')
    elif op == 'quota_selector':
        votes = fvotes(c['votes'])
        q = quota_value(c['quota'], sum(votes.values()), c['n'])
        on_tag(any(v == q for v in votes.values()), c['accept_equal'])
        _quota_mode_tags(tags, c, c['quota'])
        _multi_tags(tags, votes, q)
        if c['on_more'] == 'select':
            _level_tags(tags, {x: v for x, v in votes.items() if passes(v, q, c['accept_equal'])}, c['n'], 'quota_selector')
        _size_tags(tags, votes, q)
        _sens(tags, c, spec_quota_selector, 'qs_quota_function', 'droop', 'quota')
        _sens(tags, c, spec_quota_selector, 'qs_accept_equal', True, 'accept_equal')
        _sens(tags, c, spec_quota_selector, 'qs_on_more_over_quota', 'error', 'on_more')
    elif op == 'openlist' and c['n'] == 0:
        if c.get('quota') in ('hare', 'hare_rounded'):
            tags.append('zero_seats_quota_divides_by_seats')
    elif op == 'openlist':
        votes = fvotes(c['votes'])
        thr = open_threshold(c, sum(votes.values()))
        ac = arith_class(c)
        if ac == 'decimal':
            tags.append('decimal_context_inexact')      # the input class of the defect repaired by c90882d
        elif ac == 'float':
            tags.append('float_arith_inexact')
        vt = set(c.get('_types') or [])
        pt = {c.get('_jftype') if c.get('jump_fraction') is not None else None,
              c.get('_qftype') if c.get('quota') is not None else None}
        if 'F' in vt and 'D' in pt:
            tags.append('mixed_F_votes_D_param')
        if 'D' in vt and ('F' in pt or 'f' in pt):
            tags.append('mixed_D_votes_F_param')
        if any(i not in votes for i in c['list']):
            tags.append('list_member_without_votes')
        if any(i not in c['list'] for i in votes):
            tags.append('off_list')
        if c['n'] > len(c['list']):
            tags.append('more_seats_than_list')
        hit = thr is not None and any(v == thr for v in votes.values())
        _multi_tags(tags, votes, thr)
        if c['n'] == len(c['list']):
            tags.append('n_equals_list')
        if c.get('jump_fraction') is not None:
            tags.append(f"jf:{c.get('_jftype', 'F')}:{'eq' if c['accept_equal'] else 'noeq'}")
            if not (0 <= Fraction(c['jump_fraction']) <= 1):
                tags.append('threshold_out_of_range')
        if c.get('quota') is not None and not (0 <= Fraction(c['quota_fraction']) <= 2):
            tags.append('threshold_out_of_range')
        if thr is None:
            tags.append('openlist_no_threshold')
        else:
            J = [x for x, v in votes.items() if passes(v, thr, c['accept_equal'])]
            on_tag(hit, c['accept_equal'])
            if J:
                tags.append('openlist_jump')
            if len(J) > c['n']:
                tags.append('openlist_overflow')
                if c['list_precedence']:
                    tags.append('openlist_precedence')
            elif len(J) < c['n']:
                tags.append('openlist_fill')
            if c.get('jump_fraction') is not None:
                ttype_tag(c.get('_jftype', 'F'))
            if c.get('jump_fraction') is not None and c.get('quota') is not None and c['take_higher']:
                tags.append('take_higher')
        _size_tags(tags, votes, thr)
        if c.get('jump_fraction') is not None:
            _num_tags(tags, c['jump_fraction'], c.get('_jftype', 'F'), 'jump_fraction', hit)
        if c.get('quota') is not None:
            _quota_mode_tags(tags, c, c['quota'])
            qf = Fraction(c['quota_fraction'])
            tags.append('quota_fraction_one' if qf == 1 else 'quota_fraction_half' if qf == Fraction(1, 2) else 'quota_fraction_other')
            _num_tags(tags, c['quota_fraction'], c.get('_qftype', 'F'), 'quota_fraction', hit)
            if c.get('_qftype') == 'D':
                tags.append('decimal_quota_fraction')
        _sens(tags, c, spec_openlist, 'jump_fraction', None)
        _sens(tags, c, spec_openlist, 'quota_function', None, 'quota')
        if c.get('quota') is not None:
            _sens(tags, c, spec_openlist, 'quota_fraction', '1')
        _sens(tags, c, spec_openlist, 'take_higher', False)
        _sens(tags, c, spec_openlist, 'accept_equal', False)
        _sens(tags, c, spec_openlist, 'list_precedence', False)
        if c.get('_warm'):
            try:
                w = dict(c)
                w.update(c['_warm'])
                if isinstance(spec_openlist(w), dict):
                    tags.append('after_exception')
            except Exception:       # noqa
                pass
    elif op == 'tiebreak':
        votes = fvotes(c['votes'])
        if any(i not in votes for i in c['list']):
            tags.append('list_member_without_votes')
        if any(i not in c['list'] for i in votes):
            tags.append('off_list')
        if c['inner'] != 'plurality':
            _quota_mode_tags(tags, c, c['inner'])
            q = quota_value(c['inner'], sum(votes.values()), c['n'])
            votes = {x: v for x, v in votes.items() if passes(v, q, c['accept_equal'])}
        _level_tags(tags, votes, c['n'], 'tiebreak')
        if len(votes) > c['n'] > 0:
            tau = sorted(votes.values(), reverse=True)[c['n'] - 1]
            level = sum(1 for v in votes.values() if v == tau)
            above = sum(1 for v in votes.values() if v > tau)
            if above + level > c['n']:
                tags.append('openlist_tie')
                if level >= 3 and c['n'] - above >= 2:
                    tags.append('tie3_draw2')
    elif op == 'break_by_list':
        if any(isinstance(x, dict) for x in c['elected']):
            tags.append('break_tie')
        for x in c['elected']:
            if isinstance(x, dict) and len(x['tie']) >= 3 and sum(1 for y in c['elected'] if y == x) >= 2:
                tags.append('tie3_draw2')
                break
        for x in c['elected']:
            if isinstance(x, dict) and len(x['tie']) >= 4 and sum(1 for y in c['elected'] if y == x) >= 3:
                tags.append('level4_places3')
                tags.append('level4_places3:break_by_list')
                break
    elif op == 'alt_ranks':
        pass
    return c


def generate(rng, tier):
    for c in _gen(rng, tier):
        yield _posthoc_tags(c)


RULE = ('[audit dimensions, see AUDIT] Constructed boundary inputs: for t = p/q totals q*k (k up to 12*10^20) with one candidate exactly on p*k, optionally a '
        'second one, and near misses p*k+1 / p*k-1; thresholds as Fraction, Decimal and int; counts int, Fraction, Decimal; '
        '1-8 candidates.  Selector trees of depth <= 3 over AbsoluteThreshold, RelativeThreshold, AlternativeThresholds, '
        'CoalitionMemberBracketer, PropertyBracketer (properties dict and getattr path, None evaluators), '
        'PreviousGainThreshold.  Quota selectors with the seven quotas by name and by callable, totals placing a candidate '
        'on the quota.  Open lists of 1-8 members, 1 <= n <= length, every combination of jump_fraction (None/Fraction/'
        'Decimal/int), quota (None/name/library function/constant/'
        'caller-written def, lambda, positional-only def, __call__ object, functools.partial whose parameters are not '
        'called votes / seats), quota_fraction in {1, 1/2}, take_higher, accept_equal, '
        'list_precedence; list members without votes; rarely a voter outside the list.  ListOrderTieBreaker around '
        'Plurality and QuotaSelector(select); break_by_list on selector-shaped results.  Thorough adds exhaustive small '
        'scopes (thresholds over {0..3}^<=4 on every attainable share; open lists of <=4 members over {0,1,2} votes with '
        'all switches).  Non-trivial = not an error and at least two candidates.')
NOT_VERIFIED = ['dict insertion order is the protocol order (CPython dict semantics)',
                'Decimal/Fraction/int/float COMPARISON is exact; ThresholdOpenList converts the vote total, the quota and both '
                'fractions to exact rationals before multiplying (c90882d), so every type combination of counts and parameters '
                'is generated and must agree with the exact model (tags decimal_context_inexact / float_arith_inexact name the '
                'inputs on which the parameters\' own arithmetic would round); outside the model: sum() of Decimal counts beyond '
                '28 digits, vote dicts mixing Decimal and Fraction counts (sum() raises TypeError), Decimal counts with '
                'RelativeThreshold or with a quota function (Fraction(Decimal, ...) raises TypeError)',
                'AlternativeThresholds: iteration order of the frozenset of results (order among equal mean ranks) — '
                'compared up to permutation within equal mean ranks',
                'CoalitionMemberBracketer: iteration order of the frozenset of member counts (only decides which of two '
                'different exceptions is raised first) — modelled ascending',
                'accepts_prev_gains / accepts_seats (inspect.signature) are modelled by the class of the selector',
                'n_seats = 0: modelled (thresholdOpenListAt: ZeroDivisionError of hare / hare_rounded, else nobody seated); QuotaSelector with n_seats = 0 is generated only with quota functions that do not divide by the seat count',
                'hasattr/getattr access to candidate properties is modelled as a function candidate -> optional value']
AUDIT = ('Generator audit against harness/GENERATOR_CHECKLIST.md: thresholds / jump_fraction / quota_fraction as int, Fraction '
         '(denominators > 10^6), Decimal (7+ decimals), float (dyadic and not; float jump/quota fractions only where the float '
         'product is exact), the falsy 0 / Fraction(0) / Decimal(0) / 0.0, each with a candidate exactly on the boundary; float '
         'counts for AbsoluteThreshold; totals 2^53-1 .. 10^60 with a candidate on and one vote off the boundary; naming modes '
         'str / int0 / empty0 / person for every class (plain candidates of selector trees included); ties of 3+ with 2+ seats '
         'drawn; 2+ zero-vote candidates; previous gains for absentees; lists and votes naming different people; n above the '
         'list length; the same object evaluated twice (other inputs first, after an exception, after a differently configured '
         'object); every constructor parameter non-default with a sens:<param> tag when it changes the outcome; property name '
         'other than the usual one with decoy values under the other name.')
EXHAUSTIVE = {'thorough': True}
UNPROVED = []
TECHNIQUE = ('Lean 4 proofs (unbounded) about executable models of threshold.py, openlist.py, QuotaSelector and Tie.break_by_list '
             '+ differential correspondence of the models with votelib on constructed boundary inputs + direct oracle')
LEVEL_TEXT = ('The filter conditions of AbsoluteThreshold / RelativeThreshold are regenerated from the source on every run '
              '(Gen/Threshold.lean, Gen/OpenList.lean: also the open-list jump condition) and proved to be the boundary rule; '
              'every class of threshold.py and openlist.py, QuotaSelector and Tie.break_by_list are modelled line for line in Lean '
              '(exact rationals).  Proved for all inputs: membership iff for relative/absolute thresholds and quota selectors '
              '(strictly over, or on it when equality is accepted) with the sorted_votes order; alternatives are the union, '
              'duplicate-free, by mean rank; both bracketers apply to each candidate the selector of its bracket; the open list '
              'seats exactly n distinct list members, jumpers first by votes, then a prefix of the remaining list in list order, '
              'nobody passed over; overflow keeps the best-voted (or highest-listed) jumpers; the list tie-break leaves untied '
              'places alone and hands a tie to its highest-listed members.')
LEVEL_NOTE = ('Trusted: Lean kernel + propext/Classical.choice/Quot.sound; translate.py for the quota functions; the correspondence '
              'harness (bounded by its generator); CPython dict order, exact comparison of numeric types, hash-order independence '
              'as listed under modelled_not_verified.  The exactness of the open-list thresholds for Decimal / float parameters '
              'is no longer an assumption: the code converts to exact rationals (c90882d), the model multiplies rationals, and '
              'the former witness of the context-rounding defect is evaluated in Lean (example in Props/C16.lean).')
