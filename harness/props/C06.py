"""C06 — CondorcetWinner / SmithSet / SchwartzSet are computed exactly (as sets)."""
import itertools
from fractions import Fraction
from common import *   # noqa
from props import _condorcet_common as CC

ID = 'C06'
NAMESPACE = 'VL.C06'
LEAN_MODULES = ['VotelibProofs.Props.C06']
GEN_MODULES = []
REQUIRED = ['cw_exact', 'cw_none', 'cw_unique',
            'closure_reach', 'smith_exact', 'schwartz_exact',
            'smithSpec_dominating', 'smithSpec_nonempty', 'smithSpec_least',
            'schwartzSpec_is_union_of_minimal_undominated',
            'smith_is_least_dominating', 'schwartz_is_union_of_minimal_undominated',
            'smith_nodup', 'schwartz_nodup', 'smith_of_cw', 'schwartz_subset_smith', 'dominating_iff', 'undominated_iff']
UNPROVED = []
NAME_MODES = ['str', 'int0', 'empty0', 'person', 'tuple']
REQUIRED_COUNTERS = ['fully_tied_pair', 'mutually_tied_unbeaten', 'missing_pair', 'missing_reverse', 'has_cw', 'cycle',
                     'from_ranked', 'all_tied', 'fraction',
                     # generator audit (GENERATOR_CHECKLIST.md)
                     'ntype:decimal', 'ntype:decimal_long', 'ntype:float_dyadic', 'ntype:float_nd', 'ntype:fraction_all',
                     'zero_count', 'big', 'close_fraction', 'wtype:fraction', 'wtype:bigint', 'wtype:decimal', 'wtype:float',
                     'names:int0', 'names:empty0', 'names:person', 'cands_6_7', 'long_cycle', 'smith_ne_schwartz',
                     'twice', 'shared_instance']
RULE = ('pairwise dictionaries over 2-6 candidates (7 occasionally): per unordered pair one of x wins / y wins / tie / both '
        'absent / reverse absent / zero-count entries, integer and Fraction counts, shuffled insertion order; dictionaries '
        'derived with the real RankedToCondorcetVotes (both unranked_at_bottom settings) from profiles with truncated '
        'ballots and shared ranks; directed shapes (fully tied pair, tied unbeaten pair above a loser, disconnected '
        'majorities, cycles, Condorcet winner); thorough: every assignment of the five pair states to <= 4 candidates and '
        'of eight states to 3 candidates; counts as int / Fraction / Decimal (short and 7 decimals) / float (dyadic and '
        'non-dyadic) / integers of 10^9..10^30 / Fractions differing in the 12th digit; candidates as strings, ints incl. 0, the '
        'empty string, Person objects; long majority cycles and 5-7 candidate profiles with every weight type; selector objects '
        'fresh, shared by the whole run, and called after another (larger) input.  Ops cw, smith, schwartz, compared as sets.  Non-trivial = at least 3 candidates.')
NOT_VERIFIED = ['dict insertion order is the protocol order (CPython dict semantics)',
                'int/Fraction comparison is exact rational comparison']
EXHAUSTIVE = {'thorough': True}
NAMES = CC.NAMES
OPS = ['cw', 'smith', 'schwartz']


def _mk(op, votes, tags):
    return {'op': op, 'votes': votes, '_tags': list(tags)}


def _directed(rng):
    """shapes named in the property text, with random relabelling and insertion order"""
    shapes = [
        ([(0, 1, 1), (1, 0, 1)], 'd_tied_pair'),
        ([(0, 1, 2), (1, 0, 2), (0, 2, 3), (2, 0, 1), (1, 2, 3), (2, 1, 1)], 'd_tied_unbeaten'),
        ([(0, 1, 2), (1, 0, 2), (0, 2, 3), (1, 2, 3)], 'd_tied_unbeaten_sparse'),
        ([(0, 1, 3), (2, 3, 2)], 'd_disconnected'),
        ([(0, 1, 3), (1, 2, 3), (2, 0, 3)], 'd_cycle_sparse'),
        ([(0, 1, 3), (1, 0, 1), (1, 2, 3), (2, 1, 1), (2, 0, 3), (0, 2, 1)], 'd_cycle'),
        ([(0, 1, 3), (0, 2, 3), (1, 2, 2), (2, 1, 1)], 'd_cw_never_loser'),
        ([(0, 1, 1), (1, 0, 1), (0, 2, 1), (2, 0, 1), (1, 2, 1), (2, 1, 1)], 'd_all_tied'),
        ([(0, 1, 0)], 'd_zero_entry'),
        ([(0, 1, 2), (1, 0, 1), (2, 3, 1), (3, 2, 1), (0, 2, 3), (0, 3, 3), (1, 2, 3), (1, 3, 3)], 'd_two_level'),
        ([(0, 1, 3), (1, 2, 3), (2, 0, 3), (3, 0, 1), (0, 3, 2), (1, 3, 2), (2, 3, 2)], 'd_cycle_over_loser'),
    ]
    for ent, tag in shapes:
        m = 1 + max(max(a, b) for a, b, _ in ent)
        perm = list(range(m))
        rng.shuffle(perm)
        e2 = [[perm[a], perm[b], num_str(c)] for a, b, c in ent]
        rng.shuffle(e2)
        for op in OPS:
            yield _mk(op, e2, [tag, 'directed'])


def _gen(rng, tier):
    N = 1500 if tier == 'quick' else 30000
    yield from _directed(rng)
    # long majority cycles (4-7 candidates) and large profiles with every weight type, through the real converter
    import families
    for t in range(12 if tier == 'quick' else 120):
        m = rng.choice([4, 5, 6, 6, 7])
        if t % 2 == 0:
            prof, tags = families.gen_ranked_cycle(rng, m), ['ranked_cycle']
        else:
            wtype = CC.WTYPES[(t // 2) % len(CC.WTYPES)]
            prof = CC.random_profile(rng, m, n_ballots=rng.randint(3, 8), wtype=wtype, max_shared=4)
            tags = ['large_profile'] + (['wtype:' + wtype] if wtype != 'int' else [])
        uab = rng.random() < 0.5
        votes = CC.profile_to_pairwise(prof, uab)
        if votes:
            for op in OPS:
                yield _mk(op, votes, tags + ['from_ranked', 'uab_true' if uab else 'uab_false'])
    for k in range(N):
        r = rng.random()
        m = rng.choice([2, 3, 3, 4, 4, 4, 5, 5, 6, 6]) if rng.random() < 0.97 else 7
        nt = None
        if r < 0.7:
            kind = rng.choice(['dense', 'sparse', 'sparse', 'tied', 'plain'])
            votes = CC.random_pairwise(rng, m, kind)
            tags = ['kind_' + kind]
            if votes and rng.random() < 0.3 and all('/' not in s and len(s) < 6 for _, _, s in votes):
                nt = CC.NTYPES[k % len(CC.NTYPES)]
                votes = CC.retype_votes(votes, nt)
                tags.append('ntype:' + nt)
        else:
            wtype = rng.choice(['int'] * 6 + CC.WTYPES[1:])
            prof = CC.random_profile(rng, m, wtype=wtype)
            uab = rng.random() < 0.5
            votes = CC.profile_to_pairwise(prof, uab)
            tags = ['from_ranked', 'uab_true' if uab else 'uab_false'] + (['wtype:' + wtype] if wtype != 'int' else [])
        if not votes:
            continue
        for op in OPS:
            c = _mk(op, votes, tags)
            if nt:
                c['_ntype'] = nt
            yield c
    if tier == 'thorough':
        for m in (2, 3, 4):
            for votes in CC.exhaustive_pairwise(m, CC.PAIR_STATES):
                if votes:
                    for op in OPS:
                        yield _mk(op, votes, ['exhaustive'])
        for votes in CC.exhaustive_pairwise(3, CC.PAIR_STATES_EXT):
            if votes:
                for op in OPS:
                    yield _mk(op, votes, ['exhaustive', 'exhaustive_ext'])


def generate(rng, tier):
    for c in _gen(rng, tier):
        c['_tags'] += CC.features(c)
        d, cands = CC.dmap(c), CC.cands_of(c)
        if any('/' in s for _, _, s in c['votes']):
            c['_tags'].append('fraction')
        if any(Fraction(s) == 0 for _, _, s in c['votes']):
            c['_tags'].append('zero_count')
        if any(Fraction(s) >= 10 ** 9 for _, _, s in c['votes']):
            c['_tags'].append('big')
        if any(Fraction(s).denominator >= 10 ** 12 for _, _, s in c['votes']) and '_ntype' not in c:
            c['_tags'].append('close_fraction')
        if len(cands) >= 6:
            c['_tags'].append('cands_6_7')
        sm = CC.smith_set(d, cands)
        if len(sm) >= 4 and not CC.condorcet_winner(d, cands):
            c['_tags'].append('long_cycle')
        if sm != CC.schwartz_set(d, cands):
            c['_tags'].append('smith_ne_schwartz')
        # state between calls: a third of the cases use the selector object shared by the whole run, half of those after
        # another (larger) input
        r = rng.random()
        if r < 0.33:
            c['_obj'] = 'shared'
            c['_tags'].append('shared_instance')
            if r < 0.17:
                c['_pre'] = True
                c['_tags'].append('twice')
        yield c


_SHARED = {}


def impl(case):
    import votelib.evaluate.condorcet as vc
    votes = CC.votes_dict(case)
    cls = {'cw': vc.CondorcetWinner, 'smith': vc.SmithSet, 'schwartz': vc.SchwartzSet}[case['op']]
    if case.get('_obj') == 'shared':
        sel = _SHARED.setdefault(case['op'], cls())
    else:
        sel = cls()
    if case.get('_pre'):
        decoy = {(f'z{a}', f'z{b}'): 1 + (3 * a + 5 * b) % 7 for a in range(6) for b in range(6) if a != b}
        guarded(lambda: sel.evaluate(decoy))

    def run():
        res = sel.evaluate(votes)
        return [NAMES.i(c) for c in res]
    return guarded(run)


def oracle(case, obs):
    """the property, stated on the implementation's output: exact sets by their textbook definitions"""
    if isinstance(obs, dict):
        return [('unexpected_error', obs.get('err'))]
    d = CC.dmap(case)
    cands = CC.cands_of(case)
    out = []
    if len(set(obs)) != len(obs):
        out.append(('duplicate', f'{obs}'))
    if not set(obs) <= set(cands):
        out.append(('foreign_candidate', f'{obs}'))
    if case['op'] == 'cw':
        exp = CC.condorcet_winner(d, cands) if len(cands) >= 2 else []
        if sorted(obs) != sorted(exp):
            out.append(('cw_wrong', f'expected {sorted(exp)} got {obs}'))
    elif case['op'] == 'smith':
        exp = CC.smith_set(d, cands)
        if set(obs) != set(exp):
            out.append(('smith_wrong', f'expected {sorted(exp)} got {sorted(obs)}'))
    elif case['op'] == 'schwartz':
        exp = CC.schwartz_set(d, cands)
        if set(obs) != set(exp):
            out.append(('schwartz_wrong', f'expected {sorted(exp)} got {sorted(obs)}'))
    return out


def compare(case, iobs, mobs):
    if isinstance(iobs, dict) or isinstance(mobs, dict):
        return None if iobs == mobs else f'impl={iobs} model={mobs}'
    if sorted(iobs) != sorted(mobs):
        return f'impl={sorted(iobs)} model={sorted(mobs)}'
    return None


def nontrivial(case, obs):
    return len(CC.cands_of(case)) >= 3 and not isinstance(obs, dict)


def shrink_candidates(case):
    vs = case['votes']
    for i in range(len(vs)):
        if len(vs) > 1:
            c = dict(case)
            c['votes'] = vs[:i] + vs[i + 1:]
            yield c
    for i, (a, b, s) in enumerate(vs):
        f = Fraction(s)
        if f > 1:
            c = dict(case)
            c['votes'] = vs[:i] + [[a, b, num_str(f - 1)]] + vs[i + 1:]
            yield c


def describe(case):
    cls = {'cw': 'CondorcetWinner', 'smith': 'SmithSet', 'schwartz': 'SchwartzSet'}[case['op']]
    return f"votelib.evaluate.condorcet.{cls}().evaluate({CC.votes_dict(case)!r})"


TECHNIQUE = ('Lean 4 proof that the transitive-closure loop of _smith_schwartz_set computes reachability and that the '
             'reachability sets are the textbook Smith / Schwartz sets (unbounded) + differential correspondence with votelib')
LEVEL_TEXT = ('CondorcetWinner, SmithSet and SchwartzSet (pairwise_wins, beat_counts, Copeland ordering, the closure loop) are '
              'modelled line for line; for every well-formed pairwise dictionary (distinct keys, no self-pair, non-negative '
              'counts; absent pair = 0:0) the model output is proved to be exactly the Condorcet winner / the least non-empty '
              'dominating set / the union of the minimal non-empty undominated sets; the model is tied to /repo by a differential '
              'correspondence on every check plus a brute-force oracle of the three definitions on the implementation.')
LEVEL_NOTE = ('Trusted: Lean kernel + propext/Classical.choice/Quot.sound; the correspondence harness (bounded by its generator: '
              '2-7 candidates, int/Fraction counts); CPython dict order and exact comparison of numeric types.')
