"""C06 — CondorcetWinner / SmithSet / SchwartzSet are computed exactly (as sets)."""
import itertools
from fractions import Fraction
from common import *   # noqa
from props import _condorcet_common as CC

ID = 'C06'
NAMESPACE = 'VL.C06'
LEAN_MODULES = ['VotelibProofs.Props.C06']
GEN_MODULES = []
REQUIRED = ['cw_exact', 'cw_none', 'cw_unique',
            'closure_reach', 'smith_exact', 'schwartz_exact',
            'smithSpec_dominating', 'smithSpec_nonempty', 'smithSpec_least',
            'schwartzSpec_is_union_of_minimal_undominated',
            'smith_is_least_dominating', 'schwartz_is_union_of_minimal_undominated',
            'smith_nodup', 'schwartz_nodup', 'smith_of_cw', 'schwartz_subset_smith', 'dominating_iff', 'undominated_iff',
            # dictionaries with self-pairs (WFd: the no-self-pair clause of WF dropped), round o
            'wfd_of_wf', 'smith_exact_diag', 'schwartz_exact_diag', 'smith_is_least_dominating_diag',
            'schwartz_is_union_of_minimal_undominated_diag', 'self_pair_is_candidate', 'cw_exact_diag', 'cw_none_diag',
            'cw_one_candidate']
UNPROVED = []
NAME_MODES = ['str', 'int0', 'empty0', 'person', 'tuple']
REQUIRED_COUNTERS = ['fully_tied_pair', 'mutually_tied_unbeaten', 'missing_pair', 'missing_reverse', 'has_cw', 'cycle',
                     'from_ranked', 'all_tied', 'fraction',
                     # generator audit (GENERATOR_CHECKLIST.md)
                     'ntype:decimal', 'ntype:decimal_long', 'ntype:float_dyadic', 'ntype:float_nd', 'ntype:fraction_all',
                     'zero_count', 'big', 'close_fraction', 'wtype:fraction', 'wtype:bigint', 'wtype:decimal', 'wtype:float',
                     'names:int0', 'names:empty0', 'names:person', 'cands_6_7', 'long_cycle', 'smith_ne_schwartz',
                     'twice', 'shared_instance',
                     # self-pairs (matrix diagonal entries such as ('Z','Z'): 0), round o
                     'self_pair', 'diag_full', 'diag_partial', 'diag_only_cand', 'one_candidate',
                     'only_self_pairs', 'diag_nonzero']
RULE = ('pairwise dictionaries over 2-6 candidates (7 occasionally): per unordered pair one of x wins / y wins / tie / both '
        'absent / reverse absent / zero-count entries, integer and Fraction counts, shuffled insertion order; dictionaries '
        'derived with the real RankedToCondorcetVotes (both unranked_at_bottom settings) from profiles with truncated '
        'ballots and shared ranks; directed shapes (fully tied pair, tied unbeaten pair above a loser, disconnected '
        'majorities, cycles, Condorcet winner); thorough: every assignment of the five pair states to <= 4 candidates and '
        'of eight states to 3 candidates; counts as int / Fraction / Decimal (short and 7 decimals) / float (dyadic and '
        'non-dyadic) / integers of 10^9..10^30 / Fractions differing in the 12th digit; candidates as strings, ints incl. 0, the '
        'empty string, Person objects; long majority cycles and 5-7 candidate profiles with every weight type; selector objects '
        'fresh, shared by the whole run, and called after another (larger) input; self-pairs (x, x): a full matrix diagonal, a partial one, '
        'one or two candidates that occur ONLY in a self-pair next to others (they are candidates: zero against zero with everybody), '
        'dictionaries of self-pairs only incl. the one-candidate dictionary {(a, a): 0}, zero and non-zero diagonal counts, on a '
        'quarter of the random cases and as directed shapes.  Ops cw, smith, schwartz, compared as sets.  Non-trivial = at least 3 candidates.')
NOT_VERIFIED = ['dict insertion order is the protocol order (CPython dict semantics)',
                'int/Fraction comparison is exact rational comparison']
EXHAUSTIVE = {'thorough': True}
NAMES = CC.NAMES
OPS = ['cw', 'smith', 'schwartz']


def _mk(op, votes, tags):
    return {'op': op, 'votes': votes, '_tags': list(tags)}


def _directed(rng):
    """shapes named in the property text, with random relabelling and insertion order"""
    shapes = [
        ([(0, 1, 1), (1, 0, 1)], 'd_tied_pair'),
        ([(0, 1, 2), (1, 0, 2), (0, 2, 3), (2, 0, 1), (1, 2, 3), (2, 1, 1)], 'd_tied_unbeaten'),
        ([(0, 1, 2), (1, 0, 2), (0, 2, 3), (1, 2, 3)], 'd_tied_unbeaten_sparse'),
        ([(0, 1, 3), (2, 3, 2)], 'd_disconnected'),
        ([(0, 1, 3), (1, 2, 3), (2, 0, 3)], 'd_cycle_sparse'),
        ([(0, 1, 3), (1, 0, 1), (1, 2, 3), (2, 1, 1), (2, 0, 3), (0, 2, 1)], 'd_cycle'),
        ([(0, 1, 3), (0, 2, 3), (1, 2, 2), (2, 1, 1)], 'd_cw_never_loser'),
        ([(0, 1, 1), (1, 0, 1), (0, 2, 1), (2, 0, 1), (1, 2, 1), (2, 1, 1)], 'd_all_tied'),
        ([(0, 1, 0)], 'd_zero_entry'),
        ([(0, 1, 2), (1, 0, 1), (2, 3, 1), (3, 2, 1), (0, 2, 3), (0, 3, 3), (1, 2, 3), (1, 3, 3)], 'd_two_level'),
        ([(0, 1, 3), (1, 2, 3), (2, 0, 3), (3, 0, 1), (0, 3, 2), (1, 3, 2), (2, 3, 2)], 'd_cycle_over_loser'),
    ]
    for ent, tag in shapes:
        m = 1 + max(max(a, b) for a, b, _ in ent)
        perm = list(range(m))
        rng.shuffle(perm)
        e2 = [[perm[a], perm[b], num_str(c)] for a, b, c in ent]
        rng.shuffle(e2)
        for op in OPS:
            yield _mk(op, e2, [tag, 'directed'])


DIAG_MODES = ['diag_full', 'diag_partial', 'diag_only_cand', 'diag_only_cand', 'diag_full+only']


def _cands(votes):
    out = []
    for a, b, _ in votes:
        for c in (a, b):
            if c not in out:
                out.append(c)
    return out


def _add_diag(rng, votes, mode, zero_only=False):
    """self-pairs [x, x, count] added to a pairwise dictionary: the diagonal of a pairwise matrix (all candidates / some of
    them) and/or one or two NEW candidates that occur only in a self-pair; the diagonal count is 0 (usual), or one non-negative
    value for the whole diagonal, or arbitrary small values; positions: matrix order (before the first entry of the row),
    appended, or shuffled in"""
    cands = _cands(votes)
    r = rng.random()
    if zero_only or r < 0.6:
        val = lambda: '0'
    elif r < 0.8:
        k = num_str(rng.randint(1, 9))
        val = lambda: k
    else:
        val = lambda: num_str(rng.choice([0, 1, 2, 5, Fraction(1, 2)]))
    selfs = []
    if 'diag_full' in mode:
        selfs += [[c, c, val()] for c in cands]
    if 'diag_partial' in mode and cands:
        selfs += [[c, c, val()] for c in rng.sample(cands, rng.randint(1, max(1, len(cands) - 1)))]
    if 'only' in mode:
        new = (max(cands) + 1) if cands else 0
        selfs += [[new + i, new + i, val()] for i in range(rng.choice([1, 1, 1, 2]))]
    out = [list(e) for e in votes]
    place = rng.choice(['row', 'append', 'shuffle', 'prepend'])
    if place == 'append':
        out = out + selfs
    elif place == 'prepend':
        out = selfs + out
    elif place == 'shuffle':
        out = out + selfs
        rng.shuffle(out)
    else:
        for e in selfs:
            idx = next((i for i, x in enumerate(out) if x[0] == e[0]), len(out))
            out.insert(idx, e)
    return out


def _diag_directed(rng):
    """self-pair shapes: one-candidate dictionaries, self-pairs only, a candidate known only from its self-pair next to a
    Condorcet winner / a cycle / a tie / a single zero entry, full matrices with a diagonal"""
    base = [
        ([(0, 1, 3), (1, 0, 1)], 'pair'),
        ([(0, 1, 3)], 'pair_sparse'),
        ([(0, 1, 3), (1, 2, 3), (0, 2, 3)], 'chain_sparse'),
        ([(0, 1, 3), (1, 0, 1), (1, 2, 3), (2, 1, 1), (0, 2, 3), (2, 0, 1)], 'chain'),
        ([(0, 1, 3), (1, 2, 3), (2, 0, 3)], 'cycle_sparse'),
        ([(0, 1, 2), (1, 0, 2)], 'tie'),
        ([(0, 1, 0)], 'zero_entry'),
        ([(0, 1, 4), (1, 0, 1), (0, 2, 2), (2, 0, 2), (1, 2, 3), (2, 1, 3)], 'matrix3'),
    ]
    for zero in ('0', '0', '4'):
        yield [[0, 0, zero]], ['d_one_candidate']
        k = rng.randint(1, 5)
        yield [[k, k, zero]], ['d_one_candidate']
        yield [[0, 0, zero], [1, 1, zero]], ['d_only_self_pairs']
        three = [[0, 0, zero], [1, 1, zero], [2, 2, zero]]
        rng.shuffle(three)
        yield three, ['d_only_self_pairs']
    for ent, name in base:
        m = 1 + max(max(a, b) for a, b, _ in ent)
        for mode in ('diag_only_cand', 'diag_full', 'diag_full+only', 'diag_partial'):
            perm = list(range(m))
            rng.shuffle(perm)
            e2 = [[perm[a], perm[b], num_str(c)] for a, b, c in ent]
            rng.shuffle(e2)
            yield _add_diag(rng, e2, mode, zero_only=(mode == 'diag_only_cand')), ['d_' + mode + '_' + name]


def _gen(rng, tier):
    N = 1500 if tier == 'quick' else 30000
    yield from _directed(rng)
    for rep in range(1 if tier == 'quick' else 10):
        for votes, tags in _diag_directed(rng):
            for op in OPS:
                yield _mk(op, votes, tags + ['directed'])
    # long majority cycles (4-7 candidates) and large profiles with every weight type, through the real converter
    import families
    for t in range(12 if tier == 'quick' else 120):
        m = rng.choice([4, 5, 6, 6, 7])
        if t % 2 == 0:
            prof, tags = families.gen_ranked_cycle(rng, m), ['ranked_cycle']
        else:
            wtype = CC.WTYPES[(t // 2) % len(CC.WTYPES)]
            prof = CC.random_profile(rng, m, n_ballots=rng.randint(3, 8), wtype=wtype, max_shared=4)
            tags = ['large_profile'] + (['wtype:' + wtype] if wtype != 'int' else [])
        uab = rng.random() < 0.5
        votes = CC.profile_to_pairwise(prof, uab)
        if votes:
            for op in OPS:
                yield _mk(op, votes, tags + ['from_ranked', 'uab_true' if uab else 'uab_false'])
    for k in range(N):
        r = rng.random()
        m = rng.choice([2, 3, 3, 4, 4, 4, 5, 5, 6, 6]) if rng.random() < 0.97 else 7
        nt = None
        if r < 0.7:
            kind = rng.choice(['dense', 'sparse', 'sparse', 'tied', 'plain'])
            votes = CC.random_pairwise(rng, m, kind)
            tags = ['kind_' + kind]
            if rng.random() < 0.25:
                votes = _add_diag(rng, votes, rng.choice(DIAG_MODES))
            if votes and rng.random() < 0.3 and all('/' not in s and len(s) < 6 for _, _, s in votes):
                nt = CC.NTYPES[k % len(CC.NTYPES)]
                votes = CC.retype_votes(votes, nt)
                tags.append('ntype:' + nt)
        else:
            wtype = rng.choice(['int'] * 6 + CC.WTYPES[1:])
            prof = CC.random_profile(rng, m, wtype=wtype)
            uab = rng.random() < 0.5
            votes = CC.profile_to_pairwise(prof, uab)
            tags = ['from_ranked', 'uab_true' if uab else 'uab_false'] + (['wtype:' + wtype] if wtype != 'int' else [])
            if votes and rng.random() < 0.15:
                votes = _add_diag(rng, votes, rng.choice(DIAG_MODES), zero_only=True)
                tags = [t for t in tags if t != 'from_ranked'] + ['from_ranked_plus_diag']
        if not votes:
            continue
        for op in OPS:
            c = _mk(op, votes, tags)
            if nt:
                c['_ntype'] = nt
            yield c
    if tier == 'thorough':
        for m in (2, 3, 4):
            for votes in CC.exhaustive_pairwise(m, CC.PAIR_STATES):
                if votes:
                    for op in OPS:
                        yield _mk(op, votes, ['exhaustive'])
        for votes in CC.exhaustive_pairwise(3, CC.PAIR_STATES_EXT):
            if votes:
                for op in OPS:
                    yield _mk(op, votes, ['exhaustive', 'exhaustive_ext'])


def generate(rng, tier):
    for c in _gen(rng, tier):
        c['_tags'] += CC.features(c)
        d, cands = CC.dmap(c), CC.cands_of(c)
        if any('/' in s for _, _, s in c['votes']):
            c['_tags'].append('fraction')
        if any(Fraction(s) == 0 for _, _, s in c['votes']):
            c['_tags'].append('zero_count')
        if any(Fraction(s) >= 10 ** 9 for _, _, s in c['votes']):
            c['_tags'].append('big')
        if any(Fraction(s).denominator >= 10 ** 12 for _, _, s in c['votes']) and '_ntype' not in c:
            c['_tags'].append('close_fraction')
        if len(cands) >= 6:
            c['_tags'].append('cands_6_7')
        sm = CC.smith_set(d, cands)
        if len(sm) >= 4 and not CC.condorcet_winner(d, cands):
            c['_tags'].append('long_cycle')
        if sm != CC.schwartz_set(d, cands):
            c['_tags'].append('smith_ne_schwartz')
        selfs = [a for a, b, _ in c['votes'] if a == b]
        if selfs:
            c['_tags'].append('self_pair')
            others = {x for a, b, _ in c['votes'] if a != b for x in (a, b)}
            only = [a for a in selfs if a not in others]
            if len(cands) == 1:
                c['_tags'].append('one_candidate')
            elif not others:
                c['_tags'].append('only_self_pairs')
            if only and others:
                c['_tags'].append('diag_only_cand')      # such a candidate is beaten by nobody: always a Smith and Schwartz member
            if set(selfs) == set(cands) and others:
                c['_tags'].append('diag_full')
            elif others and set(selfs) & others:
                c['_tags'].append('diag_partial')
            if any(Fraction(s) != 0 for a, b, s in c['votes'] if a == b):
                c['_tags'].append('diag_nonzero')
        # state between calls: a third of the cases use the selector object shared by the whole run, half of those after
        # another (larger) input
        r = rng.random()
        if r < 0.33:
            c['_obj'] = 'shared'
            c['_tags'].append('shared_instance')
            if r < 0.17:
                c['_pre'] = True
                c['_tags'].append('twice')
        yield c


_SHARED = {}


def impl(case):
    import votelib.evaluate.condorcet as vc
    votes = CC.votes_dict(case)
    cls = {'cw': vc.CondorcetWinner, 'smith': vc.SmithSet, 'schwartz': vc.SchwartzSet}[case['op']]
    if case.get('_obj') == 'shared':
        sel = _SHARED.setdefault(case['op'], cls())
    else:
        sel = cls()
    if case.get('_pre'):
        decoy = {(f'z{a}', f'z{b}'): 1 + (3 * a + 5 * b) % 7 for a in range(6) for b in range(6) if a != b}
        guarded(lambda: sel.evaluate(decoy))

    def run():
        res = sel.evaluate(votes)
        return [NAMES.i(c) for c in res]
    return guarded(run)


def oracle(case, obs):
    """the property, stated on the implementation's output: exact sets by their textbook definitions"""
    if isinstance(obs, dict):
        return [('unexpected_error', obs.get('err'))]
    d = CC.dmap(case)
    cands = CC.cands_of(case)
    out = []
    if len(set(obs)) != len(obs):
        out.append(('duplicate', f'{obs}'))
    if not set(obs) <= set(cands):
        out.append(('foreign_candidate', f'{obs}'))
    if case['op'] == 'cw':
        exp = CC.condorcet_winner(d, cands) if len(cands) >= 2 else []
        if sorted(obs) != sorted(exp):
            out.append(('cw_wrong', f'expected {sorted(exp)} got {obs}'))
    elif case['op'] == 'smith':
        exp = CC.smith_set(d, cands)
        if set(obs) != set(exp):
            out.append(('smith_wrong', f'expected {sorted(exp)} got {sorted(obs)}'))
    elif case['op'] == 'schwartz':
        exp = CC.schwartz_set(d, cands)
        if set(obs) != set(exp):
            out.append(('schwartz_wrong', f'expected {sorted(exp)} got {sorted(obs)}'))
    return out


def compare(case, iobs, mobs):
    if isinstance(iobs, dict) or isinstance(mobs, dict):
        return None if iobs == mobs else f'impl={iobs} model={mobs}'
    if sorted(iobs) != sorted(mobs):
        return f'impl={sorted(iobs)} model={sorted(mobs)}'
    return None


def nontrivial(case, obs):
    return len(CC.cands_of(case)) >= 3 and not isinstance(obs, dict)


def shrink_candidates(case):
    vs = case['votes']
    for i in range(len(vs)):
        if len(vs) > 1:
            c = dict(case)
            c['votes'] = vs[:i] + vs[i + 1:]
            yield c
    for i, (a, b, s) in enumerate(vs):
        f = Fraction(s)
        if f > 1:
            c = dict(case)
            c['votes'] = vs[:i] + [[a, b, num_str(f - 1)]] + vs[i + 1:]
            yield c


def describe(case):
    cls = {'cw': 'CondorcetWinner', 'smith': 'SmithSet', 'schwartz': 'SchwartzSet'}[case['op']]
    return f"votelib.evaluate.condorcet.{cls}().evaluate({CC.votes_dict(case)!r})"


TECHNIQUE = ('Lean 4 proof that the transitive-closure loop of _smith_schwartz_set computes reachability and that the '
             'reachability sets are the textbook Smith / Schwartz sets (unbounded) + differential correspondence with votelib')
LEVEL_TEXT = ('CondorcetWinner, SmithSet and SchwartzSet (pairwise_wins, beat_counts, Copeland ordering, the closure loop) are '
              'modelled line for line; for every well-formed pairwise dictionary (distinct keys, non-negative counts; absent pair '
              '= 0:0; self-pairs such as a matrix diagonal allowed - the *_diag theorems - and a candidate named only by a '
              'self-pair is a candidate) the model output is proved to be exactly the Condorcet winner (two or more candidates; '
              'with one candidate, only expressible as {(a, a): n}, the selector returns nothing: cw_one_candidate) / the least '
              'non-empty dominating set / the union of the minimal non-empty undominated sets; the model is tied to /repo by a differential '
              'correspondence on every check plus a brute-force oracle of the three definitions on the implementation.')
LEVEL_NOTE = ('Trusted: Lean kernel + propext/Classical.choice/Quot.sound; the correspondence harness (bounded by its generator: '
              '1-8 candidates, int/Fraction/Decimal/float counts, with and without self-pairs); CPython dict order and exact comparison of numeric types.')
