"""C15 — overhang handling never removes direct seats and levels minimally.

Ops
  overhang_calc   SeatCountCalculator.calculate of AllowOverhang / LevelOverhang / LevelOverhangByConstituency
  adjusted_eval   AdjustedSeatCount(calculator, evaluator).evaluate, directly or as the second stage of a
                  MultistageDistributor whose first stage yields the direct seats (NZ example), and for the
                  by-constituency calculator with a ByParty final stage (DE example)

The oracle recomputes every clause of the property from scratch: it calls the real proportional evaluators
as black boxes at every house size it needs (brute force over the enlargement), never the adjusters.
"""
import itertools
from fractions import Fraction
from common import *   # noqa

ID = 'C15'
NAMESPACE = 'VL.C15'
LEAN_MODULES = ['VotelibProofs.Props.C15']
GEN_MODULES = ['Divisor']
REQUIRED = ['keeps_direct_seats', 'house_grows_by_adj', 'house_grows_by_adj_of_fills', 'haEval_fills', 'haEval_nodup',
            'adj_zero_iff_no_overhang', 'allow_adj_zero_iff', 'allow_adj_eq_overhang', 'natSub_eq_max',
            'level_is_least', 'meets_lowest_iff', 'level_least_enlargement', 'level_zero_outside_tier_witness',
            'level_terminates', 'level_terminates_of_no_tie', 'ha_tier_has_votes', 'd_hondt_unbounded',
            'sainte_lague_unbounded', 'level_final_is_proportional', 'level_cty_is_least',
            'level_cty_direct_seat_counted', 'level_cty_at_is_least', 'level_cty_default_is_least', 'lrHareEval_fills', 'house_grows_by_adj_lr',
            'level_least_enlargement_ha', 'level_least_enlargement_lr', 'multistage_final_is_proportional',
            'level_terminates_lr', 'level_final_is_proportional_lr', 'level_terminates_of_adequate',
            'level_cty_final_party_totals', 'partyVotes_ok', 'level_cty_refuses_tie', 'level_cty_ok_no_tie',
            'level_cty_tie_witness', 'level_cty_terminates', 'level_cty_floors_cover_direct_seats',
            'level_cty_final_is_proportional', 'distGet_entry', 'level_final_is_proportional_tie',
            'final_zero_votes_witness', 'level_final_is_proportional_lr_tie', 'level_flat_tie_witness']
NAME_MODES = ['str', 'int0', 'empty0', 'person', 'tuple']
REQUIRED_COUNTERS = ['overhang_present', 'no_overhang', 'party_outside_tier', 'party_without_votes',
                     'levelling_iterations_ge2', 'by_constituency', 'multistage_wrapped',
                     'allow', 'level', 'd_hondt', 'sainte_lague', 'hare_lr', 'tie_in_baseline', 'multistage_depth2', 'default_overall', 'apportioned', 'intermediate_tie', 'alabama_lr', 'cty_party_name_clash', 'clash_str', 'clash_int0',
                     'clash_empty0', 'all_zero_votes',
                     'd_hondt_mod', 'sainte_lague_mod', 'coef_decimal', 'coef_default', 'coef_float', 'coef_fraction',
                     'votes_all_fraction', 'votes_fraction', 'votes_ge_1e18', 'big_votes_tie', 'fraction_votes_tie', 'cross_party_tie_big', 'cross_party_tie_fraction',
                     'shared_evaluator', 'separate_evaluators', 'two_elections', 'second_after_refusal',
                     'other_configuration_first', 'zero_direct_and_seatless_voter', 'two_zero_vote_parties',
                     'house_0', 'house_1', 'house_below_direct', 'many_wasted_votes', 'multistage_3stages',
                     'multistage_3stages_depth2', 'allocator_default', 'apportioner_int',
                     'cty_tie_in_constituency', 'cty_tie_floor_unreachable', 'lower_ratio_tier_party', 'lower_ratio_sl',
                     'lower_ratio_lr', 'flat_tie_floor', 'flat_tie_floor_never_recurs']
RULE = ('second-vote dicts over 2-6 parties: tie-forcing small sets, zero-vote parties (also two or more, also all), ints up to '
        '10^30 incl. 2^53+-1 and near ties (v, v+1), Fractions, every value as a Fraction object (12 %), exact ties at the '
        'levelling boundary scaled to 10^18 / 10^30 / thirds / sevenths and between parties with different votes a*K, b*K; '
        'baseline house sizes 0..30 and houses below the direct seats (while the parties outside the tier fit); direct-seat '
        'maps (none, below the share, skewed above it, random; parties with direct seats but no proportional seat, without '
        'a votes entry, with zero votes next to voters without any seat; 5-6 parties with a quarter of the votes wasted); '
        "proportional evaluator in {HighestAverages('d_hondt' | 'sainte_lague' | modified_first_coef(d_hondt, 3/2) | "
        "modified_first_coef(sainte_lague, 7/5) with the coefficient as Fraction / Decimal / library default / dyadic "
        "float), LargestRemainder('hare')}; calculators AllowOverhang, LevelOverhang (flat) and "
        'LevelOverhangByConstituency (2-3 constituencies; apportionment dict 0..8, int, or an apportioning evaluator; '
        'overall evaluator given or the default), alone (overhang_calc) and inside AdjustedSeatCount (adjusted_eval; '
        'calculator and distributor sharing ONE evaluator object or separate ones; distributing evaluator = the same or '
        'another; ByParty(overall, allocator | None) for the by-constituency variant), bare or as last stage of '
        'MultistageDistributor with one or two fixed-outcome stages before it (depth 1 / 2); adjusted_seq: the same '
        'objects on 2-3 elections in a row (larger before smaller, after a refused election, after a differently configured '
        'evaluator); levelling bounded by 200 evaluator calls on both sides. Naming: a quarter of all cases under int0 / '
        'empty0 / person; a third of the by-constituency cases with a constituency that is the same object as a party. '
        'Thorough tier adds all vote vectors {0..3}^2 (n<=5) and {0..2}^3 (n<=3) x all direct maps (entries <= 2, one party '
        'without votes) x 3 evaluators x {allow, level}. Non-trivial = a non-error result with at least one direct seat; '
        'distinct by canonical request.')
NOT_VERIFIED = [
    'the clause "final totals = proportional distribution of the enlarged house" is stated (oracle clause '
    'final_not_proportional, theorems level_final_is_proportional / _lr) for seat holders WITH votes: among parties nobody '
    'voted for all quotients are 0 and whether two of them are seated in one batch or reported as a Tie depends on where '
    'the highest-averages run starts (from scratch vs. from the direct seats), e.g. D\'Hondt {A:0, C:0}, 2 seats, A holds one '
    'directly: from scratch {A:1, C:1}, continued {Tie(A,C):1}',
    'the oracle computes every proportional distribution itself (textbook divisor sequences and Hare quota with exact '
    'Fractions); votelib\'s evaluators are asked only for the KIND of refusal (house 0, nobody has votes) and for the '
    'degenerate all-zero-votes outcome',
    'HighestAverages is the C01 model (unordered pool instead of the sorted list with bisect re-insertion); Tie keys are '
    'compared after sorting their members (frozenset equality)',
    "LargestRemainder('hare') is a minimal hand model (Hare quota, accept_equal, on_overaward='error', no max_seats; the "
    'cap-overshoot branch is unreachable for the Hare quota and answers Unmodelled); final = proportional is discharged '
    'for HighestAverages only',
    'the unfuelled while-loops are modelled with fuel = 200 evaluator calls; the same bound is imposed on the real code '
    'by a transparent counting proxy around the evaluator (FuelExhausted on both sides)',
    'max_seats is passed through by the flat models but always {} in the generated cases; the by-constituency models '
    'take no max_seats',
    'direct seats of parties outside the tier exceeding the house (n_seats < nonprop_drop) are outside the model '
    '(Unmodelled) and outside the quantifier (direct seats sum to at most the house size)',
    'ByConstituency is modelled without preselector, for a fixed per-constituency apportionment or an apportioning '
    'evaluator given an integer n_seats; ByParty for simple votes with max_seats = {}; the dispatch helpers '
    '(accepts_seats / accepts_prev_gains / accepts_max_seats, inspect.signature) are not modelled — every inner evaluator '
    'used here takes all three',
    'MultistageDistributor: first stage = an evaluator with a fixed outcome (as MockEvaluator in tests/real/test_real_mmp.py); '
    'depth 2 iterates a set of constituencies, the model uses list order and results are compared as sorted maps',
]
UNPROVED = [
    'final totals = proportional distribution when nobody / not everybody has votes: the highest-averages theorems need '
    'positive votes for every party (final_zero_votes_witness shows the clause failing when nobody has votes); with '
    'ties in the enlarged house both evaluators are proved (level_final_is_proportional_tie, _lr_tie)',
    'termination of the FLAT LevelOverhang when the baseline result contains a Tie key is NOT a theorem: with a modified '
    'first divisor it diverges (open finding C15-flat-tie-floor-nontermination, level_flat_tie_witness: 40 enlargements '
    'checked in Lean, 20000 in Python, plus the argument that the tie never recurs).  For D\'Hondt, plain Sainte-Lague '
    'and Hare-LR no diverging input exists among all vote vectors {1..9}^<=3, houses <= 8 (158636 tied baselines) and '
    'there is an informal recurrence argument, but no proof: level_terminates (no Tie key) and '
    'level_terminates_of_adequate (one adequate house size given) are what is proved; the fuel hypothesis stays.  By '
    'constituency ties are refused (level_cty_refuses_tie) and level_cty_terminates covers tie-free floors',
]
EXHAUSTIVE = {'thorough': True}
NAMES = Names(prefix='p')
CNAMES = Names(prefix='c')
EVALS = ['d_hondt', 'sainte_lague', 'hare_lr']
FUEL = 200          # evaluator calls the levelling loop may make (same bound in the model)


class FuelExhausted(Exception):
    pass


class _Capped:
    """transparent proxy around a real evaluator that bounds the number of calls (so that a levelling loop that
    does not terminate becomes an observable instead of a hang)"""
    def __init__(self, ev, cap):
        # the attribute is called `evaluator` so that votelib's dispatch helpers (accepts_seats, accepts_prev_gains,
        # accepts_max_seats) look through the generic signature to the wrapped evaluator
        self.evaluator, self.cap, self.calls = ev, cap, 0

    def evaluate(self, *a, **k):
        self.calls += 1
        if self.calls > self.cap:
            raise FuelExhausted()
        return self.evaluator.evaluate(*a, **k)


class _Mock:
    """first stage with a fixed outcome (tests/real/test_real_mmp.py MockEvaluator)"""
    def __init__(self, res):
        self.res = res

    def evaluate(self, *a, **k):
        return dict(self.res)


HA_EVALS = ['d_hondt', 'sainte_lague', 'd_hondt_mod', 'sainte_lague_mod']
ALL_EVALS = EVALS + ['d_hondt_mod', 'sainte_lague_mod']
_MOD = {'d_hondt_mod': ('d_hondt', Fraction(3, 2)), 'sainte_lague_mod': ('sainte_lague', Fraction(7, 5))}


def _ev(name, coeftype='fraction'):
    """a FRESH evaluator object.  '<divisor>_mod' = HighestAverages(modified_first_coef(divisor, c)) with c = 3/2
    (D'Hondt) or 7/5 (Sainte-Lague); `coeftype` says as what the coefficient is handed over: Fraction, Decimal, the
    library default (Decimal('1.4'), Sainte-Lague only) or a dyadic float (1.5, D'Hondt only) - all the same number"""
    import votelib.evaluate.proportional as vp
    import votelib.component.divisor as vd
    from decimal import Decimal
    if name == 'hare_lr':
        return vp.LargestRemainder('hare')
    if name in _MOD:
        base, c = _MOD[name]
        f = getattr(vd, base)
        if coeftype == 'default' and name == 'sainte_lague_mod':
            return vp.HighestAverages(vd.modified_first_coef(f))
        if coeftype == 'decimal':
            return vp.HighestAverages(vd.modified_first_coef(f, Decimal(c.numerator) / Decimal(c.denominator)))
        if coeftype == 'float' and name == 'd_hondt_mod':
            return vp.HighestAverages(vd.modified_first_coef(f, 1.5))
        return vp.HighestAverages(vd.modified_first_coef(f, c))
    return vp.HighestAverages(name)


def _cev(case, key='evaluator'):
    """the evaluator object the IMPLEMENTATION side uses for case[key] (coefficient type per case)"""
    return _ev(case[key], case.get('_coeftype', 'fraction'))


def _num(s, vtype='auto'):
    f = Fraction(s)
    if vtype == 'fraction':
        return f                     # always a Fraction object, also Fraction(0) and integer-valued ones
    return int(f) if f.denominator == 1 else f


def _votes(case):
    return {NAMES.n(i): _num(s, case.get('_vtype', 'auto')) for i, s in case['votes']}


def _seats(pairs):
    return {NAMES.n(i): k for i, k in pairs}


def _cn(case, c):
    """constituency object of id c.  `_cnames` = 'p': constituencies are named like the parties ('p0', 'p1', …), i.e.
    constituency i and party i are the same object (under the naming modes int0 / empty0 of common.Names this already
    holds for all ids / for id 0, whatever `_cnames` says)"""
    return NAMES.n(c) if case.get('_cnames') == 'p' else CNAMES.n(c)


def _ci(case, name):
    return NAMES.i(name) if case.get('_cnames') == 'p' else CNAMES.i(name)


def _cvotes(case):
    return {_cn(case, c): {NAMES.n(i): _num(s, case.get('_vtype', 'auto')) for i, s in vs} for c, vs in case['cvotes']}


def _cprev(case, key='cprev'):
    return {_cn(case, c): _seats(ps) for c, ps in case.get(key, [])}


def _add_nested(a, b):
    out = {c: dict(d) for c, d in a.items()}
    for c, d in b.items():
        row = out.setdefault(c, {})
        for p, k in d.items():
            row[p] = row.get(p, 0) + k
    return out


def _cprev_total(case):
    """direct seats by constituency seen by the adjusted stage: with three stages the sum of the two fixed stages"""
    if case.get('wrap') == 'multistage3':
        return _add_nested(_cprev(case), _cprev(case, 'cprev2'))
    return _cprev(case)


def _direct_pairs(case):
    """direct seats (ids) seen by the adjusted stage of a flat case"""
    d = {}
    for i, k in case['prev'] + (case.get('prev2', []) if case.get('wrap') == 'multistage3' else []):
        d[i] = d.get(i, 0) + k
    return d


_CALC = {'allow': 'AllowOverhang', 'level': 'LevelOverhang'}


def _flat_objects(case):
    """(calculator used to report the adjustment, its proxy, AdjustedSeatCount object, its calculator's proxy).
    `_share` = 'shared': ONE evaluator object serves as the calculator's evaluator and as the distributing evaluator,
    and the calculator object that reports the adjustment is the one inside AdjustedSeatCount; 'separate' (default):
    fresh objects everywhere"""
    import votelib.evaluate.core as vc
    cls = getattr(vc, _CALC[case['kind']])
    if case.get('_share') == 'shared' and case.get('final', case['evaluator']) == case['evaluator']:
        e = _cev(case)
        px = _Capped(e, 1 + case['fuel'])
        calc = cls(px)
        return calc, px, vc.AdjustedSeatCount(calc, e), px
    px1 = _Capped(_cev(case), 1 + case['fuel'])
    px2 = _Capped(_cev(case), 1 + case['fuel'])
    return cls(px1), px1, vc.AdjustedSeatCount(cls(px2), _cev(case, 'final') if 'final' in case else _cev(case)), px2


def _cty_calc(case):
    import votelib.evaluate.core as vc
    ev = _cev(case)
    capp = case.get('capp', 'fixed')
    if capp == 'fixed':
        apportioner = {_cn(case, c): k for c, k in case['app']}
    elif capp == 'uniform':
        apportioner = case['app'][0][1]          # an int: the same number of seats for every constituency
    else:
        apportioner = _ev(capp)
    cev = vc.ByConstituency(ev, apportioner=apportioner)
    if case.get('overall', 'given') == 'given':
        return vc.LevelOverhangByConstituency(cev, overall_evaluator=_Capped(_cev(case), 1 + case['fuel']))
    # default overall evaluator = the constituency evaluator re-run and merged: one call for the constituency results,
    # one for the first overall result, then the loop
    return vc.LevelOverhangByConstituency(_Capped(cev, 2 + case['fuel']))


def _enc_nested(res, case=None):
    """{constituency | Tie: {party | Tie: seats}} -> sorted [[ckey, [[pkey, seats], ...]], ...]"""
    import votelib.evaluate.core as vcore
    out = []
    for c, d in res.items():
        ck = {'tie': sorted(_ci(case or {}, x) for x in c)} if isinstance(c, vcore.Tie) else _ci(case or {}, c)
        out.append([ck, enc_distribution(d, NAMES)])
    out.sort(key=lambda p: json.dumps(p[0], sort_keys=True))
    return out


def _canon_nested(model_out):
    if isinstance(model_out, dict):
        return model_out
    out = [[canon(k), canon_dist(d)] for k, d in model_out]
    out.sort(key=lambda p: json.dumps(p[0], sort_keys=True))
    return out


def _intres(x):
    return x if isinstance(x, int) and not isinstance(x, bool) else num_str(x)


def _sum_seats(a, b):
    out = dict(a)
    for p, k in b.items():
        out[p] = out.get(p, 0) + k
    return out


def _flat_eval(case, calc, px, asc, px2):
    """one election through the given objects"""
    import votelib.evaluate.core as vc
    votes, prev, caps = _votes(case), _seats(case['prev']), _seats(case['max'])
    wrap = case['wrap']
    seen = _sum_seats(prev, _seats(case.get('prev2', []))) if wrap == 'multistage3' else prev
    px.calls = 0
    adj = guarded(lambda: _intres(calc.calculate(votes, case['n'], prev_gains=seen, max_seats=caps)))
    px2.calls = 0
    if wrap == 'multistage3':
        ms = vc.MultistageDistributor([_Mock(prev), _Mock(_seats(case.get('prev2', []))), asc])
        res = guarded(lambda: enc_distribution(ms.evaluate(votes, case['n'], max_seats=caps), NAMES))
    elif wrap == 'multistage':
        ms = vc.MultistageDistributor([_Mock(prev), asc])
        res = guarded(lambda: enc_distribution(ms.evaluate(votes, case['n'], max_seats=caps), NAMES))
    else:
        res = guarded(lambda: enc_distribution(asc.evaluate(votes, case['n'], prev_gains=prev, max_seats=caps), NAMES))
    return {'adj': adj, 'result': res}


def _election(case, e):
    c = {k: v for k, v in case.items() if k != 'elections'}
    c.update(e)
    c['op'] = 'adjusted_eval'
    return c


def impl(case):
    import votelib.evaluate.core as vc
    if case['op'] == 'overhang_calc':
        if case['kind'] == 'level_cty':
            return guarded(lambda: _intres(_cty_calc(case).calculate(_cvotes(case), case['n'], prev_gains=_cprev(case))))
        votes, prev, caps = _votes(case), _seats(case['prev']), _seats(case['max'])
        calc = _flat_objects(case)[0]
        return guarded(lambda: _intres(calc.calculate(votes, case['n'], prev_gains=prev, max_seats=caps)))
    if case['op'] == 'adjusted_eval' and case['kind'] == 'level_cty':
        cvotes, cprev, n = _cvotes(case), _cprev(case), case['n']
        seen = _cprev_total(case)
        adj = guarded(lambda: _intres(_cty_calc(case).calculate(cvotes, n, prev_gains=seen)))
        alloc = _cev(case, 'alloc') if case.get('alloc') else None      # None: ByParty reuses its overall evaluator
        asc = vc.AdjustedSeatCount(_cty_calc(case), vc.ByParty(_cev(case, 'final'), allocator=alloc))
        if case['wrap'] == 'multistage3':
            ms = vc.MultistageDistributor([_Mock(cprev), _Mock(_cprev(case, 'cprev2')), asc], depth=2)
            res = guarded(lambda: _enc_nested(ms.evaluate(cvotes, n), case))
        elif case['wrap'] == 'multistage':
            ms = vc.MultistageDistributor([_Mock(cprev), asc], depth=2)
            res = guarded(lambda: _enc_nested(ms.evaluate(cvotes, n), case))
        else:
            res = guarded(lambda: _enc_nested(asc.evaluate(cvotes, n, prev_gains=cprev), case))
        return {'adj': adj, 'result': res}
    if case['op'] == 'adjusted_eval':
        return _flat_eval(case, *_flat_objects(case))
    if case['op'] == 'adjusted_seq':
        # the SAME calculator / AdjustedSeatCount objects on several elections in a row; optionally a differently
        # configured evaluator of the same class is used once before (module-level or class-level caches)
        if case.get('_warm'):
            e0 = _election(case, case['elections'][0])
            guarded(lambda: _ev(case['_warm']).evaluate(_votes(e0), max(e0['n'], 1)))
        objs = _flat_objects(case)
        return [_flat_eval(_election(case, e), *objs) for e in case['elections']]
    raise ValueError(case['op'])


def model_line(case):
    m = strip_case(case)
    if m.get('capp') == 'uniform':
        m['capp'] = 'fixed'                       # apportioner=int k  ==  {constituency: k for all}
    if case.get('kind') == 'level_cty' and case['op'] == 'adjusted_eval' and not m.get('alloc'):
        m['alloc'] = m['final']                   # allocator=None: the overall evaluator is reused
    return m


def compare(case, iobs, mobs):
    if case['op'] == 'adjusted_seq':
        if not isinstance(mobs, list) or len(mobs) != len(iobs):
            return f'impl={json.dumps(canon(iobs))} model={json.dumps(mobs)}'
        for k, (e, io, mo) in enumerate(zip(case['elections'], iobs, mobs)):
            d = compare(_election(case, e), io, mo)
            if d:
                return f'election {k}: {d}'
        return None
    if case['op'] == 'adjusted_eval':
        a = canon(iobs)
        b = {'adj': mobs.get('adj'), 'result': mobs.get('result')}
        if not isinstance(b['result'], dict):
            b['result'] = _canon_nested(b['result']) if case['kind'] == 'level_cty' else canon_dist(b['result'])
        if a != b:
            return f'impl={json.dumps(a)} model={json.dumps(b)}'
        return None
    if canon(iobs) != canon(mobs):
        return f'impl={json.dumps(canon(iobs))} model={json.dumps(canon(mobs))}'
    return None


# ------------------------------------------------------------------------------------------------
# oracle: the property, recomputed by brute force with the real proportional evaluators as black boxes

class _Refused(Exception):
    def __init__(self, name):
        self.name = name


def _key(k):
    import votelib.evaluate.core as vc
    if isinstance(k, vc.Tie):
        return ('tie',) + tuple(sorted(NAMES.i(c) for c in k))
    return NAMES.i(k)


def _divisor(evname):
    """textbook divisor sequences (own definitions, nothing taken from votelib)"""
    if evname == 'd_hondt':
        return lambda k: Fraction(k + 1)
    if evname == 'sainte_lague':
        return lambda k: Fraction(2 * k + 1)
    if evname == 'd_hondt_mod':
        return lambda k: Fraction(3, 2) if k == 0 else Fraction(k + 1)
    if evname == 'sainte_lague_mod':
        return lambda k: Fraction(7, 5) if k == 0 else Fraction(2 * k + 1)
    raise KeyError(evname)


def _textbook(evname, votes, h):
    """the proportional distribution of h seats by the textbook rule, computed with exact Fractions from scratch:
    {id | ('tie', ids…): seats}.  Returns None where the textbook has nothing to say (no house, nobody has votes, a
    tie that involves parties without votes) - the caller then asks votelib, which only matters for the KIND of refusal
    or for the degenerate all-tie outcome.
      divisor methods: the h largest quotients v/d(k); if the h-th and (h+1)-th largest are equal, the parties whose next
      quotient equals that value share the seats that are left as one Tie;
      Hare largest remainder: whole quotas of q = total/h, the seats left go to the largest remainders, ties likewise."""
    vs = {i: Fraction(v) for i, v in votes.items()}
    if h < 1 or not vs or any(v < 0 for v in vs.values()) or sum(vs.values()) <= 0:
        return None
    pos = {i: v for i, v in vs.items() if v > 0}
    if evname == 'hare_lr':
        q = sum(vs.values()) / h
        seats = {i: int(v / q) for i, v in vs.items()}              # whole quotas (v >= 0: floor)
        left = h - sum(seats.values())
        rem = sorted(((v / q - seats[i], i) for i, v in vs.items()), key=lambda t: -t[0])
        if left > len(rem):
            return None
        out = {i: k for i, k in seats.items() if k}
        if left == 0:
            return out
        cut = rem[left - 1][0]
        if left < len(rem) and rem[left][0] == cut:
            above = [i for r, i in rem if r > cut]
            level = [i for r, i in rem if r == cut]
            for i in above:
                out[i] = out.get(i, 0) + 1
            out[('tie',) + tuple(sorted(level))] = left - len(above)
        else:
            for r, i in rem[:left]:
                out[i] = out.get(i, 0) + 1
        return out
    quots = _quot_table(evname, tuple(sorted(pos.items())), h + 1)
    cut = quots[h - 1][0]
    a = h - 1
    while a > 0 and quots[a - 1][0] == cut:
        a -= 1
    b = h - 1
    while b + 1 < len(quots) and quots[b + 1][0] == cut:
        b += 1
    out = {}
    for _, i, _ in quots[:a]:
        out[i] = out.get(i, 0) + 1
    if b + 1 <= h:
        for _, i, _ in quots[a:b + 1]:
            out[i] = out.get(i, 0) + 1
        return out
    out[('tie',) + tuple(sorted({i for _, i, _ in quots[a:b + 1]}))] = h - a
    return out


_QT = {}


def _quot_table(evname, items, need):
    """all quotients v/d(k), k < K, largest first (K >= need; the h largest of them are the h largest overall as long as
    h < K because every party's quotients decrease in k)"""
    key = (evname, items)
    t = _QT.get(key)
    if t is None or t[0] < need:
        K = max(need, 64 if t is None else 2 * t[0])
        d = _divisor(evname)
        tab = sorted(((v / d(k), i, k) for i, v in items for k in range(K)), key=lambda x: -x[0])
        if len(_QT) > 64:
            _QT.clear()
        t = _QT[key] = (K, tab)
    return t[1]


def _bb(evname, votes, h, prev=None, names=None):
    """black box: proportional distribution of h seats -> {party id | ('tie', ids…): seats}; from the textbook rule
    (`_textbook`); votelib itself is asked only where the textbook is silent (refusals, nobody has votes)"""
    ni = (names or NAMES).i if not callable(names) else names
    if prev is None:
        tb = _textbook(evname, {ni(k): v for k, v in votes.items()}, h)
        if tb is not None:
            return tb
    ev = _ev(evname)
    try:
        if prev is None:
            r = call_with_timeout(lambda: ev.evaluate(votes, h), 5)
        else:
            r = call_with_timeout(lambda: ev.evaluate(votes, h, prev_gains=prev), 5)
    except Exception as e:      # noqa
        raise _Refused(err_name(e))
    import votelib.evaluate.core as vc
    return {(('tie',) + tuple(sorted(ni(c) for c in k)) if isinstance(k, vc.Tie) else ni(k)): v for k, v in r.items()}


def _expected_level(evname, votes, n, direct, fuel):
    """literal reading of the levelling clause.  Returns dict with baseline, tier, floors, drop, least (or None)"""
    base = _bb(evname, votes, n)
    tier = list(base.keys())
    floors = {p: max(direct.get(p, 0) if not isinstance(p, tuple) else 0, base[p]) for p in tier}
    drop = sum(k for p, k in direct.items() if p not in base)
    tier_overhang = any(direct.get(p, 0) > base[p] for p in tier if not isinstance(p, tuple))
    least = None
    seq = []
    for e in range(0, fuel + 1):
        h = n + e - drop
        if h < 0:
            continue
        try:
            r = base if h == n else _bb(evname, votes, h)
        except _Refused as x:
            if h >= n:
                raise
            continue
        seq.append(r)
        if all(r.get(p, 0) >= floors[p] for p in tier):
            least = e
            break
    # what the house sizes on the way exercise (mechanism tags): a Tie reported at a house size before the final one;
    # a tier party losing a seat when the house grows by one (Alabama paradox) with no tie involved
    mid_tie = least is not None and tier_overhang and any(isinstance(k, tuple) for r in seq[:-1] for k in r)
    alabama = (least is not None and tier_overhang and not any(isinstance(k, tuple) for r in seq for k in r)
               and any(b.get(p, 0) < a.get(p, 0) for a, b in zip(seq, seq[1:]) for p in tier))
    return {'base': base, 'floors': floors, 'drop': drop, 'least': least, 'tier_overhang': tier_overhang,
            'mid_tie': mid_tie, 'alabama': alabama}


def _adj_clauses(case, adj, votes, direct):
    """clauses on the reported adjustment of a flat calculator; returns (violations, info)"""
    out = []
    n, evname = case['n'], case['evaluator']
    info = {}
    try:
        base = _bb(evname, votes, n)
    except _Refused as x:
        if adj == {'err': x.name}:
            return [], {'refused': x.name}
        return [('unexpected_result_on_refusal', f'evaluator refuses the baseline with {x.name}, adjuster gave {adj}')], {}
    overhang = {p: k - base.get(p, 0) for p, k in direct.items() if k > base.get(p, 0)}
    info['overhang'] = overhang
    info['base'] = base
    if case['kind'] == 'level':
        try:
            exp = _expected_level(evname, votes, n, direct, case['fuel'])
        except _Refused as x:
            if adj == {'err': x.name}:
                return [], {'refused': x.name}
            return [('unexpected_result_on_refusal', f'evaluator refuses with {x.name}, adjuster gave {adj}')], info
        info.update(exp)
    if isinstance(adj, dict):
        if adj.get('err') == 'FuelExhausted' and case['kind'] == 'level' and info.get('least') is None:
            info['fuel_exhausted'] = True
            if any(isinstance(k, tuple) for k in info.get('floors', {})):
                # the property promises a reported adjustment; with a floor on a Tie object the loop need not end
                # (the tie has to recur with the same members), so an exhausted bound is not excused here
                return [('level_does_not_terminate_tie_floor',
                         f'no adjustment after {case["fuel"]} enlargements; floors {info["floors"]}')], info
            return [], info
        return [('unexpected_error:' + str(adj.get('err')), str(adj))], info
    if not isinstance(adj, int) or adj < 0:
        return [('adj_negative', str(adj))], info
    if not overhang and adj != 0:
        out.append(('adj_nonzero_without_overhang', f'adjustment {adj}, baseline {base}, direct {direct}'))
    if case['kind'] == 'allow':
        want = sum(overhang.values())
        if adj != want:
            out.append(('allow_adj_ne_overhang', f'adjustment {adj}, overhang seats {want}'))
    else:
        least = info['least']
        if least is None:
            # no adequate enlargement up to the bound: in particular the reported one is not adequate
            out.append(('level_floor_unmet', f'adjustment {adj}, no adequate enlargement up to {case["fuel"]}; floors {info["floors"]}'))
        elif adj < least:
            # the proportional distribution of n + adj - drop seats does not meet the floors
            if adj == 0 and info['drop'] > 0 and not info['tier_overhang']:
                out.append(('level_floor_unmet_at_zero_with_party_outside_tier',
                            f'adjustment 0 but the distribution of {n}-{info["drop"]} seats does not give the tier its '
                            f'initial shares {info["floors"]}; least adequate enlargement {least}'))
            else:
                out.append(('level_floor_unmet', f'adjustment {adj} < least adequate enlargement {least}; floors {info["floors"]}'))
        elif adj > least:
            out.append(('level_not_least', f'adjustment {adj} > least adequate enlargement {least}; floors {info["floors"]}'))
    return out, info


def _cty_results(case, cvotes, h):
    """black box: proportional result of every constituency when the constituency evaluator is asked for h seats
    (fixed apportionment: h is irrelevant; apportioned: the apportioner distributes h over the constituencies by
    their vote totals, a constituency that is not an individual key of the apportionment gets no seats)"""
    capp = case.get('capp', 'fixed')
    if capp in ('fixed', 'uniform'):
        app = {_cn(case, c): k for c, k in case['app']}
    else:
        ctot = {c: sum(dv.values()) for c, dv in cvotes.items()}
        byid = _bb(capp, ctot, h, names=lambda x: _ci(case, x))
        app = {c: byid.get(_ci(case, c), 0) for c in cvotes}
    return {cty: (_bb(case['evaluator'], dv, app.get(cty, 0)) if app.get(cty, 0) != 0 else {}) for cty, dv in cvotes.items()}


def _cty_expected(case):
    """by-constituency levelling, literal: floors summed over constituencies, least e with overall(n-drop+e) >= floors"""
    cvotes, cprev, n = _cvotes(case), _cprev_total(case), case['n']
    props = _cty_results(case, cvotes, n)
    tier = []
    for r in props.values():
        for p in r:
            if p not in tier:
                tier.append(p)
    # every tier party: over all constituencies, at least its direct seats and its proportional seats there
    floors = {p: 0 for p in tier}
    ignored = False
    for cty in cvotes:
        d = {NAMES.i(p): k for p, k in cprev.get(cty, {}).items()}
        for p in tier:
            dk = d.get(p, 0) if not isinstance(p, tuple) else 0
            floors[p] += max(dk, props[cty].get(p, 0))
            if dk > 0 and p not in props[cty]:
                ignored = True
    for cty in cprev:
        if cty not in cvotes:
            for p, k in cprev[cty].items():
                if NAMES.i(p) in floors:
                    floors[NAMES.i(p)] += k
                    ignored = ignored or k > 0
    drop = sum(k for cty, d in cprev.items() for p, k in d.items() if NAMES.i(p) not in floors)
    totals = {}
    for dv in cvotes.values():
        for p, v in dv.items():
            totals[p] = totals.get(p, 0) + v

    def overall(h):
        if case.get('overall', 'given') == 'given':
            return _bb(case['evaluator'], totals, h)
        merged = {}
        for r in _cty_results(case, cvotes, h).values():
            for p, k in r.items():
                merged[p] = merged.get(p, 0) + k
        return merged
    least = None
    for e in range(0, case['fuel'] + 1):
        h = n - drop + e
        if h < 0:
            continue
        r = overall(h)
        if all(r.get(p, 0) >= m for p, m in floors.items()):
            least = e
            break
    cty_tie = any(isinstance(k, tuple) for r in props.values() for k in r)
    # a floor on a Tie object that no result can ever meet: a tie carries fewer seats than it has members
    unreachable = any(isinstance(k, tuple) and m >= len(k) - 1 for k, m in floors.items())
    return {'floors': floors, 'drop': drop, 'least': least, 'totals': totals, 'ignored': ignored,
            'cty_tie': cty_tie, 'unreachable': unreachable}


def _cty_adj_clauses(case, obs):
    """clauses on the adjustment reported by LevelOverhangByConstituency; returns (violations, expected | None)"""
    out = []
    if obs == {'err': 'AttributeError'} and case.get('overall') == 'none':
        return [('default_overall_evaluator_crashes:AttributeError', 'overall_evaluator=None')], None
    try:
        tie_present = any(isinstance(k, tuple) for r in _cty_results(case, _cvotes(case), case['n']).values() for k in r)
    except _Refused:
        tie_present = False
    if tie_present and obs == {'err': 'VotingSystemError'}:
        # a tied seat has no owner, so there is no minimum to level against: a declared refusal is a report
        return [], None
    try:
        exp = _cty_expected(case)
    except _Refused as x:
        if obs == {'err': x.name}:
            return [], None
        return [('unexpected_result_on_refusal', f'evaluator refuses with {x.name}, adjuster gave {obs}')], None
    if isinstance(obs, dict):
        if exp['cty_tie'] and obs.get('err') == 'VotingSystemError':
            # a tied seat has no owner, so there is no minimum to level against: a declared refusal is a report
            return [], None
        if obs.get('err') == 'FuelExhausted' and exp['least'] is None:
            if any(isinstance(k, tuple) for k in exp['floors']):
                # the property promises a reported non-negative adjustment; with a floor on a Tie object the loop has
                # no reason to end (certainly not when the floor is at least the number of tie members)
                return [('does_not_terminate', f'no adjustment after {case["fuel"]} enlargements; floors {exp["floors"]}'
                         + (' (a tie floor that no result can meet)' if exp['unreachable'] else ''))], None
            return [], None          # tie-free floors: the loop ends (level_cty_terminates), only the harness bound was hit
        return [('unexpected_error:' + str(obs.get('err')), str(obs))], None
    if not isinstance(obs, int) or obs < 0:
        return [('adj_negative', str(obs))], None
    if exp['least'] is None or obs < exp['least']:
        # (no adequate enlargement up to the bound: in particular the reported one is not adequate)
        cl = 'level_cty_floor_ignores_direct_seats_without_local_share' if exp['ignored'] else 'level_floor_unmet'
        least = exp['least'] if exp['least'] is not None else f'> {case["fuel"]}'
        out.append((cl, f'adjustment {obs} < least adequate enlargement {least}; floors {exp["floors"]}'))
    elif obs > exp['least']:
        out.append(('level_not_least', f'adjustment {obs} > least adequate enlargement {exp["least"]}; floors {exp["floors"]}'))
    return out, exp


def _oracle_cty_eval(case, obs):
    adj, res = obs['adj'], obs['result']
    out, exp = _cty_adj_clauses(case, adj)
    if isinstance(adj, dict):
        if not isinstance(res, dict) or res.get('err') != adj.get('err'):
            out.append(('result_despite_calculator_error', f'adj {adj} result {res}'))
        return out
    root = any(cl == 'level_cty_floor_ignores_direct_seats_without_local_share' for cl, _ in out)
    if isinstance(res, dict):
        cl = ('final_stage_error_after_ignored_direct_seats:' if root else
              'final_stage_error_by_party_outside_tier:' if exp is not None and exp['drop'] > 0 else 'final_stage_error:')
        return out + [(cl + str(res.get('err')) + ':' + case['final'], f'adjustment {adj}')]
    n = case['n']
    direct = {}
    for c, ps in case['cprev'] + (case.get('cprev2', []) if case['wrap'] == 'multistage3' else []):
        for i, k in ps:
            direct.setdefault(c, {})
            direct[c][i] = direct[c].get(i, 0) + k
    totals = {}
    for ck, d in res:
        ck = ('tie',) + tuple(ck['tie']) if isinstance(ck, dict) else ck
        for k, s in d:
            kk = ('tie',) + tuple(k['tie']) if isinstance(k, dict) else k
            totals.setdefault(ck, {})[kk] = s
            if not isinstance(s, int) or s < 0:
                out.append(('negative_gain', str(res)))
    if case['wrap'] not in ('multistage', 'multistage3'):
        for c, d in direct.items():
            for p, k in d.items():
                totals.setdefault(c, {})[p] = totals.get(c, {}).get(p, 0) + k
    for c, d in direct.items():
        for p, k in d.items():
            if totals.get(c, {}).get(p, 0) < k:
                out.append(('direct_seat_lost', f'constituency {c} party {p}: {totals.get(c, {}).get(p, 0)} < {k}'))
    house = sum(s for d in totals.values() for s in d.values())
    if house != n + adj:
        outside = exp is not None and exp['drop'] > 0
        cl = ('house_size_after_ignored_direct_seats' if root else
              'house_size_by_party_outside_tier' if outside else 'house_size')
        out.append((cl, f'house {house}, baseline {n} + adjustment {adj}'))
    if exp is not None and exp['drop'] == 0 and case['final'] == case['evaluator'] and not out:
        try:
            full = _bb(case['final'], exp['totals'], n + adj)
            by_party = {}
            for d in totals.values():
                for p, s in d.items():
                    by_party[p] = by_party.get(p, 0) + s
            if {k: s for k, s in by_party.items() if s} != {k: s for k, s in full.items() if s}:
                out.append(('final_not_proportional', f'party totals {by_party}, proportional distribution of {n + adj} seats {full}'))
        except _Refused as x:
            out.append(('final_not_proportional', f'proportional evaluator refuses {n + adj} seats: {x.name}'))
    return out


def oracle(case, obs):
    out = []
    if case['op'] == 'adjusted_seq':
        for k, (e, o) in enumerate(zip(case['elections'], obs)):
            out += [(cl, f'election {k}: {d}') for cl, d in oracle(_election(case, e), o)]
        return out
    if case['op'] == 'overhang_calc' and case['kind'] == 'level_cty':
        return _cty_adj_clauses(case, obs)[0]
    if case['op'] == 'adjusted_eval' and case['kind'] == 'level_cty':
        return _oracle_cty_eval(case, obs)
    votes = _votes(case)
    direct = _direct_pairs(case)
    n = case['n']
    if case['op'] == 'overhang_calc':
        v, _ = _adj_clauses(case, obs, votes, direct)
        return v
    # adjusted_eval
    adj, res = obs['adj'], obs['result']
    v, info = _adj_clauses(case, adj, votes, direct)
    out += v
    if isinstance(adj, dict):
        if not isinstance(res, dict) or res.get('err') != adj.get('err'):
            out.append(('result_despite_calculator_error', f'adj {adj} result {res}'))
        return out
    if isinstance(res, dict):
        return out + [('final_stage_error:' + str(res.get('err')) + ':' + case['final'], f'adjustment {adj}')]
    gains_or_totals = {}
    for k, s in res:
        kk = ('tie',) + tuple(k['tie']) if isinstance(k, dict) else k
        gains_or_totals[kk] = s
    if any((not isinstance(s, int)) or s < 0 for s in gains_or_totals.values()):
        out.append(('negative_gain', str(res)))
    if case['wrap'] in ('multistage', 'multistage3'):
        totals = gains_or_totals
    else:
        totals = dict(gains_or_totals)
        for p, k in direct.items():
            totals[p] = totals.get(p, 0) + k
    for p, k in direct.items():
        if totals.get(p, 0) < k:
            out.append(('direct_seat_lost', f'party {p}: {totals.get(p, 0)} < {k} direct seats'))
    house = sum(totals.values())
    if house != n + adj:
        out.append(('house_size', f'house {house}, baseline {n} + adjustment {adj}'))
    if case['kind'] == 'level' and case['final'] == case['evaluator'] and info.get('drop') == 0 and not out:
        try:
            full = _bb(case['final'], votes, n + adj)
            # a "proportional distribution" among parties nobody voted for is a tie artefact (all quotients are 0; whether
            # two of them are seated in one batch or reported as a Tie depends on where the run starts): the clause is
            # stated for seat holders with votes
            vid = {i: Fraction(s_) for i, s_ in case['votes']}
            holders = [k for k in list(full) + list(totals) if not isinstance(k, tuple)]
            zero_holder = any(vid.get(k, 0) == 0 and (full.get(k, 0) or totals.get(k, 0)) for k in holders)
            if not zero_holder and {k: s for k, s in totals.items() if s} != {k: s for k, s in full.items() if s}:
                out.append(('final_not_proportional', f'totals {totals}, proportional distribution of {n + adj} seats {full}'))
        except _Refused as x:
            out.append(('final_not_proportional', f'proportional evaluator refuses {n + adj} seats: {x.name}'))
    return out


def nontrivial(case, obs):
    if case['op'] == 'adjusted_seq':
        return any(nontrivial(_election(case, e), o) for e, o in zip(case['elections'], obs))
    if case['op'] == 'adjusted_eval' and case['kind'] == 'level_cty':
        return not isinstance(obs['result'], dict) and any(k for _, ps in case['cprev'] for _, k in ps)
    if case['op'] == 'adjusted_eval':
        return not isinstance(obs['result'], dict) and any(k for _, k in case['prev'])
    if isinstance(obs, dict):
        return False
    if case['kind'] == 'level_cty':
        return any(k for _, ps in case['cprev'] for _, k in ps)
    return any(k for _, k in case['prev'])


# ------------------------------------------------------------------------------------------------
# generator

def _gen_votes(rng, m, kind):
    if kind == 'small':
        base = rng.choice([1, 2, 3, 6, 12])
        vs = [base * rng.choice([0, 1, 1, 2, 2, 3, 4, 6]) for _ in range(m)]
    elif kind == 'mid':
        vs = [rng.randint(0, 1000) for _ in range(m)]
    elif kind == 'skew':
        vs = [rng.randint(300, 1000)] + [rng.randint(20, 400) for _ in range(m - 1)]
        rng.shuffle(vs)
    else:
        # magnitudes beyond double precision; sometimes a near tie (v, v + 1) or an exact tie at that magnitude
        top = rng.choice([10 ** 12, 2 ** 53, 10 ** 18, 10 ** 30])
        vs = [rng.randint(top // 50, top) for _ in range(m)]
        if top == 2 ** 53:
            vs[0] = 2 ** 53 + rng.choice([-1, 0, 1])
        if m >= 2 and rng.random() < 0.5:
            vs[1] = vs[0] + rng.choice([0, 1, 1, -1])
    if all(v == 0 for v in vs):
        vs[rng.randrange(m)] = rng.randint(1, 5)
    if rng.random() < 0.08:
        d = rng.choice([2, 3])
        vs = [Fraction(v, d) for v in vs]
    return vs


def _share(vs, n):
    tot = sum(vs)
    return [Fraction(v * n, tot) for v in vs]


def _gen_direct(rng, m, vs, n, mode):
    """direct-seat map over ids 0..m (id m = party without a votes entry); sum <= n"""
    ids = list(range(m))
    direct = {}
    sh = _share(vs, n)
    if mode == 'none':
        pass
    elif mode == 'below':        # nobody above its (floored) share
        for i in ids:
            k = int(sh[i])
            if k > 0 and rng.random() < 0.7:
                direct[i] = rng.randint(0, k)
    elif mode == 'skew':         # one or two parties above their share
        for i in rng.sample(ids, rng.choice([1, 1, 2])):
            direct[i] = int(sh[i]) + rng.randint(1, 3)
        for i in ids:
            if i not in direct and rng.random() < 0.4:
                direct[i] = rng.randint(0, max(0, int(sh[i])))
    elif mode == 'outside':      # a party with direct seats but (probably) no proportional seat, or without votes
        who = rng.choice(['novotes', 'zero', 'tiny'])
        if who == 'novotes':
            direct[m] = rng.randint(1, 2)
        else:
            j = min(ids, key=lambda i: vs[i])
            direct[j] = rng.randint(1, 2)
        for i in ids:
            if i not in direct and rng.random() < 0.5:
                direct[i] = max(0, int(sh[i]) + rng.randint(-2, 1))
    else:
        budget = n
        order = ids + ([m] if rng.random() < 0.3 else [])
        rng.shuffle(order)
        for i in order:
            if budget > 0 and rng.random() < 0.6:
                k = rng.randint(0, min(budget, max(1, n // 2)))
                direct[i] = k
                budget -= k
    # trim to sum <= n
    items = list(direct.items())
    rng.shuffle(items)
    tot = 0
    res = []
    for i, k in items:
        k = min(k, n - tot)
        tot += k
        if k > 0 or rng.random() < 0.3:
            res.append([i, k])
    return res


def _coeftype(rng, ev):
    if ev == 'sainte_lague_mod':
        return rng.choice(['fraction', 'decimal', 'default'])
    if ev == 'd_hondt_mod':
        return rng.choice(['fraction', 'decimal', 'float'])
    return None


def _finish_flat(rng, c, wrap=None, share=None):
    """evaluator-object and wrapper dimensions of a flat adjusted_eval case"""
    ev = c['evaluator']
    ct = _coeftype(rng, ev)
    if ct:
        c['_coeftype'] = ct
        c['_tags'].append('coef_' + ct)
    if c['op'] != 'adjusted_eval':
        return c
    c.setdefault('final', ev if rng.random() < 0.9 else rng.choice(EVALS))
    c['wrap'] = wrap or rng.choice(['none', 'none', 'multistage', 'multistage', 'multistage3'])
    if c['wrap'] != 'none':
        c['_tags'].append('multistage_wrapped')
    if c['wrap'] == 'multistage3':
        # split the direct seats over two fixed stages (e.g. electorate seats and a second fixed tier)
        p1, p2 = [], []
        for i, k in c['prev']:
            a = rng.randint(0, k)
            if a or rng.random() < 0.3:
                p1.append([i, a])
            if k - a or rng.random() < 0.3:
                p2.append([i, k - a])
        c['prev'], c['prev2'] = p1, p2
        c['_tags'].append('multistage_3stages')
    if c['final'] == ev:
        c['_share'] = share or rng.choice(['shared', 'separate'])
        c['_tags'].append('shared_evaluator' if c['_share'] == 'shared' else 'separate_evaluators')
    return c


def _flat_case(rng, op=None, kind=None, ev=None, vkind=None, dmode=None, n=None, wrap=None, zero_party=False, m=None):
    m = m or rng.randint(2, 6)
    vkind = vkind or rng.choice(['small', 'small', 'mid', 'mid', 'skew', 'big'])
    vs = _gen_votes(rng, m, vkind)
    if zero_party:
        vs[rng.randrange(m)] = 0
        if all(v == 0 for v in vs):
            vs[0] = 7
    n = n or rng.randint(1, 30)
    dmode = dmode or rng.choice(['none', 'below', 'skew', 'skew', 'outside', 'random', 'random'])
    prev = _gen_direct(rng, m, vs, n, dmode)
    kind = kind or rng.choice(['allow', 'level', 'level'])
    ev = ev or rng.choice(ALL_EVALS)
    op = op or rng.choice(['overhang_calc', 'adjusted_eval'])
    c = {'op': op, 'kind': kind, 'evaluator': ev, 'votes': [[i, num_str(v)] for i, v in enumerate(vs)], 'n': n,
         'prev': prev, 'max': [], 'fuel': FUEL, '_tags': [kind, ev]}
    if rng.random() < 0.12:
        c['_vtype'] = 'fraction'
        c['_tags'].append('votes_all_fraction')
    if any(isinstance(v, Fraction) and v.denominator != 1 for v in vs):
        c['_tags'].append('votes_fraction')
    if max(vs) >= 10 ** 18:
        c['_tags'].append('votes_ge_1e18')
    return _finish_flat(rng, c, wrap=wrap)


def _cty_case(rng, ev=None, op=None, wrap=None, overall=None, clash=None):
    m = rng.randint(2, 5)
    nc = rng.randint(2, 3)
    ev = ev or rng.choice(ALL_EVALS)
    cvotes, cprev, app = [], [], []
    vkind = rng.choice(['small', 'mid', 'mid', 'skew', 'skew'])
    uniform = rng.randint(1, 6) if rng.random() < 0.12 else None
    for c in range(nc):
        vs = _gen_votes(rng, m, vkind)
        seats = uniform or rng.randint(0 if rng.random() < 0.1 else 1, 8)
        cvotes.append([c, [[i, num_str(v)] for i, v in enumerate(vs)]])
        app.append([c, seats])
        if seats:
            d = _gen_direct(rng, m, vs, seats, rng.choice(['none', 'below', 'skew', 'skew', 'outside', 'random']))
            if d or rng.random() < 0.5:
                cprev.append([c, d])
    n = sum(k for _, k in app) + rng.choice([0, 0, 0, 1, 2])
    if sum(k for _, ps in cprev for _, k in ps) > n:
        n = sum(k for _, ps in cprev for _, k in ps)
    overall = overall or ('none' if rng.random() < 0.2 else 'given')
    # constituency evaluator: fixed apportionment dict, or an apportioning evaluator (always in most default-overall cases:
    # with a fixed apportionment the default overall result does not depend on the house size)
    capp = 'uniform' if uniform else 'fixed'
    if (overall == 'none' and rng.random() < 0.85) or (overall == 'given' and not uniform and rng.random() < 0.2):
        capp = rng.choice(['d_hondt', 'sainte_lague', ev])
    c = {'op': op or rng.choice(['overhang_calc', 'adjusted_eval']), 'kind': 'level_cty', 'evaluator': ev,
         'overall': overall, 'capp': capp, 'cvotes': cvotes, 'cprev': cprev, 'app': app, 'n': n, 'fuel': FUEL,
         '_tags': ['by_constituency', ev]}
    if overall == 'none':
        c['op'] = 'overhang_calc'       # the distributing ByParty stage is specified for a nationwide overall evaluator
        c['_tags'].append('default_overall')
    if capp == 'uniform':
        c['_tags'].append('apportioner_int')
    elif capp != 'fixed':
        c['_tags'].append('apportioned')
    ct = _coeftype(rng, ev)
    if ct:
        c['_coeftype'] = ct
        c['_tags'].append('coef_' + ct)
    # name clash between key kinds: a constituency that is the same object as a party
    if clash is None:
        r = rng.random()
        clash = 'str' if r < 0.20 else 'int0' if r < 0.30 else 'empty0' if r < 0.36 else 'no'
    if clash == 'str':
        c['_cnames'] = 'p'                       # constituencies 'p0', 'p1', … next to parties 'p0', 'p1', …
    elif clash in ('int0', 'empty0'):
        c['_names'] = clash                      # common.Names: ids are the ints themselves / id 0 is ''
        c['_tags'].append('names:' + clash)
    if clash != 'no':
        c['_tags'] += ['cty_party_name_clash', 'clash_' + clash]
    if c['op'] == 'adjusted_eval':
        c['final'] = ev
        # the allocator distributes a party's seats over the constituencies; with LargestRemainder it divides by zero on
        # a tied overall result (ByParty treats the Tie as a party without votes), so as in the DE example the allocator
        # is a highest-averages evaluator
        c['alloc'] = ev if ev != 'hare_lr' else 'sainte_lague'
        if c['alloc'] == ev and rng.random() < 0.3:
            c['alloc'] = None                    # ByParty(overall, allocator=None): the overall evaluator allocates
            c['_tags'].append('allocator_default')
        c['wrap'] = wrap or rng.choice(['none', 'multistage', 'multistage', 'multistage3'])
        if c['wrap'] != 'none':
            c['_tags'] += ['multistage_wrapped', 'multistage_depth2']
        if c['wrap'] == 'multistage3':
            p1, p2 = [], []
            for cty, ps in c['cprev']:
                a1, a2 = [], []
                for i, k in ps:
                    a = rng.randint(0, k)
                    if a or rng.random() < 0.3:
                        a1.append([i, a])
                    if k - a or rng.random() < 0.3:
                        a2.append([i, k - a])
                if a1 or rng.random() < 0.5:
                    p1.append([cty, a1])
                if a2 or rng.random() < 0.5:
                    p2.append([cty, a2])
            c['cprev'], c['cprev2'] = p1, p2
            c['_tags'].append('multistage_3stages_depth2')
    return c


def _post_tags(case):
    """tags describing what the case exercises, from the black-box evaluators (not from the adjusters)"""
    t = case['_tags']
    if case['kind'] == 'level_cty':
        try:
            exp = _cty_expected(case)
        except _Refused:
            t.append('evaluator_refuses')
            return
        if exp['drop'] > 0:
            t.append('party_outside_tier')
        if exp['cty_tie']:
            t.append('cty_tie_in_constituency')
            if exp['unreachable']:
                t.append('cty_tie_floor_unreachable')
        if exp['least'] is not None and exp['least'] >= 2:
            t.append('levelling_iterations_ge2')
        if exp['least'] == 0:
            t.append('no_overhang')
        elif exp['least']:
            t.append('overhang_present')
        return
    votes = _votes(case)
    direct = _direct_pairs(case)
    vids = {i for i, _ in case['votes']}
    if any(i not in vids for i in direct):
        t.append('party_without_votes')
    try:
        base = _bb(case['evaluator'], votes, case['n'])
    except _Refused:
        t.append('evaluator_refuses')
        return
    if any(isinstance(k, tuple) for k in base):
        t.append('tie_in_baseline')
    over = {p: k - base.get(p, 0) for p, k in direct.items() if k > base.get(p, 0)}
    t.append('overhang_present' if over else 'no_overhang')
    if any(k > 0 and p not in base for p, k in direct.items()):
        t.append('party_outside_tier')
    if case['kind'] == 'level':
        try:
            exp = _expected_level(case['evaluator'], votes, case['n'], direct, case['fuel'])
            if exp['tier_overhang'] and exp['least'] is not None and exp['least'] - exp['drop'] >= 2:
                t.append('levelling_iterations_ge2')
            if exp['mid_tie'] and 'tie_in_baseline' not in t:
                t.append('intermediate_tie')
            if exp['alabama'] and case['evaluator'] == 'hare_lr':
                t.append('alabama_lr')
        except _Refused:
            pass


def _level_case(op, ev, votes, n, direct, wrap='none', tags=()):
    c = {'op': op, 'kind': 'level', 'evaluator': ev, 'votes': [[i, num_str(v)] for i, v in enumerate(votes)], 'n': n,
         'prev': [[i, k] for i, k in enumerate(direct) if k], 'max': [], 'fuel': FUEL, '_tags': ['level', ev] + list(tags)}
    if op == 'adjusted_eval':
        c['final'] = ev
        c['wrap'] = wrap
        if wrap == 'multistage':
            c['_tags'].append('multistage_wrapped')
    return c


# known instances (fallbacks so that the counters never depend on luck): an exact tie between two equal parties at an
# intermediate house size; the Alabama paradox under Hare largest remainder between 6 and 7 seats
_TIE_FALLBACK = [('d_hondt', [28000, 8000, 8000], 8, [2, 2, 2]), ('sainte_lague', [40000, 12000, 12000], 11, [2, 3, 3]),
                 ('hare_lr', [9, 2, 17, 5], 9, [0, 0, 1, 2])]
_ALABAMA_FALLBACK = [('hare_lr', [4080, 2831, 4193, 1440, 3862], 4, [2, 0, 0, 0, 2])]


def _directed_intermediate_tie(rng, count):
    """two parties with equal votes and overhang next to a bigger one: on the way up they tie for a seat"""
    out = []
    for ev, vs, n, d in _TIE_FALLBACK:
        out.append(_level_case(rng.choice(['overhang_calc', 'adjusted_eval']), ev, vs, n, d, tags=['directed']))
    tries = 0
    while len(out) < count and tries < 60 * count:
        tries += 1
        ev = rng.choice(EVALS)
        b = rng.choice([1, 2, 3, 5, 8, 1000])
        m = rng.choice([3, 3, 4])
        vs = [b * rng.randint(2, 9)] + [b * rng.randint(1, 3)] * 2 + [b * rng.randint(1, 6) for _ in range(m - 3)]
        n = rng.randint(4, 14)
        try:
            base = _bb(ev, {NAMES.n(i): v for i, v in enumerate(vs)}, n)
        except _Refused:
            continue
        if any(isinstance(k, tuple) for k in base) or 1 not in base or 2 not in base:
            continue
        d = [rng.randint(0, base.get(0, 0)), base[1] + rng.randint(0, 2), base[2] + rng.randint(1, 2)] + [0] * (m - 3)
        if sum(d) > n:
            continue
        c = _level_case(rng.choice(['overhang_calc', 'adjusted_eval']), ev, vs, n, d,
                        wrap=rng.choice(['none', 'multistage']), tags=['directed'])
        exp = _expected_level(ev, _votes(c), n, {i: k for i, k in c['prev']}, FUEL)
        if exp['mid_tie']:
            out.append(c)
    return out


def _directed_flat_tie_floor(rng, count):
    """flat LevelOverhang with a Tie key in the baseline AND overhang: the loop only ends when the same tie recurs.
    Includes the shape that never recurs: modified Sainte-Lague (first divisor 7/5), two parties with a votes each tied on
    their FIRST quotient and a third with 3a votes in overhang - at every later level of the two the third one joins
    the tie (3a/(6j+3) = a/(2j+1)), so Tie({A, B}) is never reported again."""
    out = []
    for a in (1, 2, 5, 10 ** 6):
        for extra in (0, 1):
            c = _level_case(rng.choice(['overhang_calc', 'adjusted_eval']), 'sainte_lague_mod', [a, a, 3 * a], 3,
                            [0, 0, 3 + extra], tags=['directed', 'flat_tie_floor_never_recurs'])
            out.append(_finish_flat(rng, c, wrap='none'))
    tries = 0
    while len(out) < count and tries < 60 * count:
        tries += 1
        ev = rng.choice(ALL_EVALS)
        m = rng.randint(3, 4)
        b = rng.choice([1, 2, 3])
        vs = [b * rng.randint(1, 3)] * 2 + [b * rng.randint(2, 9) for _ in range(m - 2)]
        n = rng.randint(2, 7)
        try:
            base = _bb(ev, {NAMES.n(i): v for i, v in enumerate(vs)}, n)
        except _Refused:
            continue
        if not any(isinstance(k, tuple) for k in base):
            continue
        tierp = [k for k in base if not isinstance(k, tuple)]
        if not tierp:
            continue
        j = rng.choice(tierp)
        d = [0] * m
        d[j] = base[j] + rng.randint(1, 2)
        if sum(d) > n:
            continue
        c = _level_case(rng.choice(['overhang_calc', 'adjusted_eval']), ev, vs, n, d, tags=['directed', 'flat_tie_floor'])
        out.append(_finish_flat(rng, c, wrap='none'))
    return out


def _directed_lower_ratio(rng, count):
    """a party in overhang next to a SECOND tier party that has fewer votes per seat of its minimum, yet reaches its
    minimum earlier (or has it already): the house size is decided by the party in overhang, not by the party with the
    lowest votes-per-minimum-seat ratio.  Possible under Sainte-Lague (quotient v/(2m-1)) and Hare-LR, impossible under
    D'Hondt (quotient v/m: a party holding m seats has at least the ratio of every party still short of its minimum) -
    D'Hondt inputs of the same shape are generated too, untagged."""
    out = []
    tries = 0
    per_ev = {}
    while len(out) < count and tries < 150 * count:
        tries += 1
        ev = ALL_EVALS[tries % len(ALL_EVALS)]
        m = rng.randint(3, 5)
        vs = [rng.randint(2500, 6000)] + [rng.randint(400, 3000) for _ in range(m - 2)] + [rng.randint(150, 900)]
        n = rng.randint(4, 14)
        try:
            base = _bb(ev, {NAMES.n(i): v for i, v in enumerate(vs)}, n)
        except _Refused:
            continue
        if any(isinstance(k, tuple) for k in base) or 0 not in base:
            continue
        d = [0] * m
        d[0] = base[0] + rng.randint(1, 3)
        if d[0] > n:
            continue
        floors = {p: max(d[p], k) for p, k in base.items()}
        ratios = {p: Fraction(vs[p], f) for p, f in floors.items() if f > 0}
        crit = min(ratios, key=lambda p: ratios[p])
        c = _level_case(rng.choice(['overhang_calc', 'adjusted_eval']), ev, vs, n, d,
                        wrap=rng.choice(['none', 'multistage']), tags=['directed'])
        exp = _expected_level(ev, _votes(c), n, {i: k for i, k in c['prev']}, FUEL)
        if exp['least'] is None:
            continue
        # first enlargement at which the lowest-ratio party alone has its minimum
        e_crit = None
        for e in range(0, exp['least'] + 1):
            if _bb(ev, {NAMES.n(i): v for i, v in enumerate(vs)}, n + e).get(crit, 0) >= floors[crit]:
                e_crit = e
                break
        differs = e_crit is not None and e_crit < exp['least']
        if ev in ('d_hondt', 'd_hondt_mod'):
            if per_ev.get(ev, 0) < count // 8:
                per_ev[ev] = per_ev.get(ev, 0) + 1
                out.append(_finish_flat(rng, c, wrap=c.get('wrap')))
            continue
        if not differs:
            continue
        c['_tags'] += ['lower_ratio_tier_party', 'lower_ratio_lr' if ev == 'hare_lr' else 'lower_ratio_sl']
        out.append(_finish_flat(rng, c, wrap=c.get('wrap')))
    return out


def _directed_alabama(rng, count):
    """Hare largest remainder, 4-5 parties, small house: keep the cases in which a tier party loses a seat while the
    house grows towards the levelled size"""
    out = []
    for ev, vs, n, d in _ALABAMA_FALLBACK:
        out.append(_level_case(rng.choice(['overhang_calc', 'adjusted_eval']), ev, vs, n, d, tags=['directed']))
    tries = 0
    while len(out) < count and tries < 400 * count:
        tries += 1
        m = rng.choice([4, 5, 5, 6])
        vs = [rng.randint(300, 5000) for _ in range(m)]
        n = rng.randint(3, 9)
        try:
            base = _bb('hare_lr', {NAMES.n(i): v for i, v in enumerate(vs)}, n)
        except _Refused:
            continue
        if any(isinstance(k, tuple) for k in base):
            continue
        d = [0] * m
        for i in rng.sample(range(m), 2):
            if i in base:
                d[i] = base[i] + rng.randint(1, 2)
        if sum(d) > n or not any(d):
            continue
        c = _level_case(rng.choice(['overhang_calc', 'adjusted_eval']), 'hare_lr', vs, n, d,
                        wrap=rng.choice(['none', 'multistage']), tags=['directed'])
        exp = _expected_level('hare_lr', _votes(c), n, {i: k for i, k in c['prev']}, FUEL)
        if exp['alabama']:
            out.append(c)
    return out


def _directed_scaled_ties(rng, count):
    """exact ties at the levelling boundary at magnitudes beyond double precision and with fractional votes: the
    intermediate-tie shapes, every vote multiplied by the same factor (highest averages / Hare-LR are scale invariant)"""
    out = []
    base = _directed_intermediate_tie(rng, count)
    for c in base[:count]:
        k = rng.choice([10 ** 18, 10 ** 30, 2 ** 61 - 1, Fraction(10 ** 18, 3), Fraction(1, 7), Fraction(2, 3)])
        c = dict(c)
        c['votes'] = [[i, num_str(Fraction(v) * k)] for i, v in c['votes']]
        c['_tags'] = [t for t in c['_tags'] if t != 'directed'] + ['directed', 'scaled_tie']
        if isinstance(k, Fraction):
            c['_tags'].append('fraction_votes_tie')
            if rng.random() < 0.5:
                c['_vtype'] = 'fraction'
        else:
            c['_tags'].append('big_votes_tie')
        out.append(c)
    return out


def _directed_cross_ties(rng, count):
    """exact ties between parties with DIFFERENT votes at magnitudes where floating point cannot represent them:
    votes a*K and b*K (K odd, about 2^53 / 10^18 / 10^30, or a fraction of it): the a-th quotient of the first equals the
    b-th quotient of the second exactly (D'Hondt: K; Sainte-Lague with odd multiples).  Kept when such a tie is reported
    at the baseline or on the way up."""
    out = []
    tries = 0
    while len(out) < count and tries < 80 * count:
        tries += 1
        ev = rng.choice(HA_EVALS)
        K = rng.choice([2 ** 53 + 1, 10 ** 18 + 1, 10 ** 30 + 7, Fraction(10 ** 18 + 1, 3), Fraction(2 ** 61 - 1, 7)])
        if ev.startswith('sainte_lague'):
            mult = rng.sample([3, 5, 7, 9, 15], 2)
        else:
            mult = rng.sample([2, 3, 4, 5, 6], 2)
        vs = [mult[0] * K, mult[1] * K] + [rng.randint(1, 4) * K + rng.randint(1, 10 ** 6) for _ in range(rng.randint(0, 2))]
        n = rng.randint(2, 12)
        try:
            base = _bb(ev, {NAMES.n(i): v for i, v in enumerate(vs)}, n)
        except _Refused:
            continue
        d = [0] * len(vs)
        j = rng.randrange(2)
        d[j] = base.get(j, 0) + rng.randint(1, 2)
        if sum(d) > n:
            continue
        c = _level_case(rng.choice(['overhang_calc', 'adjusted_eval']), ev, vs, n, d,
                        wrap=rng.choice(['none', 'multistage']), tags=['directed'])
        exp = _expected_level(ev, _votes(c), n, {i: k for i, k in c['prev']}, FUEL)
        if exp['mid_tie'] or any(isinstance(k, tuple) for k in base):
            c['_tags'].append('cross_party_tie_big')
            if isinstance(K, Fraction):
                c['_tags'].append('cross_party_tie_fraction')
            out.append(_finish_flat(rng, c, wrap=c.get('wrap')))
    return out


def _directed_cty_ties(rng, count):
    """ties INSIDE constituencies: equal votes for the last seat of a constituency, in one or in several constituencies
    (the same tie twice gives the tie object a floor it can never reach)"""
    out = []
    # the two inputs of the non-termination finding
    out.append({'op': 'overhang_calc', 'kind': 'level_cty', 'evaluator': 'd_hondt', 'overall': 'given', 'capp': 'uniform',
                'cvotes': [[0, [[0, '1'], [1, '1']]], [1, [[0, '1'], [1, '1']]]], 'cprev': [], 'app': [[0, 1], [1, 1]],
                'n': 1, 'fuel': FUEL, '_tags': ['by_constituency', 'd_hondt', 'apportioner_int', 'directed']})
    out.append({'op': 'overhang_calc', 'kind': 'level_cty', 'evaluator': 'd_hondt', 'overall': 'given', 'capp': 'uniform',
                'cvotes': [[0, [[0, '6'], [1, '20']]], [1, [[0, '4'], [1, '4']]], [2, [[0, '1'], [1, '3']]]], 'cprev': [],
                'app': [[0, 3], [1, 3], [2, 3]], 'n': 3, 'fuel': FUEL,
                '_tags': ['by_constituency', 'd_hondt', 'apportioner_int', 'directed']})
    while len(out) < count:
        ev = rng.choice(ALL_EVALS)
        m = rng.randint(2, 4)
        nc = rng.randint(2, 3)
        cvotes, app, cprev = [], [], []
        tied_pair = rng.sample(range(m), 2)
        for c in range(nc):
            if c == 0 or rng.random() < 0.6:
                b = rng.choice([1, 2, 3, 10])
                vs = [b * rng.randint(1, 6) for _ in range(m)]
                vs[tied_pair[0]] = vs[tied_pair[1]] = b * rng.randint(1, 3)      # two parties level
                seats = rng.choice([1, 1, 2, 3])
            else:
                vs = _gen_votes(rng, m, 'mid')
                seats = rng.randint(1, 5)
            cvotes.append([c, [[i, num_str(v)] for i, v in enumerate(vs)]])
            app.append([c, seats])
            if rng.random() < 0.4:
                cprev.append([c, [[rng.randrange(m), rng.randint(0, min(2, seats))]]])
        n = sum(k for _, k in app)
        c = {'op': rng.choice(['overhang_calc', 'adjusted_eval']), 'kind': 'level_cty', 'evaluator': ev, 'overall': 'given',
             'capp': 'fixed', 'cvotes': cvotes, 'cprev': cprev, 'app': app, 'n': n, 'fuel': FUEL,
             '_tags': ['by_constituency', ev, 'directed']}
        if c['op'] == 'adjusted_eval':
            c['final'] = ev
            c['alloc'] = ev if ev != 'hare_lr' else 'sainte_lague'
            c['wrap'] = rng.choice(['none', 'multistage'])
            if c['wrap'] != 'none':
                c['_tags'] += ['multistage_wrapped', 'multistage_depth2']
        out.append(c)
    return out


def _directed_zero_and_seatless(rng, count):
    """in ONE case: a party with direct seats but zero votes (sometimes two zero-vote parties), and a party with votes
    but neither a proportional nor a direct seat"""
    out = []
    tries = 0
    while len(out) < count and tries < 40 * count:
        tries += 1
        ev = rng.choice(ALL_EVALS)
        m = rng.randint(4, 6)
        vs = [rng.randint(300, 900), rng.randint(200, 700)] + [rng.randint(1, 12)] + [0] * (m - 3)
        if m >= 5 and rng.random() < 0.5:
            vs[3] = rng.randint(100, 400)
        n = rng.randint(3, 12)
        try:
            base = _bb(ev, {NAMES.n(i): v for i, v in enumerate(vs)}, n)
        except _Refused:
            continue
        if 2 in base:                      # the small party must stay without a proportional seat
            continue
        d = [0] * m
        d[m - 1] = rng.randint(1, 2)       # zero votes, direct seats
        if rng.random() < 0.6:
            d[0] = base.get(0, 0) + rng.randint(-1, 2)
        d = [max(k, 0) for k in d]
        if sum(d) > n:
            continue
        kind = rng.choice(['allow', 'level'])
        c = {'op': rng.choice(['overhang_calc', 'adjusted_eval']), 'kind': kind, 'evaluator': ev,
             'votes': [[i, num_str(v)] for i, v in enumerate(vs)], 'n': n, 'prev': [[i, k] for i, k in enumerate(d) if k],
             'max': [], 'fuel': FUEL, '_tags': [kind, ev, 'directed', 'zero_direct_and_seatless_voter']}
        if sum(1 for v in vs if v == 0) >= 2:
            c['_tags'].append('two_zero_vote_parties')
        out.append(_finish_flat(rng, c))
    return out


def _directed_small_houses(rng, count):
    """house sizes 0 and 1, and houses smaller than the direct seats (by 2 or more) while the parties outside the tier
    still fit (`n_seats >= nonprop_drop`; beyond that the adjusters evaluate a negative house - outside the model)"""
    out = []
    tries = 0
    while len(out) < count and tries < 60 * count:
        tries += 1
        ev = rng.choice(ALL_EVALS)
        m = rng.randint(2, 5)
        vs = _gen_votes(rng, m, rng.choice(['small', 'mid', 'skew']))
        shape = ['house_0', 'house_1', 'house_below_direct'][len(out) % 3]
        n = {'house_0': 0, 'house_1': 1}.get(shape) if shape != 'house_below_direct' else rng.randint(1, 8)
        d = [0] * (m + 1)
        if shape == 'house_below_direct':
            try:
                base = _bb(ev, {NAMES.n(i): v for i, v in enumerate(vs)}, n)
            except _Refused:
                continue
            tier = [i for i in range(m) if i in base]
            if not tier:
                continue
            for i in rng.sample(tier, min(len(tier), rng.choice([1, 2]))):
                d[i] = n + rng.randint(1, 3)
            if sum(d) < n + 2:
                continue
        else:
            for i in range(m + 1):
                if rng.random() < 0.4:
                    d[i] = rng.randint(0, 1 if n else 2)
            if n and sum(d) > n:
                continue
        kind = rng.choice(['allow', 'level'])
        c = {'op': rng.choice(['overhang_calc', 'adjusted_eval']), 'kind': kind, 'evaluator': ev,
             'votes': [[i, num_str(v)] for i, v in enumerate(vs)], 'n': n, 'prev': [[i, k] for i, k in enumerate(d) if k],
             'max': [], 'fuel': FUEL, '_tags': [kind, ev, 'directed', shape]}
        out.append(_finish_flat(rng, c))
    return out


def _directed_wasted_votes(rng, count):
    """5-6 parties, three or more of them with votes but without any seat at the baseline (wasted votes that still count
    in the total), the largest party holding (nearly) the whole baseline house directly: its floor m is high and every
    small party stays below a 1/m-th of its votes, so bounds computed from shares of ALL votes are off by seats"""
    out = []
    tries = 0
    while len(out) < count and tries < 80 * count:
        tries += 1
        ev = rng.choice(ALL_EVALS)
        m = rng.choice([5, 6, 6])
        floor_ = rng.randint(5, 9)
        v0 = rng.randint(3500, 5000)
        vs = [v0, rng.randint(1500, 3000)] + [rng.randint(max(1, v0 // (2 * floor_)), v0 // (floor_ + 1)) for _ in range(m - 2)]
        n = floor_ + rng.randint(0, 2)
        try:
            base = _bb(ev, {NAMES.n(i): v for i, v in enumerate(vs)}, n)
        except _Refused:
            continue
        if sum(1 for i in range(m) if i not in base) < 3 or any(isinstance(k, tuple) for k in base):
            continue
        d = [0] * m
        d[0] = floor_
        if d[0] <= base.get(0, 0):
            continue
        if sum(d) < n and rng.random() < 0.3:
            d[rng.randrange(2, m)] = 1                  # a seatless voter with a direct seat (outside the tier)
        order = list(range(m))
        rng.shuffle(order)
        kind = rng.choice(['allow', 'level', 'level', 'level'])
        c = {'op': rng.choice(['overhang_calc', 'adjusted_eval']), 'kind': kind, 'evaluator': ev,
             'votes': [[i, num_str(vs[i])] for i in order], 'n': n, 'prev': [[i, d[i]] for i in order if d[i]],
             'max': [], 'fuel': FUEL, '_tags': [kind, ev, 'directed', 'many_wasted_votes']}
        out.append(_finish_flat(rng, c))
    return out


def _directed_sequences(rng, count):
    """the same calculator / AdjustedSeatCount objects on two or three elections in a row: a larger election before a
    smaller one, an election the evaluator refuses (nobody has votes) before a regular one, sometimes after a
    differently configured evaluator of the same class was used"""
    out = []
    for k in range(count):
        ev = rng.choice(ALL_EVALS)
        kind = rng.choice(['allow', 'level', 'level'])
        els = []
        tags = [kind, ev, 'directed', 'two_elections']
        if k % 4 == 0:
            els.append({'votes': [[i, '0'] for i in range(3)], 'n': rng.randint(1, 4), 'prev': [[0, 1]], 'max': []})
            tags.append('second_after_refusal')
        m = rng.randint(3, 6)
        for j in range(2):
            f = _flat_case(rng, op='overhang_calc', kind=kind, ev=ev, m=m if rng.random() < 0.6 else None,
                           n=rng.randint(12, 30) if j == 0 else rng.randint(1, 11),
                           dmode=rng.choice(['skew', 'skew', 'outside', 'below']))
            els.append({'votes': f['votes'], 'n': f['n'], 'prev': f['prev'], 'max': []})
        c = {'op': 'adjusted_seq', 'kind': kind, 'evaluator': ev, 'final': ev, 'wrap': rng.choice(['none', 'multistage']),
             'fuel': FUEL, 'elections': els, '_tags': tags}
        ct = _coeftype(rng, ev)
        if ct:
            c['_coeftype'] = ct
            c['_tags'].append('coef_' + ct)
        c['_share'] = rng.choice(['shared', 'separate'])
        c['_tags'].append('shared_evaluator' if c['_share'] == 'shared' else 'separate_evaluators')
        if rng.random() < 0.5:
            c['_warm'] = rng.choice([e for e in HA_EVALS if e != ev])
            c['_tags'].append('other_configuration_first')
        out.append(c)
    return out


def generate(rng, tier):
    N = 2000 if tier == 'quick' else 30000
    cases = []
    for _ in range(N):
        cases.append(_flat_case(rng))
    for _ in range(N // 6):
        cases.append(_cty_case(rng))
    per = 15 if tier == 'quick' else 240
    for _ in range(per):
        for ev in EVALS:
            cases.append(_flat_case(rng, kind='level', ev=ev, dmode='skew', vkind='skew'))          # iterations >= 2
            cases.append(_flat_case(rng, kind='allow', ev=ev, dmode='skew'))
            cases.append(_flat_case(rng, kind='level', ev=ev, dmode='outside'))
            cases.append(_flat_case(rng, ev=ev, dmode='below'))
            cases.append(_flat_case(rng, ev=ev, vkind='small', zero_party=True, dmode='outside'))
            cases.append(_flat_case(rng, op='adjusted_eval', ev=ev, wrap='multistage', dmode='skew'))
            cases.append(_flat_case(rng, ev=ev, vkind='small', n=rng.choice([1, 2, 3, 5, 7])))          # ties in the baseline
            cases.append(_cty_case(rng, ev=ev))
            cases.append(_cty_case(rng, ev=ev, op='adjusted_eval', wrap='multistage', overall='given'))
            cases.append(_cty_case(rng, ev=ev, overall='none'))
            cases.append(_cty_case(rng, ev=ev, op='adjusted_eval', wrap=rng.choice(['none', 'multistage']), overall='given',
                                   clash=rng.choice(['str', 'int0', 'empty0'])))
    for ev in EVALS:          # nobody has any vote: all ties under highest averages, refusal (non-positive quota) under LR
        for kind in ('allow', 'level'):
            c0 = {'op': rng.choice(['overhang_calc', 'adjusted_eval']), 'kind': kind, 'evaluator': ev,
                  'votes': [[i, '0'] for i in range(3)], 'n': rng.randint(1, 5), 'prev': [[0, 1]], 'max': [],
                  'fuel': FUEL, '_tags': [kind, ev, 'all_zero_votes']}
            if c0['op'] == 'adjusted_eval':
                c0['final'], c0['wrap'] = ev, 'none'
            cases.append(c0)
    cases += _directed_intermediate_tie(rng, 30 if tier == 'quick' else 300)
    cases += _directed_alabama(rng, 30 if tier == 'quick' else 300)
    cases += _directed_lower_ratio(rng, 48 if tier == 'quick' else 400)
    cases += _directed_flat_tie_floor(rng, 30 if tier == 'quick' else 200)
    k = 36 if tier == 'quick' else 300
    cases += _directed_scaled_ties(rng, k)
    cases += _directed_cross_ties(rng, 2 * k)
    cases += _directed_zero_and_seatless(rng, k)
    cases += _directed_cty_ties(rng, k)
    cases += _directed_small_houses(rng, k)
    cases += _directed_wasted_votes(rng, k + 12)
    cases += _directed_sequences(rng, k)
    for ev in ['d_hondt_mod', 'sainte_lague_mod']:          # directed share for the modified first coefficient
        for _ in range(k // 2):
            cases.append(_flat_case(rng, kind=rng.choice(['allow', 'level']), ev=ev, dmode='skew', vkind=rng.choice(['skew', 'small'])))
            cases.append(_cty_case(rng, ev=ev, overall='given'))
    if tier == 'thorough':
        # small-scope exhaustive: all vote vectors over {0..3}^2 (n <= 5) and {0..2}^3 (n <= 3), all direct maps with
        # entries <= 2 and sum <= n over the parties and one party without votes, 3 evaluators, allow and level
        for m in (2, 3):
            for vals in itertools.product(range(0, 4 if m == 2 else 3), repeat=m):
                if sum(vals) == 0:
                    continue
                for n in range(1, 6 if m == 2 else 4):
                    for dm in itertools.product(range(0, 3), repeat=m + 1):
                        if sum(dm) > n or sum(dm) == 0:
                            continue
                        for ev in EVALS:
                            for kind in ('allow', 'level'):
                                cases.append({'op': 'adjusted_eval', 'kind': kind, 'evaluator': ev, 'final': ev,
                                              'wrap': 'none', 'votes': [[i, str(v)] for i, v in enumerate(vals)], 'n': n,
                                              'prev': [[i, k] for i, k in enumerate(dm) if k], 'max': [], 'fuel': FUEL,
                                              '_tags': [kind, ev, 'exhaustive']})
    for c in cases:
        if c['op'] == 'adjusted_seq':
            yield c
            continue
        _post_tags(c)
        yield c


def shrink_candidates(case):
    if case['op'] == 'adjusted_seq':
        if len(case['elections']) > 1:
            for i in range(len(case['elections'])):
                c = dict(case)
                c['elections'] = case['elections'][:i] + case['elections'][i+1:]
                yield c
        return
    if case.get('kind') == 'level_cty':
        for i in range(len(case['cprev'])):
            c = dict(case)
            c['cprev'] = case['cprev'][:i] + case['cprev'][i+1:]
            yield c
        return
    vs = case['votes']
    if len(vs) > 2:
        for i in range(len(vs)):
            c = dict(case)
            c['votes'] = vs[:i] + vs[i+1:]
            yield c
    for i in range(len(case['prev'])):
        c = dict(case)
        c['prev'] = case['prev'][:i] + case['prev'][i+1:]
        yield c
        if case['prev'][i][1] > 1:
            c = dict(case)
            c['prev'] = case['prev'][:i] + [[case['prev'][i][0], case['prev'][i][1] - 1]] + case['prev'][i+1:]
            yield c
    if case['n'] > 1 and sum(k for _, k in case['prev']) < case['n']:
        c = dict(case)
        c['n'] = case['n'] - 1
        yield c


def _evdesc(case, key):
    name = case.get(key)
    if not name:
        return 'None'
    ct = case.get('_coeftype', 'fraction')
    coef = {'fraction': {'d_hondt_mod': 'Fraction(3, 2)', 'sainte_lague_mod': 'Fraction(7, 5)'},
            'decimal': {'d_hondt_mod': "Decimal('1.5')", 'sainte_lague_mod': "Decimal('1.4')"},
            'default': {'d_hondt_mod': 'Fraction(3, 2)', 'sainte_lague_mod': '<default>'},
            'float': {'d_hondt_mod': '1.5', 'sainte_lague_mod': 'Fraction(7, 5)'}}[ct]
    return {'d_hondt': "HighestAverages('d_hondt')", 'sainte_lague': "HighestAverages('sainte_lague')",
            'hare_lr': "LargestRemainder('hare')",
            'd_hondt_mod': f"HighestAverages(modified_first_coef(d_hondt, {coef['d_hondt_mod']}))",
            'sainte_lague_mod': f"HighestAverages(modified_first_coef(sainte_lague, {coef['sainte_lague_mod']}))"}[name]


def describe(case):
    if case['op'] == 'adjusted_seq':
        return ('the same objects on elections in a row: ' + ' ; THEN '.join(describe(_election(case, e)) for e in case['elections'])
                + (f" (after a call of {case['_warm']})" if case.get('_warm') else ''))
    share = ' [calculator and distributor share ONE evaluator object]' if case.get('_share') == 'shared' else ''
    if case.get('kind') == 'level_cty':
        capp = case.get('capp', 'fixed')
        app = (repr({_cn(case, c): k for c, k in case['app']}) if capp == 'fixed' else
               repr(case['app'][0][1]) if capp == 'uniform' else _evdesc({'e': capp}, 'e'))
        ov = _evdesc(case, 'evaluator') if case.get('overall', 'given') == 'given' else 'None'
        calc = (f"LevelOverhangByConstituency(ByConstituency({_evdesc(case, 'evaluator')}, apportioner={app}), "
                f"overall_evaluator={ov})")
        if case['op'] == 'overhang_calc':
            return f"{calc}.calculate({_cvotes(case)!r}, {case['n']}, prev_gains={_cprev(case)!r})"
        asc = f"AdjustedSeatCount({calc}, ByParty({_evdesc(case, 'final')}, allocator={_evdesc(case, 'alloc')}))"
        if case['wrap'] == 'multistage3':
            return (f"MultistageDistributor([<stage returning {_cprev(case)!r}>, <stage returning "
                    f"{_cprev(case, 'cprev2')!r}>, {asc}], depth=2).evaluate({_cvotes(case)!r}, {case['n']})")
        if case['wrap'] == 'multistage':
            return (f"MultistageDistributor([<stage returning {_cprev(case)!r}>, {asc}], depth=2)"
                    f".evaluate({_cvotes(case)!r}, {case['n']})")
        return f"{asc}.evaluate({_cvotes(case)!r}, {case['n']}, prev_gains={_cprev(case)!r})"
    cls = {'allow': 'AllowOverhang', 'level': 'LevelOverhang'}[case['kind']]
    calc = f"{cls}({_evdesc(case, 'evaluator')})"
    votes, prev = _votes(case), _seats(case['prev'])
    if case['op'] == 'overhang_calc':
        return f"{calc}.calculate({votes!r}, {case['n']}, prev_gains={prev!r})"
    asc = f"AdjustedSeatCount({calc}, {_evdesc(case, 'final')}){share}"
    if case['wrap'] == 'multistage3':
        return (f"MultistageDistributor([<stage returning {prev!r}>, <stage returning {_seats(case.get('prev2', []))!r}>, "
                f"{asc}]).evaluate({votes!r}, {case['n']})")
    if case['wrap'] == 'multistage':
        return f"MultistageDistributor([<stage returning {prev!r}>, {asc}]).evaluate({votes!r}, {case['n']})"
    return f"{asc}.evaluate({votes!r}, {case['n']}, prev_gains={prev!r})"


def signature(case, clause):
    if clause == 'level_floor_unmet_at_zero_with_party_outside_tier':
        return 'level:floor_unmet_at_zero_with_party_outside_tier'
    if clause == 'level_does_not_terminate_tie_floor':
        return 'level:does_not_terminate_tie_floor'
    if (clause == 'level_cty_floor_ignores_direct_seats_without_local_share'
            or clause == 'house_size_after_ignored_direct_seats'
            or clause.startswith('final_stage_error_after_ignored_direct_seats:')):
        return 'level_cty:direct_seats_without_local_share'
    if clause == 'house_size_by_party_outside_tier' or clause.startswith('final_stage_error_by_party_outside_tier:'):
        return 'level_cty:by_party_outside_tier'
    op = 'adjusted_eval' if case.get('op') == 'adjusted_seq' else case.get('op')
    return f"{op}:{clause}"


TECHNIQUE = ('Lean 4 proofs about evaluator-parametric models of the seat-count adjusters (loop invariant of the fuelled '
             'levelling loop; C01 theorems discharge the evaluator hypotheses for highest averages) + differential '
             'correspondence + brute-force oracle over house sizes')
LEVEL_TEXT = ('The seat-count adjusters (AllowOverhang, LevelOverhang, LevelOverhangByConstituency), AdjustedSeatCount, the two-stage '
              'MultistageDistributor (depth 1 and 2) and ByParty are modelled in Lean over an arbitrary proportional evaluator; the '
              'clauses of C15 are theorems for all inputs: direct seats kept (any calculator/evaluator), adjustment = overhang count, '
              'zero without overhang, the levelling result is the first adequate house size (loop invariant, any evaluator; literal '
              'least-enlargement form for evaluators that fill the house), and for highest averages (C01 model, divisors regenerated '
              'from divisor.py): house = n + adjustment, termination for unbounded divisors, final totals = proportional distribution '
              'of the enlarged house (exchange argument on C01 optimality + strict separation). Model tied to the code by '
              'differential correspondence; a brute-force oracle over house sizes states the property on the implementation.')
LEVEL_NOTE = ('The final-totals clause is claimed for seat holders with votes (zero-vote ties are an artefact of where the run starts). Trusted: Lean kernel + standard axioms; translate.py (divisors); the correspondence harness (2-6 parties, house <= 30, '
              '3 evaluators, 2-3 constituencies); the C01 pool abstraction; the hand model of LargestRemainder(hare). Where the code '
              'departs from the literal property (5 recorded findings) the model follows the code and witness theorems pin the departure.')
