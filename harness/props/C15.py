"""C15 — overhang handling never removes direct seats and levels minimally.

Ops
  overhang_calc   SeatCountCalculator.calculate of AllowOverhang / LevelOverhang / LevelOverhangByConstituency
  adjusted_eval   AdjustedSeatCount(calculator, evaluator).evaluate, directly or as the second stage of a
                  MultistageDistributor whose first stage yields the direct seats (NZ example), and for the
                  by-constituency calculator with a ByParty final stage (DE example)

The oracle recomputes every clause of the property from scratch: it calls the real proportional evaluators
as black boxes at every house size it needs (brute force over the enlargement), never the adjusters.
"""
import itertools
from fractions import Fraction
from common import *   # noqa

ID = 'C15'
NAMESPACE = 'VL.C15'
LEAN_MODULES = ['VotelibProofs.Props.C15']
GEN_MODULES = ['Divisor']
REQUIRED = ['keeps_direct_seats', 'house_grows_by_adj', 'house_grows_by_adj_of_fills', 'haEval_fills', 'haEval_nodup',
            'adj_zero_iff_no_overhang', 'allow_adj_zero_iff', 'allow_adj_eq_overhang', 'natSub_eq_max',
            'level_is_least', 'meets_lowest_iff', 'level_least_enlargement', 'level_zero_outside_tier_witness',
            'level_terminates', 'level_terminates_of_no_tie', 'ha_tier_has_votes', 'd_hondt_unbounded',
            'sainte_lague_unbounded', 'level_final_is_proportional', 'level_cty_is_least',
            'level_cty_direct_seat_counted', 'level_cty_at_is_least', 'level_cty_default_is_least', 'lrHareEval_fills', 'house_grows_by_adj_lr',
            'level_least_enlargement_ha', 'level_least_enlargement_lr', 'multistage_final_is_proportional',
            'level_terminates_lr', 'level_final_is_proportional_lr', 'level_terminates_of_adequate',
            'level_cty_final_party_totals', 'partyVotes_ok']
NAME_MODES = ['str', 'int0', 'empty0', 'person']
REQUIRED_COUNTERS = ['overhang_present', 'no_overhang', 'party_outside_tier', 'party_without_votes',
                     'levelling_iterations_ge2', 'by_constituency', 'multistage_wrapped',
                     'allow', 'level', 'd_hondt', 'sainte_lague', 'hare_lr', 'tie_in_baseline', 'multistage_depth2', 'default_overall', 'apportioned', 'intermediate_tie', 'alabama_lr', 'cty_party_name_clash', 'clash_str', 'clash_int0',
                     'clash_empty0', 'all_zero_votes']
RULE = ('second-vote dicts over 2-6 parties (tie-forcing small sets, zero-vote parties, up to 10^12, some Fractions); '
        'baseline house sizes 1..30; direct-seat maps with sum <= house size (none, below the share, skewed above it, '
        'random; parties with direct seats but no proportional seat; parties without a votes entry); proportional '
        "evaluator in {HighestAverages('d_hondt'), HighestAverages('sainte_lague'), LargestRemainder('hare')}; calculators "
        'AllowOverhang, LevelOverhang (flat) and LevelOverhangByConstituency (2-3 constituencies; fixed apportionment '
        '0..8 or an apportioning evaluator; overall evaluator given or the default), alone (overhang_calc) and inside AdjustedSeatCount (adjusted_eval; distributing '
        'evaluator = the same or another of the three, ByParty(overall, allocator) for the by-constituency variant), bare '
        'or as second stage of MultistageDistributor([direct-seat stage, AdjustedSeatCount]) with depth 1 / 2; levelling '
        'bounded by 200 evaluator calls on both sides. Naming: a quarter of all cases under the falsy-name modes int0 / empty0; '
        'about a third of the by-constituency cases with a constituency that is the same object as a party (constituencies '
        "named 'p0','p1',…; int ids for both; '' for both). A few all-zero vote dicts."
        ' Thorough tier adds all vote vectors {0..3}^2 (n<=5) and {0..2}^3 '
        '(n<=3) x all direct maps (entries <= 2, one party without votes) x 3 evaluators x {allow, level}. Non-trivial = a '
        'non-error result with at least one direct seat; distinct by canonical request.')
NOT_VERIFIED = [
    'HighestAverages is the C01 model (unordered pool instead of the sorted list with bisect re-insertion); Tie keys are '
    'compared after sorting their members (frozenset equality)',
    "LargestRemainder('hare') is a minimal hand model (Hare quota, accept_equal, on_overaward='error', no max_seats; the "
    'cap-overshoot branch is unreachable for the Hare quota and answers Unmodelled); final = proportional is discharged '
    'for HighestAverages only',
    'the unfuelled while-loops are modelled with fuel = 200 evaluator calls; the same bound is imposed on the real code '
    'by a transparent counting proxy around the evaluator (FuelExhausted on both sides)',
    'max_seats is passed through by the flat models but always {} in the generated cases; the by-constituency models '
    'take no max_seats',
    'direct seats of parties outside the tier exceeding the house (n_seats < nonprop_drop) are outside the model '
    '(Unmodelled) and outside the quantifier (direct seats sum to at most the house size)',
    'ByConstituency is modelled without preselector, for a fixed per-constituency apportionment or an apportioning '
    'evaluator given an integer n_seats; ByParty for simple votes with max_seats = {}; the dispatch helpers '
    '(accepts_seats / accepts_prev_gains / accepts_max_seats, inspect.signature) are not modelled — every inner evaluator '
    'used here takes all three',
    'MultistageDistributor: first stage = an evaluator with a fixed outcome (as MockEvaluator in tests/real/test_real_mmp.py); '
    'depth 2 iterates a set of constituencies, the model uses list order and results are compared as sorted maps',
]
UNPROVED = [
    'level_cty_floors_cover_direct_seats: the hypothesis `direct seats of the party <= its overall seats` of '
    'level_cty_final_party_totals follows from the levelling stop condition when every direct seat lies in an evaluated '
    'constituency (sum of the per-constituency maxima >= sum of the direct seats): not proved, validated by the oracle '
    '(final_not_proportional / house_size clauses on the by-constituency cases)',
    'level_final_is_proportional with a Tie in the enlarged house, or with parties without votes (HighestAverages '
    'version needs positive votes)',
    'termination when the baseline result contains a Tie key: neither a proof nor a non-terminating input found '
    '(exhaustive {1..7}^<=3, {1..5}^4, houses <= 7, three evaluators); level_terminates_of_adequate reduces it to the '
    'existence of one adequate house size; the fuel hypothesis stays',
]
EXHAUSTIVE = {'thorough': True}
NAMES = Names(prefix='p')
CNAMES = Names(prefix='c')
EVALS = ['d_hondt', 'sainte_lague', 'hare_lr']
FUEL = 200          # evaluator calls the levelling loop may make (same bound in the model)


class FuelExhausted(Exception):
    pass


class _Capped:
    """transparent proxy around a real evaluator that bounds the number of calls (so that a levelling loop that
    does not terminate becomes an observable instead of a hang)"""
    def __init__(self, ev, cap):
        # the attribute is called `evaluator` so that votelib's dispatch helpers (accepts_seats, accepts_prev_gains,
        # accepts_max_seats) look through the generic signature to the wrapped evaluator
        self.evaluator, self.cap, self.calls = ev, cap, 0

    def evaluate(self, *a, **k):
        self.calls += 1
        if self.calls > self.cap:
            raise FuelExhausted()
        return self.evaluator.evaluate(*a, **k)


class _Mock:
    """first stage with a fixed outcome (tests/real/test_real_mmp.py MockEvaluator)"""
    def __init__(self, res):
        self.res = res

    def evaluate(self, *a, **k):
        return dict(self.res)


def _ev(name):
    import votelib.evaluate.proportional as vp
    if name == 'hare_lr':
        return vp.LargestRemainder('hare')
    return vp.HighestAverages(name)


def _num(s):
    f = Fraction(s)
    return int(f) if f.denominator == 1 else f


def _votes(case):
    return {NAMES.n(i): _num(s) for i, s in case['votes']}


def _seats(pairs):
    return {NAMES.n(i): k for i, k in pairs}


def _cn(case, c):
    """constituency object of id c.  `_cnames` = 'p': constituencies are named like the parties ('p0', 'p1', …), i.e.
    constituency i and party i are the same object (under the naming modes int0 / empty0 of common.Names this already
    holds for all ids / for id 0, whatever `_cnames` says)"""
    return NAMES.n(c) if case.get('_cnames') == 'p' else CNAMES.n(c)


def _ci(case, name):
    return NAMES.i(name) if case.get('_cnames') == 'p' else CNAMES.i(name)


def _cvotes(case):
    return {_cn(case, c): {NAMES.n(i): _num(s) for i, s in vs} for c, vs in case['cvotes']}


def _cprev(case):
    return {_cn(case, c): _seats(ps) for c, ps in case['cprev']}


def _flat_calc(case, capped=True):
    import votelib.evaluate.core as vc
    ev = _ev(case['evaluator'])
    if capped:
        ev = _Capped(ev, 1 + case['fuel'])
    return {'allow': vc.AllowOverhang, 'level': vc.LevelOverhang}[case['kind']](ev)


def _cty_calc(case):
    import votelib.evaluate.core as vc
    ev = _ev(case['evaluator'])
    capp = case.get('capp', 'fixed')
    apportioner = {_cn(case, c): k for c, k in case['app']} if capp == 'fixed' else _ev(capp)
    cev = vc.ByConstituency(ev, apportioner=apportioner)
    if case.get('overall', 'given') == 'given':
        return vc.LevelOverhangByConstituency(cev, overall_evaluator=_Capped(_ev(case['evaluator']), 1 + case['fuel']))
    # default overall evaluator = the constituency evaluator re-run and merged: one call for the constituency results,
    # one for the first overall result, then the loop
    return vc.LevelOverhangByConstituency(_Capped(cev, 2 + case['fuel']))


def _enc_nested(res, case=None):
    """{constituency | Tie: {party | Tie: seats}} -> sorted [[ckey, [[pkey, seats], ...]], ...]"""
    import votelib.evaluate.core as vcore
    out = []
    for c, d in res.items():
        ck = {'tie': sorted(_ci(case or {}, x) for x in c)} if isinstance(c, vcore.Tie) else _ci(case or {}, c)
        out.append([ck, enc_distribution(d, NAMES)])
    out.sort(key=lambda p: json.dumps(p[0], sort_keys=True))
    return out


def _canon_nested(model_out):
    if isinstance(model_out, dict):
        return model_out
    out = [[canon(k), canon_dist(d)] for k, d in model_out]
    out.sort(key=lambda p: json.dumps(p[0], sort_keys=True))
    return out


def _intres(x):
    return x if isinstance(x, int) and not isinstance(x, bool) else num_str(x)


def impl(case):
    import votelib.evaluate.core as vc
    if case['op'] == 'overhang_calc':
        if case['kind'] == 'level_cty':
            return guarded(lambda: _intres(_cty_calc(case).calculate(_cvotes(case), case['n'], prev_gains=_cprev(case))))
        votes, prev, caps = _votes(case), _seats(case['prev']), _seats(case['max'])
        return guarded(lambda: _intres(_flat_calc(case).calculate(votes, case['n'], prev_gains=prev, max_seats=caps)))
    if case['op'] == 'adjusted_eval' and case['kind'] == 'level_cty':
        cvotes, cprev, n = _cvotes(case), _cprev(case), case['n']
        adj = guarded(lambda: _intres(_cty_calc(case).calculate(cvotes, n, prev_gains=cprev)))
        asc = vc.AdjustedSeatCount(_cty_calc(case), vc.ByParty(_ev(case['final']), allocator=_ev(case['alloc'])))
        if case['wrap'] == 'multistage':
            ms = vc.MultistageDistributor([_Mock(cprev), asc], depth=2)
            res = guarded(lambda: _enc_nested(ms.evaluate(cvotes, n), case))
        else:
            res = guarded(lambda: _enc_nested(asc.evaluate(cvotes, n, prev_gains=cprev), case))
        return {'adj': adj, 'result': res}
    if case['op'] == 'adjusted_eval':
        votes, prev, caps = _votes(case), _seats(case['prev']), _seats(case['max'])
        adj = guarded(lambda: _intres(_flat_calc(case).calculate(votes, case['n'], prev_gains=prev, max_seats=caps)))
        asc = vc.AdjustedSeatCount(_flat_calc(case), _ev(case['final']))
        if case['wrap'] == 'multistage':
            ms = vc.MultistageDistributor([_Mock(prev), asc])
            res = guarded(lambda: enc_distribution(ms.evaluate(votes, case['n'], max_seats=caps), NAMES))
        else:
            res = guarded(lambda: enc_distribution(asc.evaluate(votes, case['n'], prev_gains=prev, max_seats=caps), NAMES))
        return {'adj': adj, 'result': res}
    raise ValueError(case['op'])


def model_line(case):
    return strip_case(case)


def compare(case, iobs, mobs):
    if case['op'] == 'adjusted_eval':
        a = canon(iobs)
        b = {'adj': mobs.get('adj'), 'result': mobs.get('result')}
        if not isinstance(b['result'], dict):
            b['result'] = _canon_nested(b['result']) if case['kind'] == 'level_cty' else canon_dist(b['result'])
        if a != b:
            return f'impl={json.dumps(a)} model={json.dumps(b)}'
        return None
    if canon(iobs) != canon(mobs):
        return f'impl={json.dumps(canon(iobs))} model={json.dumps(canon(mobs))}'
    return None


# ------------------------------------------------------------------------------------------------
# oracle: the property, recomputed by brute force with the real proportional evaluators as black boxes

class _Refused(Exception):
    def __init__(self, name):
        self.name = name


def _key(k):
    import votelib.evaluate.core as vc
    if isinstance(k, vc.Tie):
        return ('tie',) + tuple(sorted(NAMES.i(c) for c in k))
    return NAMES.i(k)


def _bb(evname, votes, h, prev=None):
    """black box: proportional distribution of h seats -> {party id | ('tie', ids…): seats}"""
    ev = _ev(evname)
    try:
        if prev is None:
            r = call_with_timeout(lambda: ev.evaluate(votes, h), 5)
        else:
            r = call_with_timeout(lambda: ev.evaluate(votes, h, prev_gains=prev), 5)
    except Exception as e:      # noqa
        raise _Refused(err_name(e))
    return {_key(k): v for k, v in r.items()}


def _expected_level(evname, votes, n, direct, fuel):
    """literal reading of the levelling clause.  Returns dict with baseline, tier, floors, drop, least (or None)"""
    base = _bb(evname, votes, n)
    tier = list(base.keys())
    floors = {p: max(direct.get(p, 0) if not isinstance(p, tuple) else 0, base[p]) for p in tier}
    drop = sum(k for p, k in direct.items() if p not in base)
    tier_overhang = any(direct.get(p, 0) > base[p] for p in tier if not isinstance(p, tuple))
    least = None
    seq = []
    for e in range(0, fuel + 1):
        h = n + e - drop
        if h < 0:
            continue
        try:
            r = base if h == n else _bb(evname, votes, h)
        except _Refused as x:
            if h >= n:
                raise
            continue
        seq.append(r)
        if all(r.get(p, 0) >= floors[p] for p in tier):
            least = e
            break
    # what the house sizes on the way exercise (mechanism tags): a Tie reported at a house size before the final one;
    # a tier party losing a seat when the house grows by one (Alabama paradox) with no tie involved
    mid_tie = least is not None and tier_overhang and any(isinstance(k, tuple) for r in seq[:-1] for k in r)
    alabama = (least is not None and tier_overhang and not any(isinstance(k, tuple) for r in seq for k in r)
               and any(b.get(p, 0) < a.get(p, 0) for a, b in zip(seq, seq[1:]) for p in tier))
    return {'base': base, 'floors': floors, 'drop': drop, 'least': least, 'tier_overhang': tier_overhang,
            'mid_tie': mid_tie, 'alabama': alabama}


def _adj_clauses(case, adj, votes, direct):
    """clauses on the reported adjustment of a flat calculator; returns (violations, info)"""
    out = []
    n, evname = case['n'], case['evaluator']
    info = {}
    try:
        base = _bb(evname, votes, n)
    except _Refused as x:
        if adj == {'err': x.name}:
            return [], {'refused': x.name}
        return [('unexpected_result_on_refusal', f'evaluator refuses the baseline with {x.name}, adjuster gave {adj}')], {}
    overhang = {p: k - base.get(p, 0) for p, k in direct.items() if k > base.get(p, 0)}
    info['overhang'] = overhang
    info['base'] = base
    if case['kind'] == 'level':
        try:
            exp = _expected_level(evname, votes, n, direct, case['fuel'])
        except _Refused as x:
            if adj == {'err': x.name}:
                return [], {'refused': x.name}
            return [('unexpected_result_on_refusal', f'evaluator refuses with {x.name}, adjuster gave {adj}')], info
        info.update(exp)
    if isinstance(adj, dict):
        if adj.get('err') == 'FuelExhausted' and case['kind'] == 'level' and info.get('least') is None:
            info['fuel_exhausted'] = True
            return [], info
        return [('unexpected_error:' + str(adj.get('err')), str(adj))], info
    if not isinstance(adj, int) or adj < 0:
        return [('adj_negative', str(adj))], info
    if not overhang and adj != 0:
        out.append(('adj_nonzero_without_overhang', f'adjustment {adj}, baseline {base}, direct {direct}'))
    if case['kind'] == 'allow':
        want = sum(overhang.values())
        if adj != want:
            out.append(('allow_adj_ne_overhang', f'adjustment {adj}, overhang seats {want}'))
    else:
        least = info['least']
        if least is None:
            # no adequate enlargement up to the bound: in particular the reported one is not adequate
            out.append(('level_floor_unmet', f'adjustment {adj}, no adequate enlargement up to {case["fuel"]}; floors {info["floors"]}'))
        elif adj < least:
            # the proportional distribution of n + adj - drop seats does not meet the floors
            if adj == 0 and info['drop'] > 0 and not info['tier_overhang']:
                out.append(('level_floor_unmet_at_zero_with_party_outside_tier',
                            f'adjustment 0 but the distribution of {n}-{info["drop"]} seats does not give the tier its '
                            f'initial shares {info["floors"]}; least adequate enlargement {least}'))
            else:
                out.append(('level_floor_unmet', f'adjustment {adj} < least adequate enlargement {least}; floors {info["floors"]}'))
        elif adj > least:
            out.append(('level_not_least', f'adjustment {adj} > least adequate enlargement {least}; floors {info["floors"]}'))
    return out, info


def _cty_results(case, cvotes, h):
    """black box: proportional result of every constituency when the constituency evaluator is asked for h seats
    (fixed apportionment: h is irrelevant; apportioned: the apportioner distributes h over the constituencies by
    their vote totals, a constituency that is not an individual key of the apportionment gets no seats)"""
    capp = case.get('capp', 'fixed')
    if capp == 'fixed':
        app = {_cn(case, c): k for c, k in case['app']}
    else:
        ev = _ev(capp)
        ctot = {c: sum(dv.values()) for c, dv in cvotes.items()}
        try:
            app = call_with_timeout(lambda: ev.evaluate(ctot, h), 5)
        except Exception as e:      # noqa
            raise _Refused(err_name(e))
    return {cty: (_bb(case['evaluator'], dv, app.get(cty, 0)) if app.get(cty, 0) != 0 else {}) for cty, dv in cvotes.items()}


def _cty_expected(case):
    """by-constituency levelling, literal: floors summed over constituencies, least e with overall(n-drop+e) >= floors"""
    cvotes, cprev, n = _cvotes(case), _cprev(case), case['n']
    props = _cty_results(case, cvotes, n)
    tier = []
    for r in props.values():
        for p in r:
            if p not in tier:
                tier.append(p)
    # every tier party: over all constituencies, at least its direct seats and its proportional seats there
    floors = {p: 0 for p in tier}
    ignored = False
    for cty in cvotes:
        d = {NAMES.i(p): k for p, k in cprev.get(cty, {}).items()}
        for p in tier:
            dk = d.get(p, 0) if not isinstance(p, tuple) else 0
            floors[p] += max(dk, props[cty].get(p, 0))
            if dk > 0 and p not in props[cty]:
                ignored = True
    for cty in cprev:
        if cty not in cvotes:
            for p, k in cprev[cty].items():
                if NAMES.i(p) in floors:
                    floors[NAMES.i(p)] += k
                    ignored = ignored or k > 0
    drop = sum(k for cty, d in cprev.items() for p, k in d.items() if NAMES.i(p) not in floors)
    totals = {}
    for dv in cvotes.values():
        for p, v in dv.items():
            totals[p] = totals.get(p, 0) + v

    def overall(h):
        if case.get('overall', 'given') == 'given':
            return _bb(case['evaluator'], totals, h)
        merged = {}
        for r in _cty_results(case, cvotes, h).values():
            for p, k in r.items():
                merged[p] = merged.get(p, 0) + k
        return merged
    least = None
    for e in range(0, case['fuel'] + 1):
        h = n - drop + e
        if h < 0:
            continue
        r = overall(h)
        if all(r.get(p, 0) >= m for p, m in floors.items()):
            least = e
            break
    return {'floors': floors, 'drop': drop, 'least': least, 'totals': totals, 'ignored': ignored}


def _cty_adj_clauses(case, obs):
    """clauses on the adjustment reported by LevelOverhangByConstituency; returns (violations, expected | None)"""
    out = []
    if obs == {'err': 'AttributeError'} and case.get('overall') == 'none':
        return [('default_overall_evaluator_crashes:AttributeError', 'overall_evaluator=None')], None
    try:
        exp = _cty_expected(case)
    except _Refused as x:
        if obs == {'err': x.name}:
            return [], None
        return [('unexpected_result_on_refusal', f'evaluator refuses with {x.name}, adjuster gave {obs}')], None
    if isinstance(obs, dict):
        if obs.get('err') == 'FuelExhausted' and exp['least'] is None:
            return [], None
        return [('unexpected_error:' + str(obs.get('err')), str(obs))], None
    if not isinstance(obs, int) or obs < 0:
        return [('adj_negative', str(obs))], None
    if exp['least'] is None or obs < exp['least']:
        # (no adequate enlargement up to the bound: in particular the reported one is not adequate)
        cl = 'level_cty_floor_ignores_direct_seats_without_local_share' if exp['ignored'] else 'level_floor_unmet'
        least = exp['least'] if exp['least'] is not None else f'> {case["fuel"]}'
        out.append((cl, f'adjustment {obs} < least adequate enlargement {least}; floors {exp["floors"]}'))
    elif obs > exp['least']:
        out.append(('level_not_least', f'adjustment {obs} > least adequate enlargement {exp["least"]}; floors {exp["floors"]}'))
    return out, exp


def _oracle_cty_eval(case, obs):
    adj, res = obs['adj'], obs['result']
    out, exp = _cty_adj_clauses(case, adj)
    if isinstance(adj, dict):
        if not isinstance(res, dict) or res.get('err') != adj.get('err'):
            out.append(('result_despite_calculator_error', f'adj {adj} result {res}'))
        return out
    root = any(cl == 'level_cty_floor_ignores_direct_seats_without_local_share' for cl, _ in out)
    if isinstance(res, dict):
        cl = ('final_stage_error_after_ignored_direct_seats:' if root else
              'final_stage_error_by_party_outside_tier:' if exp is not None and exp['drop'] > 0 else 'final_stage_error:')
        return out + [(cl + str(res.get('err')) + ':' + case['final'], f'adjustment {adj}')]
    n = case['n']
    direct = {c: {i: k for i, k in ps} for c, ps in case['cprev']}
    totals = {}
    for ck, d in res:
        ck = ('tie',) + tuple(ck['tie']) if isinstance(ck, dict) else ck
        for k, s in d:
            kk = ('tie',) + tuple(k['tie']) if isinstance(k, dict) else k
            totals.setdefault(ck, {})[kk] = s
            if not isinstance(s, int) or s < 0:
                out.append(('negative_gain', str(res)))
    if case['wrap'] != 'multistage':
        for c, d in direct.items():
            for p, k in d.items():
                totals.setdefault(c, {})[p] = totals.get(c, {}).get(p, 0) + k
    for c, d in direct.items():
        for p, k in d.items():
            if totals.get(c, {}).get(p, 0) < k:
                out.append(('direct_seat_lost', f'constituency {c} party {p}: {totals.get(c, {}).get(p, 0)} < {k}'))
    house = sum(s for d in totals.values() for s in d.values())
    if house != n + adj:
        outside = exp is not None and exp['drop'] > 0
        cl = ('house_size_after_ignored_direct_seats' if root else
              'house_size_by_party_outside_tier' if outside else 'house_size')
        out.append((cl, f'house {house}, baseline {n} + adjustment {adj}'))
    if exp is not None and exp['drop'] == 0 and case['final'] == case['evaluator'] and not out:
        try:
            full = _bb(case['final'], exp['totals'], n + adj)
            by_party = {}
            for d in totals.values():
                for p, s in d.items():
                    by_party[p] = by_party.get(p, 0) + s
            if {k: s for k, s in by_party.items() if s} != {k: s for k, s in full.items() if s}:
                out.append(('final_not_proportional', f'party totals {by_party}, proportional distribution of {n + adj} seats {full}'))
        except _Refused as x:
            out.append(('final_not_proportional', f'proportional evaluator refuses {n + adj} seats: {x.name}'))
    return out


def oracle(case, obs):
    out = []
    if case['op'] == 'overhang_calc' and case['kind'] == 'level_cty':
        return _cty_adj_clauses(case, obs)[0]
    if case['op'] == 'adjusted_eval' and case['kind'] == 'level_cty':
        return _oracle_cty_eval(case, obs)
    votes = _votes(case)
    direct = {i: k for i, k in case['prev']}
    n = case['n']
    if case['op'] == 'overhang_calc':
        v, _ = _adj_clauses(case, obs, votes, direct)
        return v
    # adjusted_eval
    adj, res = obs['adj'], obs['result']
    v, info = _adj_clauses(case, adj, votes, direct)
    out += v
    if isinstance(adj, dict):
        if not isinstance(res, dict) or res.get('err') != adj.get('err'):
            out.append(('result_despite_calculator_error', f'adj {adj} result {res}'))
        return out
    if isinstance(res, dict):
        return out + [('final_stage_error:' + str(res.get('err')) + ':' + case['final'], f'adjustment {adj}')]
    gains_or_totals = {}
    for k, s in res:
        kk = ('tie',) + tuple(k['tie']) if isinstance(k, dict) else k
        gains_or_totals[kk] = s
    if any((not isinstance(s, int)) or s < 0 for s in gains_or_totals.values()):
        out.append(('negative_gain', str(res)))
    if case['wrap'] == 'multistage':
        totals = gains_or_totals
    else:
        totals = dict(gains_or_totals)
        for p, k in direct.items():
            totals[p] = totals.get(p, 0) + k
    for p, k in direct.items():
        if totals.get(p, 0) < k:
            out.append(('direct_seat_lost', f'party {p}: {totals.get(p, 0)} < {k} direct seats'))
    house = sum(totals.values())
    if house != n + adj:
        out.append(('house_size', f'house {house}, baseline {n} + adjustment {adj}'))
    if case['kind'] == 'level' and case['final'] == case['evaluator'] and info.get('drop') == 0 and not out:
        try:
            full = _bb(case['final'], votes, n + adj)
            # a "proportional distribution" among parties nobody voted for is a tie artefact (all quotients are 0; whether
            # two of them are seated in one batch or reported as a Tie depends on where the run starts): the clause is
            # stated for seat holders with votes
            vid = {i: Fraction(s_) for i, s_ in case['votes']}
            holders = [k for k in list(full) + list(totals) if not isinstance(k, tuple)]
            zero_holder = any(vid.get(k, 0) == 0 and (full.get(k, 0) or totals.get(k, 0)) for k in holders)
            if not zero_holder and {k: s for k, s in totals.items() if s} != {k: s for k, s in full.items() if s}:
                out.append(('final_not_proportional', f'totals {totals}, proportional distribution of {n + adj} seats {full}'))
        except _Refused as x:
            out.append(('final_not_proportional', f'proportional evaluator refuses {n + adj} seats: {x.name}'))
    return out


def nontrivial(case, obs):
    if case['op'] == 'adjusted_eval' and case['kind'] == 'level_cty':
        return not isinstance(obs['result'], dict) and any(k for _, ps in case['cprev'] for _, k in ps)
    if case['op'] == 'adjusted_eval':
        return not isinstance(obs['result'], dict) and any(k for _, k in case['prev'])
    if isinstance(obs, dict):
        return False
    if case['kind'] == 'level_cty':
        return any(k for _, ps in case['cprev'] for _, k in ps)
    return any(k for _, k in case['prev'])


# ------------------------------------------------------------------------------------------------
# generator

def _gen_votes(rng, m, kind):
    if kind == 'small':
        base = rng.choice([1, 2, 3, 6, 12])
        vs = [base * rng.choice([0, 1, 1, 2, 2, 3, 4, 6]) for _ in range(m)]
    elif kind == 'mid':
        vs = [rng.randint(0, 1000) for _ in range(m)]
    elif kind == 'skew':
        vs = [rng.randint(300, 1000)] + [rng.randint(20, 400) for _ in range(m - 1)]
        rng.shuffle(vs)
    else:
        vs = [rng.randint(10 ** 9, 10 ** 12) for _ in range(m)]
    if all(v == 0 for v in vs):
        vs[rng.randrange(m)] = rng.randint(1, 5)
    if rng.random() < 0.08:
        d = rng.choice([2, 3])
        vs = [Fraction(v, d) for v in vs]
    return vs


def _share(vs, n):
    tot = sum(vs)
    return [Fraction(v * n, tot) for v in vs]


def _gen_direct(rng, m, vs, n, mode):
    """direct-seat map over ids 0..m (id m = party without a votes entry); sum <= n"""
    ids = list(range(m))
    direct = {}
    sh = _share(vs, n)
    if mode == 'none':
        pass
    elif mode == 'below':        # nobody above its (floored) share
        for i in ids:
            k = int(sh[i])
            if k > 0 and rng.random() < 0.7:
                direct[i] = rng.randint(0, k)
    elif mode == 'skew':         # one or two parties above their share
        for i in rng.sample(ids, rng.choice([1, 1, 2])):
            direct[i] = int(sh[i]) + rng.randint(1, 3)
        for i in ids:
            if i not in direct and rng.random() < 0.4:
                direct[i] = rng.randint(0, max(0, int(sh[i])))
    elif mode == 'outside':      # a party with direct seats but (probably) no proportional seat, or without votes
        who = rng.choice(['novotes', 'zero', 'tiny'])
        if who == 'novotes':
            direct[m] = rng.randint(1, 2)
        else:
            j = min(ids, key=lambda i: vs[i])
            direct[j] = rng.randint(1, 2)
        for i in ids:
            if i not in direct and rng.random() < 0.5:
                direct[i] = max(0, int(sh[i]) + rng.randint(-2, 1))
    else:
        budget = n
        order = ids + ([m] if rng.random() < 0.3 else [])
        rng.shuffle(order)
        for i in order:
            if budget > 0 and rng.random() < 0.6:
                k = rng.randint(0, min(budget, max(1, n // 2)))
                direct[i] = k
                budget -= k
    # trim to sum <= n
    items = list(direct.items())
    rng.shuffle(items)
    tot = 0
    res = []
    for i, k in items:
        k = min(k, n - tot)
        tot += k
        if k > 0 or rng.random() < 0.3:
            res.append([i, k])
    return res


def _flat_case(rng, op=None, kind=None, ev=None, vkind=None, dmode=None, n=None, wrap=None, zero_party=False):
    m = rng.randint(2, 6)
    vkind = vkind or rng.choice(['small', 'small', 'mid', 'mid', 'skew', 'big'])
    vs = _gen_votes(rng, m, vkind)
    if zero_party:
        vs[rng.randrange(m)] = 0
        if all(v == 0 for v in vs):
            vs[0] = 7
    n = n or rng.randint(1, 30)
    dmode = dmode or rng.choice(['none', 'below', 'skew', 'skew', 'outside', 'random', 'random'])
    prev = _gen_direct(rng, m, vs, n, dmode)
    kind = kind or rng.choice(['allow', 'level', 'level'])
    ev = ev or rng.choice(EVALS)
    op = op or rng.choice(['overhang_calc', 'adjusted_eval'])
    c = {'op': op, 'kind': kind, 'evaluator': ev, 'votes': [[i, num_str(v)] for i, v in enumerate(vs)], 'n': n,
         'prev': prev, 'max': [], 'fuel': FUEL, '_tags': [kind, ev]}
    if op == 'adjusted_eval':
        c['final'] = ev if rng.random() < 0.9 else rng.choice(EVALS)
        c['wrap'] = wrap or rng.choice(['none', 'multistage'])
        if c['wrap'] == 'multistage':
            c['_tags'].append('multistage_wrapped')
    return c


def _cty_case(rng, ev=None, op=None, wrap=None, overall=None, clash=None):
    m = rng.randint(2, 5)
    nc = rng.randint(2, 3)
    ev = ev or rng.choice(EVALS)
    cvotes, cprev, app = [], [], []
    vkind = rng.choice(['small', 'mid', 'mid', 'skew', 'skew'])
    for c in range(nc):
        vs = _gen_votes(rng, m, vkind)
        seats = rng.randint(0 if rng.random() < 0.1 else 1, 8)
        cvotes.append([c, [[i, num_str(v)] for i, v in enumerate(vs)]])
        app.append([c, seats])
        if seats:
            d = _gen_direct(rng, m, vs, seats, rng.choice(['none', 'below', 'skew', 'skew', 'outside', 'random']))
            if d or rng.random() < 0.5:
                cprev.append([c, d])
    n = sum(k for _, k in app) + rng.choice([0, 0, 0, 1, 2])
    if sum(k for _, ps in cprev for _, k in ps) > n:
        n = sum(k for _, ps in cprev for _, k in ps)
    overall = overall or ('none' if rng.random() < 0.2 else 'given')
    # constituency evaluator: fixed apportionment dict, or an apportioning evaluator (always in most default-overall cases:
    # with a fixed apportionment the default overall result does not depend on the house size)
    capp = 'fixed'
    if (overall == 'none' and rng.random() < 0.85) or (overall == 'given' and rng.random() < 0.2):
        capp = rng.choice(['d_hondt', 'sainte_lague', ev])
    c = {'op': op or rng.choice(['overhang_calc', 'adjusted_eval']), 'kind': 'level_cty', 'evaluator': ev,
         'overall': overall, 'capp': capp, 'cvotes': cvotes, 'cprev': cprev, 'app': app, 'n': n, 'fuel': FUEL,
         '_tags': ['by_constituency', ev]}
    if overall == 'none':
        c['op'] = 'overhang_calc'       # the distributing ByParty stage is specified for a nationwide overall evaluator
        c['_tags'].append('default_overall')
    if capp != 'fixed':
        c['_tags'].append('apportioned')
    # name clash between key kinds: a constituency that is the same object as a party
    if clash is None:
        r = rng.random()
        clash = 'str' if r < 0.20 else 'int0' if r < 0.30 else 'empty0' if r < 0.36 else 'no'
    if clash == 'str':
        c['_cnames'] = 'p'                       # constituencies 'p0', 'p1', … next to parties 'p0', 'p1', …
    elif clash in ('int0', 'empty0'):
        c['_names'] = clash                      # common.Names: ids are the ints themselves / id 0 is ''
        c['_tags'].append('names:' + clash)
    if clash != 'no':
        c['_tags'] += ['cty_party_name_clash', 'clash_' + clash]
    if c['op'] == 'adjusted_eval':
        c['final'] = ev
        # the allocator distributes a party's seats over the constituencies; with LargestRemainder it divides by zero on
        # a tied overall result (ByParty treats the Tie as a party without votes), so as in the DE example the allocator
        # is a highest-averages evaluator
        c['alloc'] = ev if ev != 'hare_lr' else 'sainte_lague'
        c['wrap'] = wrap or rng.choice(['none', 'multistage'])
        if c['wrap'] == 'multistage':
            c['_tags'] += ['multistage_wrapped', 'multistage_depth2']
    return c


def _post_tags(case):
    """tags describing what the case exercises, from the black-box evaluators (not from the adjusters)"""
    t = case['_tags']
    if case['kind'] == 'level_cty':
        try:
            exp = _cty_expected(case)
        except _Refused:
            t.append('evaluator_refuses')
            return
        if exp['drop'] > 0:
            t.append('party_outside_tier')
        if exp['least'] is not None and exp['least'] >= 2:
            t.append('levelling_iterations_ge2')
        if exp['least'] == 0:
            t.append('no_overhang')
        elif exp['least']:
            t.append('overhang_present')
        return
    votes = _votes(case)
    direct = {i: k for i, k in case['prev']}
    vids = {i for i, _ in case['votes']}
    if any(i not in vids for i in direct):
        t.append('party_without_votes')
    try:
        base = _bb(case['evaluator'], votes, case['n'])
    except _Refused:
        t.append('evaluator_refuses')
        return
    if any(isinstance(k, tuple) for k in base):
        t.append('tie_in_baseline')
    over = {p: k - base.get(p, 0) for p, k in direct.items() if k > base.get(p, 0)}
    t.append('overhang_present' if over else 'no_overhang')
    if any(k > 0 and p not in base for p, k in direct.items()):
        t.append('party_outside_tier')
    if case['kind'] == 'level':
        try:
            exp = _expected_level(case['evaluator'], votes, case['n'], direct, case['fuel'])
            if exp['tier_overhang'] and exp['least'] is not None and exp['least'] - exp['drop'] >= 2:
                t.append('levelling_iterations_ge2')
            if exp['mid_tie'] and 'tie_in_baseline' not in t:
                t.append('intermediate_tie')
            if exp['alabama'] and case['evaluator'] == 'hare_lr':
                t.append('alabama_lr')
        except _Refused:
            pass


def _level_case(op, ev, votes, n, direct, wrap='none', tags=()):
    c = {'op': op, 'kind': 'level', 'evaluator': ev, 'votes': [[i, num_str(v)] for i, v in enumerate(votes)], 'n': n,
         'prev': [[i, k] for i, k in enumerate(direct) if k], 'max': [], 'fuel': FUEL, '_tags': ['level', ev] + list(tags)}
    if op == 'adjusted_eval':
        c['final'] = ev
        c['wrap'] = wrap
        if wrap == 'multistage':
            c['_tags'].append('multistage_wrapped')
    return c


# known instances (fallbacks so that the counters never depend on luck): an exact tie between two equal parties at an
# intermediate house size; the Alabama paradox under Hare largest remainder between 6 and 7 seats
_TIE_FALLBACK = [('d_hondt', [28000, 8000, 8000], 8, [2, 2, 2]), ('sainte_lague', [40000, 12000, 12000], 11, [2, 3, 3]),
                 ('hare_lr', [9, 2, 17, 5], 9, [0, 0, 1, 2])]
_ALABAMA_FALLBACK = [('hare_lr', [4080, 2831, 4193, 1440, 3862], 4, [2, 0, 0, 0, 2])]


def _directed_intermediate_tie(rng, count):
    """two parties with equal votes and overhang next to a bigger one: on the way up they tie for a seat"""
    out = []
    for ev, vs, n, d in _TIE_FALLBACK:
        out.append(_level_case(rng.choice(['overhang_calc', 'adjusted_eval']), ev, vs, n, d, tags=['directed']))
    tries = 0
    while len(out) < count and tries < 60 * count:
        tries += 1
        ev = rng.choice(EVALS)
        b = rng.choice([1, 2, 3, 5, 8, 1000])
        m = rng.choice([3, 3, 4])
        vs = [b * rng.randint(2, 9)] + [b * rng.randint(1, 3)] * 2 + [b * rng.randint(1, 6) for _ in range(m - 3)]
        n = rng.randint(4, 14)
        try:
            base = _bb(ev, {NAMES.n(i): v for i, v in enumerate(vs)}, n)
        except _Refused:
            continue
        if any(isinstance(k, tuple) for k in base) or 1 not in base or 2 not in base:
            continue
        d = [rng.randint(0, base.get(0, 0)), base[1] + rng.randint(0, 2), base[2] + rng.randint(1, 2)] + [0] * (m - 3)
        if sum(d) > n:
            continue
        c = _level_case(rng.choice(['overhang_calc', 'adjusted_eval']), ev, vs, n, d,
                        wrap=rng.choice(['none', 'multistage']), tags=['directed'])
        exp = _expected_level(ev, _votes(c), n, {i: k for i, k in c['prev']}, FUEL)
        if exp['mid_tie']:
            out.append(c)
    return out


def _directed_alabama(rng, count):
    """Hare largest remainder, 4-5 parties, small house: keep the cases in which a tier party loses a seat while the
    house grows towards the levelled size"""
    out = []
    for ev, vs, n, d in _ALABAMA_FALLBACK:
        out.append(_level_case(rng.choice(['overhang_calc', 'adjusted_eval']), ev, vs, n, d, tags=['directed']))
    tries = 0
    while len(out) < count and tries < 400 * count:
        tries += 1
        m = rng.choice([4, 5, 5, 6])
        vs = [rng.randint(300, 5000) for _ in range(m)]
        n = rng.randint(3, 9)
        try:
            base = _bb('hare_lr', {NAMES.n(i): v for i, v in enumerate(vs)}, n)
        except _Refused:
            continue
        if any(isinstance(k, tuple) for k in base):
            continue
        d = [0] * m
        for i in rng.sample(range(m), 2):
            if i in base:
                d[i] = base[i] + rng.randint(1, 2)
        if sum(d) > n or not any(d):
            continue
        c = _level_case(rng.choice(['overhang_calc', 'adjusted_eval']), 'hare_lr', vs, n, d,
                        wrap=rng.choice(['none', 'multistage']), tags=['directed'])
        exp = _expected_level('hare_lr', _votes(c), n, {i: k for i, k in c['prev']}, FUEL)
        if exp['alabama']:
            out.append(c)
    return out


def generate(rng, tier):
    N = 2000 if tier == 'quick' else 40000
    cases = []
    for _ in range(N):
        cases.append(_flat_case(rng))
    for _ in range(N // 6):
        cases.append(_cty_case(rng))
    per = 15 if tier == 'quick' else 300
    for _ in range(per):
        for ev in EVALS:
            cases.append(_flat_case(rng, kind='level', ev=ev, dmode='skew', vkind='skew'))          # iterations >= 2
            cases.append(_flat_case(rng, kind='allow', ev=ev, dmode='skew'))
            cases.append(_flat_case(rng, kind='level', ev=ev, dmode='outside'))
            cases.append(_flat_case(rng, ev=ev, dmode='below'))
            cases.append(_flat_case(rng, ev=ev, vkind='small', zero_party=True, dmode='outside'))
            cases.append(_flat_case(rng, op='adjusted_eval', ev=ev, wrap='multistage', dmode='skew'))
            cases.append(_flat_case(rng, ev=ev, vkind='small', n=rng.choice([1, 2, 3, 5, 7])))          # ties in the baseline
            cases.append(_cty_case(rng, ev=ev))
            cases.append(_cty_case(rng, ev=ev, op='adjusted_eval', wrap='multistage', overall='given'))
            cases.append(_cty_case(rng, ev=ev, overall='none'))
            cases.append(_cty_case(rng, ev=ev, op='adjusted_eval', wrap=rng.choice(['none', 'multistage']), overall='given',
                                   clash=rng.choice(['str', 'int0', 'empty0'])))
    for ev in EVALS:          # nobody has any vote: all ties under highest averages, refusal (non-positive quota) under LR
        for kind in ('allow', 'level'):
            c0 = {'op': rng.choice(['overhang_calc', 'adjusted_eval']), 'kind': kind, 'evaluator': ev,
                  'votes': [[i, '0'] for i in range(3)], 'n': rng.randint(1, 5), 'prev': [[0, 1]], 'max': [],
                  'fuel': FUEL, '_tags': [kind, ev, 'all_zero_votes']}
            if c0['op'] == 'adjusted_eval':
                c0['final'], c0['wrap'] = ev, 'none'
            cases.append(c0)
    cases += _directed_intermediate_tie(rng, 30 if tier == 'quick' else 300)
    cases += _directed_alabama(rng, 30 if tier == 'quick' else 300)
    if tier == 'thorough':
        # small-scope exhaustive: all vote vectors over {0..3}^2 (n <= 5) and {0..2}^3 (n <= 3), all direct maps with
        # entries <= 2 and sum <= n over the parties and one party without votes, 3 evaluators, allow and level
        for m in (2, 3):
            for vals in itertools.product(range(0, 4 if m == 2 else 3), repeat=m):
                if sum(vals) == 0:
                    continue
                for n in range(1, 6 if m == 2 else 4):
                    for dm in itertools.product(range(0, 3), repeat=m + 1):
                        if sum(dm) > n or sum(dm) == 0:
                            continue
                        for ev in EVALS:
                            for kind in ('allow', 'level'):
                                cases.append({'op': 'adjusted_eval', 'kind': kind, 'evaluator': ev, 'final': ev,
                                              'wrap': 'none', 'votes': [[i, str(v)] for i, v in enumerate(vals)], 'n': n,
                                              'prev': [[i, k] for i, k in enumerate(dm) if k], 'max': [], 'fuel': FUEL,
                                              '_tags': [kind, ev, 'exhaustive']})
    for c in cases:
        _post_tags(c)
        yield c


def shrink_candidates(case):
    if case.get('kind') == 'level_cty':
        for i in range(len(case['cprev'])):
            c = dict(case)
            c['cprev'] = case['cprev'][:i] + case['cprev'][i+1:]
            yield c
        return
    vs = case['votes']
    if len(vs) > 2:
        for i in range(len(vs)):
            c = dict(case)
            c['votes'] = vs[:i] + vs[i+1:]
            yield c
    for i in range(len(case['prev'])):
        c = dict(case)
        c['prev'] = case['prev'][:i] + case['prev'][i+1:]
        yield c
        if case['prev'][i][1] > 1:
            c = dict(case)
            c['prev'] = case['prev'][:i] + [[case['prev'][i][0], case['prev'][i][1] - 1]] + case['prev'][i+1:]
            yield c
    if case['n'] > 1 and sum(k for _, k in case['prev']) < case['n']:
        c = dict(case)
        c['n'] = case['n'] - 1
        yield c


def describe(case):
    evs = {'d_hondt': "HighestAverages('d_hondt')", 'sainte_lague': "HighestAverages('sainte_lague')",
           'hare_lr': "LargestRemainder('hare')"}
    if case.get('kind') == 'level_cty':
        app = {_cn(case, c): k for c, k in case['app']} if case.get('capp', 'fixed') == 'fixed' else evs[case['capp']]
        app = repr(app) if isinstance(app, dict) else app
        ov = evs[case['evaluator']] if case.get('overall', 'given') == 'given' else 'None'
        calc = (f"LevelOverhangByConstituency(ByConstituency({evs[case['evaluator']]}, apportioner={app}), "
                f"overall_evaluator={ov})")
        if case['op'] == 'overhang_calc':
            return f"{calc}.calculate({_cvotes(case)!r}, {case['n']}, prev_gains={_cprev(case)!r})"
        asc = f"AdjustedSeatCount({calc}, ByParty({evs[case['final']]}, allocator={evs[case['alloc']]}))"
        if case['wrap'] == 'multistage':
            return (f"MultistageDistributor([<stage returning {_cprev(case)!r}>, {asc}], depth=2)"
                    f".evaluate({_cvotes(case)!r}, {case['n']})")
        return f"{asc}.evaluate({_cvotes(case)!r}, {case['n']}, prev_gains={_cprev(case)!r})"
    cls = {'allow': 'AllowOverhang', 'level': 'LevelOverhang'}[case['kind']]
    calc = f"{cls}({evs[case['evaluator']]})"
    votes, prev = _votes(case), _seats(case['prev'])
    if case['op'] == 'overhang_calc':
        return f"{calc}.calculate({votes!r}, {case['n']}, prev_gains={prev!r})"
    asc = f"AdjustedSeatCount({calc}, {evs[case['final']]})"
    if case['wrap'] == 'multistage':
        return f"MultistageDistributor([<stage returning {prev!r}>, {asc}]).evaluate({votes!r}, {case['n']})"
    return f"{asc}.evaluate({votes!r}, {case['n']}, prev_gains={prev!r})"


def signature(case, clause):
    if clause == 'level_floor_unmet_at_zero_with_party_outside_tier':
        return 'level:floor_unmet_at_zero_with_party_outside_tier'
    if (clause == 'level_cty_floor_ignores_direct_seats_without_local_share'
            or clause == 'house_size_after_ignored_direct_seats'
            or clause.startswith('final_stage_error_after_ignored_direct_seats:')):
        return 'level_cty:direct_seats_without_local_share'
    if clause == 'house_size_by_party_outside_tier' or clause.startswith('final_stage_error_by_party_outside_tier:'):
        return 'level_cty:by_party_outside_tier'
    return f"{case.get('op')}:{clause}"


TECHNIQUE = ('Lean 4 proofs about evaluator-parametric models of the seat-count adjusters (loop invariant of the fuelled '
             'levelling loop; C01 theorems discharge the evaluator hypotheses for highest averages) + differential '
             'correspondence + brute-force oracle over house sizes')
LEVEL_TEXT = ('The seat-count adjusters (AllowOverhang, LevelOverhang, LevelOverhangByConstituency), AdjustedSeatCount, the two-stage '
              'MultistageDistributor (depth 1 and 2) and ByParty are modelled in Lean over an arbitrary proportional evaluator; the '
              'clauses of C15 are theorems for all inputs: direct seats kept (any calculator/evaluator), adjustment = overhang count, '
              'zero without overhang, the levelling result is the first adequate house size (loop invariant, any evaluator; literal '
              'least-enlargement form for evaluators that fill the house), and for highest averages (C01 model, divisors regenerated '
              'from divisor.py): house = n + adjustment, termination for unbounded divisors, final totals = proportional distribution '
              'of the enlarged house (exchange argument on C01 optimality + strict separation). Model tied to the code by '
              'differential correspondence; a brute-force oracle over house sizes states the property on the implementation.')
LEVEL_NOTE = ('Trusted: Lean kernel + standard axioms; translate.py (divisors); the correspondence harness (2-6 parties, house <= 30, '
              '3 evaluators, 2-3 constituencies); the C01 pool abstraction; the hand model of LargestRemainder(hare). Where the code '
              'departs from the literal property (5 recorded findings) the model follows the code and witness theorems pin the departure.')
