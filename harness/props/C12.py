"""C12 — approval and score family evaluators match their defining optimisation.

ops (protocol lines)
    pav, pav_seq, spav                      approval profiles  votes=[[[cand ids], "w"], ...]
    score_agg, score, mj, star, allocated   score profiles     votes=[[[[cand, "grade"], ...], count], ...]

The oracle is an independent Python reference per evaluator written from the definitions (brute-force PAV over
all subsets with exact Fractions, round-by-round SPAV, weighted mean / sum / lower median, one-at-a-time
majority-judgment tie-break, Schulze run-off from true widest paths, quota spending by supporter strength) plus
a brute-force justified-representation check on every PAV committee.
"""
import itertools
import math
from fractions import Fraction
from decimal import Decimal
from common import *   # noqa

ID = 'C12'
NAMESPACE = 'VL.C12'
LEAN_MODULES = ['VotelibProofs.Props.C12']
GEN_MODULES = ['Quota']


# ------------------------------------------------------------------------------------------------
# candidates.  The model reads "iteration order of a set of candidates" as ascending protocol id; every candidate kind
# below hashes to its id, which makes CPython iterate small sets of them in that order.
#   'k'       str objects 'c<i>' (default)
#   'int0'    the int id itself - candidate 0 is falsy
#   'empty0'  candidate 0 is the EMPTY string (a str, falsy), the others as 'k'
#   'person'  votelib.candidate.Person objects: compared by IDENTITY (a copy is a different candidate)
# An object the harness did not hand in decodes to id 999999, which every oracle clause reports as a violation.

UNKNOWN_CANDIDATE = 999999
NAME_KINDS = ['k', 'int0', 'empty0', 'person']


class K(str):
    __slots__ = ('idx',)

    def __new__(cls, idx, text=None):
        o = super().__new__(cls, f'c{idx}' if text is None else text)
        o.idx = idx
        return o

    def __hash__(self):
        return self.idx

    def __eq__(self, other):
        return str.__eq__(self, other)

    def __ne__(self, other):
        return str.__ne__(self, other)


_KS = [K(i) for i in range(16)]
_KE = [K(0, '')] + _KS[1:]
_PERSONS = {}


def _person(i):
    if i not in _PERSONS:
        import votelib.candidate

        class PersonK(votelib.candidate.Person):
            def __hash__(self):
                return self.idx
        p = PersonK(f'person {i}')
        p.idx = i
        _PERSONS[i] = p
    return _PERSONS[i]


class _Names:
    def __init__(self, kind='k'):
        self.kind = kind

    def n(self, i):
        if self.kind == 'int0':
            return i
        if self.kind == 'empty0':
            return _KE[i]
        if self.kind == 'person':
            return _person(i)
        return _KS[i]

    def i(self, name):
        if isinstance(name, K):
            return name.idx
        if isinstance(name, bool):
            return UNKNOWN_CANDIDATE
        if isinstance(name, int):
            return name
        for i, p in _PERSONS.items():
            if p is name:
                return i
        return UNKNOWN_CANDIDATE


NAMES = _Names()


def _names(case):
    return _Names(case.get('_names', 'k'))


def _num(s, as_int=True):
    f = Fraction(s)
    return int(f) if (as_int and f.denominator == 1) else f


def _typed(s, kind):
    """the exact number `s` ("p/q") as a Python number of the given kind: int / frac / dec / float (fallback: Fraction)"""
    f = Fraction(s)
    if kind == 'frac':
        return f
    if kind == 'dec':
        d = Decimal(f.numerator) / Decimal(f.denominator)
        return d if Fraction(d) == f else f
    if kind == 'float':
        x = f.numerator / f.denominator
        return x if Fraction(x) == f else f
    return int(f) if f.denominator == 1 else f


def approval_votes(case, names=NAMES):
    return {frozenset(names.n(c) for c in b): _num(w) for b, w in case['votes']}


def score_votes(case, names=NAMES):
    out = {}
    gt = case.get('_gt', 'int')
    for b, w in case['votes']:
        key = frozenset((names.n(c), _typed(g, gt)) for c, g in b)
        out[key] = out.get(key, 0) + (_num(w) if isinstance(w, str) else w)
    return out


def _agg_kwargs(case):
    u = case.get('unscored')
    if u is not None and u != 'min':
        u = _typed(u, case.get('_ut', 'int'))
    t = _typed(case.get('truncation', '0'), case.get('_tt', 'int'))
    return dict(unscored_value=u, min_count=case.get('min_count', 0), truncation=t,
                bottom_value=_typed(case.get('bottom', '0'), case.get('_bt', 'int')))


# ------------------------------------------------------------------------------------------------
# implementation side

def _evaluator(case, decoy=False):
    """the votelib object of a case (decoy: a differently configured object of the same class)"""
    import votelib.evaluate.approval as vapp
    import votelib.evaluate.cardinal as vcard
    import votelib.evaluate.condorcet as vcond
    import votelib.component.quota as vquota
    op = case['op']
    if op in ('pav', 'pav_seq'):
        return vapp.ProportionalApproval()
    if op == 'spav':
        return vapp.SequentialProportionalApproval()
    if op == 'allocated':
        q = case['quota']
        if decoy:
            q = 'hare' if q != 'hare' else 'droop'
        elif case.get('_qc'):
            q = getattr(vquota, q)
        return vcard.AllocatedScoreSelector(q)
    kw = _agg_kwargs(case)
    if decoy:
        kw = dict(kw, min_count=kw['min_count'] + 2, bottom_value=7, unscored_value=(None if kw['unscored_value'] is not None else 3))
    if op == 'score':
        return vcard.ScoreVoting(function=('sum' if decoy and case['function'] != 'sum' else case['function']), **kw)
    if op == 'mj':
        tb = case['tie_breaking']
        if decoy:
            tb = 'plus' if tb == 'default' else 'default'
        return vcard.MajorityJudgment(tie_breaking=tb, **kw)
    if op == 'star':
        extra = {}
        if case.get('_re') == 'obj':
            extra['runoff_evaluator'] = vcond.Schulze()
        return vcard.STAR(runoff_added_count=case['added_count'] + (1 if decoy else 0),
                          runoff_added_fraction=_typed(case['added_fraction'], case.get('_ft', 'int')), **extra, **kw)
    raise ValueError(op)


def _votes_of(case, names):
    return approval_votes(case, names) if case['op'] in ('pav', 'pav_seq', 'spav') else score_votes(case, names)


def impl(case):
    import votelib.convert as vconv
    op = case['op']
    names = _names(case)
    if op == 'seq':
        runs = case['runs']
        def build():
            if case.get('_decoy'):
                d = _evaluator(runs[0], decoy=True)
                try:
                    d.evaluate(_votes_of(dict(runs[0], _names=case.get('_names', 'k')), names), runs[0]['n'])
                except Exception:      # noqa
                    pass
            return _evaluator(runs[0])
        ev = guarded(build)
        if isinstance(ev, dict) and 'err' in ev:
            return [ev for _ in runs]
        out = []
        for r in runs:
            votes = _votes_of(dict(r, _gt=r.get('_gt', 'int')), names)
            out.append(guarded(lambda votes=votes, r=r: enc_selection(ev.evaluate(votes, r['n']), names)))
        return out
    if op == 'pav_seq':
        votes = approval_votes(case, names)
        inst = _evaluator(case)
        return [guarded(lambda n=n: enc_selection(inst.evaluate(votes, n), names)) for n in case['calls']]
    votes = _votes_of(case, names)
    if op == 'score_agg':
        kw = _agg_kwargs(case)
        def run():
            res = vconv.ScoreToSimpleVotes(function=case['function'], **kw).convert(votes)
            return sorted([names.i(c), num_str(v)] for c, v in res.items())
        return guarded(run)
    return guarded(lambda: enc_selection(_evaluator(case).evaluate(votes, case['n']), names))


# ------------------------------------------------------------------------------------------------
# reference implementations (from the definitions; exact Fractions; nothing shared with votelib or the model)

def H(k):
    return sum(Fraction(1, i) for i in range(1, k + 1))


def ref_profile_approval(case):
    return [(frozenset(b), Fraction(w)) for b, w in case['votes']]


def pav_score(prof, committee):
    return sum(w * H(len(b & committee)) for b, w in prof)


def ref_pav(prof, n):
    """-> (list of maximising committees (frozensets), best score)"""
    cands = sorted(set().union(*[b for b, _ in prof])) if prof else []
    best, arg = None, []
    for comb in itertools.combinations(cands, n):
        s = pav_score(prof, frozenset(comb))
        if best is None or s > best:
            best, arg = s, [frozenset(comb)]
        elif s == best:
            arg.append(frozenset(comb))
    return arg, best


def jr_violations(prof, committee, n):
    """candidates c such that the voters approving c and nobody in the committee weigh at least V/n"""
    V = sum(w for _, w in prof)
    cands = set().union(*[b for b, _ in prof]) if prof else set()
    bad = []
    for c in sorted(cands):
        g = sum(w for b, w in prof if c in b and not (b & committee))
        if g > 0 and g * n >= V:
            bad.append(c)
    return bad


def ref_spav(prof, n):
    """-> ('ok', [elected...]) | ('tie', prefix)"""
    cands = set().union(*[b for b, _ in prof]) if prof else set()
    elected = []
    while len(elected) < n:
        rest = sorted(cands - set(elected))
        if not rest:
            break
        sc = {c: sum(w / (1 + len(b & set(elected))) for b, w in prof if c in b) for c in rest}
        top = max(sc.values())
        winners = [c for c in rest if sc[c] == top]
        if len(winners) > 1:
            return 'tie', elected
        elected.append(winners[0])
    return 'ok', elected


def ref_score_profile(case):
    return [({c: Fraction(g) for c, g in b}, Fraction(w) if isinstance(w, str) else Fraction(w)) for b, w in case['votes']]


def ref_corrected(prof, case):
    """candidate -> weighted multiset {grade: weight} after the documented corrections, in ballot order of first mention"""
    N = sum(w for _, w in prof)
    order = []
    for b, _ in prof:
        for c in sorted(b):
            if c not in order:
                order.append(c)
    unscored = case.get('unscored')
    trunc = Fraction(case.get('truncation', '0'))
    min_count = case.get('min_count', 0)
    bottom = Fraction(case.get('bottom', '0'))
    out = {}
    for c in order:
        ms = {}
        for b, w in prof:
            if c in b:
                ms[b[c]] = ms.get(b[c], 0) + w
        given = sum(ms.values())
        if given < min_count:
            out[c] = {bottom: Fraction(min_count)}
            continue
        if unscored is not None:
            if unscored == 'min':
                if not [g for g, w in ms.items() if w > 0]:
                    out[c] = None
                    continue
                u = min(g for g, w in ms.items() if w > 0)
            else:
                u = Fraction(unscored)
            ms[u] = ms.get(u, 0) + (N - given)
        if trunc > 0:
            cut = math.floor(N * trunc) if trunc < 1 else trunc
            for direction in (False, True):
                left = cut
                for g in sorted(ms, reverse=direction):
                    take = min(left, ms[g])
                    ms[g] -= take
                    left -= take
            ms = {g: w for g, w in ms.items() if w > 0}
        out[c] = ms
    return out


def lower_median(ms):
    """the ceil(M/2)-th smallest grade of a weighted multiset with integer weights"""
    M = sum(ms.values())
    if M <= 0:
        return None
    k = -(-M // 2)
    acc = 0
    for g in sorted(ms):
        acc += ms[g]
        if acc >= k:
            return g


def ref_aggregate_one(ms, function):
    if ms is None:
        return None
    M = sum(ms.values())
    if function == 'sum':
        return sum(g * w for g, w in ms.items())
    if M <= 0:
        return None
    if function == 'mean':
        return sum(g * w for g, w in ms.items()) / M
    if function == 'median_low':
        return lower_median(ms)
    raise ValueError(function)


def ref_aggregate(prof, case, function):
    corr = ref_corrected(prof, case)
    return {c: ref_aggregate_one(ms, function) for c, ms in corr.items()}, corr


def check_nbest(vals, n, res, prefix=''):
    """res (protocol selection) is a valid `n best by value` answer: strictly-above in non-increasing order,
    the level set entirely or as tie objects, nobody lower, exactly min(n, len) places"""
    out = []
    if isinstance(res, dict):
        return [(prefix + 'unexpected_error', res.get('err'))]
    m = len(vals)
    cands = [x for x in res if not isinstance(x, dict)]
    ties = [x for x in res if isinstance(x, dict)]
    if len(set(cands)) != len(cands) or not set(cands) <= set(vals):
        return [(prefix + 'bad_candidates', str(res))]
    seq = [vals[x] for x in cands]
    if any(a < b for a, b in zip(seq, seq[1:])):
        out.append((prefix + 'order', 'not non-increasing in the aggregate'))
    if m <= n:
        if sorted(cands) != sorted(vals) or ties:
            out.append((prefix + 'not_everyone', 'no more candidates than seats: all must be elected'))
        return out
    srt = sorted(vals.values(), reverse=True)
    tau = srt[n - 1]
    above = {c for c, v in vals.items() if v > tau}
    level = sorted(c for c, v in vals.items() if v == tau)
    if len(res) != n:
        out.append((prefix + 'length', f'{len(res)} places for {n} seats'))
    if not above <= set(cands):
        out.append((prefix + 'above_missing', 'a candidate strictly above the n-th aggregate is not elected'))
    if any(vals[c] < tau for c in cands):
        out.append((prefix + 'lower_elected', 'a candidate below the n-th aggregate is elected'))
    if len(above) + len(level) <= n:
        if not set(level) <= set(cands) or ties:
            out.append((prefix + 'level', 'level set fits but is not elected as such'))
    else:
        if set(level) & set(cands):
            out.append((prefix + 'tie_resolved_silently', 'level candidate elected although the level set does not fit'))
        if len(ties) != n - len(above) or any(sorted(t['tie']) != level for t in ties):
            out.append((prefix + 'tie_shape', f'expected {n - len(above)} ties naming {level}'))
        if any(isinstance(x, dict) for x in res[:len(above)]):
            out.append((prefix + 'tie_position', 'ties must come last'))
    return out


def nbest_ref(vals, n):
    """canonical (order-free) form of the n-best answer: (set of surely elected, tie set or None, number of tie places)"""
    m = len(vals)
    if m <= n:
        return set(vals), None, 0
    srt = sorted(vals.values(), reverse=True)
    tau = srt[n - 1]
    above = {c for c, v in vals.items() if v > tau}
    level = {c for c, v in vals.items() if v == tau}
    if len(above) + len(level) <= n:
        return above | level, None, 0
    return above, level, n - len(above)


def canon_sel(res):
    """order-free form of a protocol selection"""
    cands = sorted(x for x in res if not isinstance(x, dict))
    ties = sorted(tuple(sorted(x['tie'])) for x in res if isinstance(x, dict))
    return cands, ties


# -- majority judgment

def mj_tiebreak_default_ref(ms_by_cand, k):
    """Balinski-Laraki: remove ONE median grade from every tied candidate until the medians separate a group of
    winners.  -> ('ok', winners set) | ('tie', sure set, tied set, places) | ('unequal', None) when some but not all
    candidates run out of grades (the documented rule does not say)"""
    ms = {c: dict(m) for c, m in ms_by_cand.items()}
    winners = set()
    while True:
        if not ms or k <= 0:
            return 'ok', winners
        sizes = {c: sum(m.values()) for c, m in ms.items()}
        if all(s == 0 for s in sizes.values()):
            return 'tie', winners, set(ms), k
        if any(s == 0 for s in sizes.values()):
            return 'unequal', None
        med = {c: lower_median(m) for c, m in ms.items()}
        sure, level, places = nbest_ref(med, k)
        if level is None:
            return 'ok', winners | sure
        if sure:
            winners |= sure
            k -= len(sure)
            ms = {c: m for c, m in ms.items() if c not in sure}
            continue
        for c, m in ms.items():
            m[med[c]] -= 1


def ref_mj(prof, case):
    """-> dict(kind=..., ...) describing what the documented rule allows"""
    n = case['n']
    agg, corr = ref_aggregate(prof, case, 'median_low')
    if any(v is None for v in agg.values()) or not agg:
        return {'kind': 'undefined'}
    sure, level, places = nbest_ref(agg, n)
    if level is None:
        return {'kind': 'ok', 'winners': sure, 'agg': agg}
    tied = {c: corr[c] for c in level}
    if case['tie_breaking'] == 'plus':
        m = agg[next(iter(level))]
        maj = {c: sum(w for g, w in tied[c].items() if g >= m) for c in level}
        s2, l2, p2 = nbest_ref(maj, places)
        if l2 is None:
            return {'kind': 'ok', 'winners': sure | s2, 'agg': agg}
        return {'kind': 'tie', 'winners': sure | s2, 'tie': l2, 'places': p2, 'agg': agg}
    equal_sizes = len({sum(m.values()) for m in tied.values()}) == 1
    r = mj_tiebreak_default_ref(tied, places)
    if r[0] == 'ok':
        return {'kind': 'ok', 'winners': sure | r[1], 'agg': agg, 'equal_sizes': equal_sizes}
    if r[0] == 'tie':
        return {'kind': 'unbreakable', 'winners': sure | r[1], 'tie': r[2], 'places': r[3], 'agg': agg}
    return {'kind': 'unequal', 'winners': sure, 'tie': level, 'places': places, 'agg': agg}


# -- STAR

def pairwise_from_scores(prof, case):
    """d[a][b] = weight of ballots preferring a to b (higher grade; an unscored candidate takes the unscored value,
    or ranks below every scored one when there is none)"""
    cands = sorted(set().union(*[set(b) for b, _ in prof])) if prof else []
    u = case.get('unscored')
    d = {a: {b: Fraction(0) for b in cands if b != a} for a in cands}
    for b, w in prof:
        for x in cands:
            for y in cands:
                if x == y:
                    continue
                if u is None:
                    if x in b and (y not in b or b[x] > b[y]):
                        d[x][y] += w
                else:
                    gx = b.get(x, Fraction(u))
                    gy = b.get(y, Fraction(u))
                    if gx > gy:
                        d[x][y] += w
    return cands, d


def schulze_ref(members, d, n):
    """Schulze ranking among members from true widest paths; -> (values dict: number of beatpath wins)"""
    ms = sorted(members)
    p = {a: {b: (d[a][b] if d[a][b] > d[b][a] else 0) for b in ms if b != a} for a in ms}
    for k in ms:
        for i in ms:
            for j in ms:
                if len({i, j, k}) == 3:
                    p[i][j] = max(p[i][j], min(p[i][k], p[k][j]))
    return {a: sum(1 for b in ms if b != a and p[a][b] > p[b][a]) for a in ms}


def ref_star(prof, case):
    """-> (sums, run-off members, beatpath wins, order-free outcome, boundary tie?).  The run-off is held among the
    `runoff_size` top scorers; candidates tied at the boundary all enter; a run-off of one elects that candidate."""
    n = case['n']
    agg, _ = ref_aggregate(prof, case, 'sum')
    size = n + case['added_count'] + math.ceil(Fraction(case['added_fraction']) * n)
    cands, d = pairwise_from_scores(prof, case)
    sure, level, places = nbest_ref(agg, size)
    members = set(sure) | (set(level) if level is not None else set())
    if len(members) <= 1:
        wins = {c: 0 for c in members}
        outcome = (set(members) if n >= 1 else set(), None, 0)
    else:
        wins = schulze_ref(members, d, n)
        outcome = nbest_ref(wins, n)
    return agg, members, wins, outcome, level is not None


# -- allocated score

def ref_allocated(prof, n, quota_name, tie_orders=False):
    """Allocated score (selector): every round elects the candidate with the highest weighted score sum and spends one
    quota of ballot weight, strongest supporters first (whole grade groups while they fit, the last group scaled
    uniformly); an elected candidate's grades leave the ballots.  Ballots that grade nobody any more support nobody.
    -> ('ok', [winner | ('tie', members, places)], spent list) ; with tie_orders: the set of outcomes over all
    processing orders of tied winners elected together"""
    V = sum(w for _, w in prof)
    if quota_name == 'droop':
        quota = Fraction(V, n + 1).__floor__() + 1
    elif quota_name == 'hare':
        quota = Fraction(V, n)
    elif quota_name == 'hagenbach_bischoff':
        quota = Fraction(V, n + 1)
    elif quota_name == 'imperiali':
        quota = Fraction(V, n + 2)
    elif quota_name == 'hare_rounded':
        x = Fraction(V, n)
        quota = Fraction(math.floor(x) + (1 if x - math.floor(x) >= Fraction(1, 2) else 0))
    else:
        raise ValueError(quota_name)
    results = set()

    def spend(ballots, c):
        left = quota
        spent = Fraction(0)
        while left > 0:
            sup = [i for i, (b, w) in enumerate(ballots) if c in b and w > 0]
            if not sup:
                break
            top = max(ballots[i][0][c] for i in sup)
            grp = [i for i in sup if ballots[i][0][c] == top]
            size = sum(ballots[i][1] for i in grp)
            if size > left:
                f = (size - left) / size
                for i in grp:
                    ballots[i] = (ballots[i][0], ballots[i][1] * f)
                spent += left
                left = 0
            else:
                for i in sorted(grp, reverse=True):
                    del ballots[i]          # exhausted ballots leave the election
                spent += size
                left -= size
        return spent

    def run(ballots, elected, rem, spent_log):
        while rem > 0:
            sums = {}
            for b, w in ballots:
                for c, g in b.items():
                    sums[c] = sums.get(c, 0) + g * w
            if not sums:
                results.add((tuple(elected), 'short'))
                return
            top = max(sums.values())
            best = sorted(c for c, v in sums.items() if v == top)
            if len(best) == 1:
                c = best[0]
                s = spend(ballots, c)
                spent_log.append((c, s))
                ballots = [({x: g for x, g in b.items() if x != c}, w) for b, w in ballots]
                elected = elected + [c]
                rem -= 1
            elif rem >= len(best):
                orders = list(itertools.permutations(best)) if tie_orders else [tuple(best)]
                if len(orders) > 1:
                    for o in orders:
                        bl = [(dict(b), w) for b, w in ballots]
                        for c in o:
                            spend(bl, c)
                            bl = [({x: g for x, g in b.items() if x != c}, w) for b, w in bl]
                        run(bl, elected + [('set',) + tuple(best)], rem - len(best), list(spent_log))
                    return
                for c in orders[0]:
                    s = spend(ballots, c)
                    spent_log.append((c, s))
                    ballots = [({x: g for x, g in b.items() if x != c}, w) for b, w in ballots]
                elected = elected + [('set',) + tuple(best)]
                rem -= len(best)
            else:
                elected = elected + [('tie', tuple(best), rem)]
                rem = 0
        results.add((tuple(elected), 'full'))
        run.last_log = spent_log

    run([(dict(b), w) for b, w in prof], [], n, [])
    return results, quota, getattr(run, 'last_log', None)


# ------------------------------------------------------------------------------------------------
# the oracle: the property clauses, stated on the implementation's observable

def _is_err(obs, name=None):
    return isinstance(obs, dict) and 'err' in obs and (name is None or obs['err'] == name)


def _oracle_pav(prof, n, obs, pre=''):
    out = []
    arg, best = ref_pav(prof, n)
    if len(arg) != 1:
        if not _is_err(obs, 'NotImplementedError'):
            out.append((pre + 'pav_refusal_expected', f'{len(arg)} maximising committees, got {obs}'))
        return out
    if _is_err(obs):
        return [(pre + 'pav_unexpected_error', f"unique maximiser {sorted(arg[0])} but {obs['err']}")]
    if any(isinstance(x, dict) for x in obs) or len(set(obs)) != len(obs) or len(obs) != n:
        return [(pre + 'pav_shape', str(obs))]
    W = frozenset(obs)
    if pav_score(prof, W) != best:
        out.append((pre + 'pav_not_maximal', f'satisfaction {pav_score(prof, W)} < {best} of {sorted(arg[0])}'))
    drops = [pav_score(prof, W) - pav_score(prof, W - {c}) for c in obs]
    if any(a < b for a, b in zip(drops, drops[1:])):
        out.append((pre + 'pav_order', 'not in decreasing order of satisfaction drop'))
    bad = jr_violations(prof, W, n)
    if bad:
        out.append((pre + 'pav_jr', f'voters approving {bad} and nobody elected weigh at least V/n'))
    return out


def _check_canon(obs, winners, tie, places, pre, clause):
    """obs must elect exactly `winners` and, if tie is given, carry tie objects naming `tie`"""
    if _is_err(obs):
        return [(pre + clause + '_error', obs['err'])]
    cands, ties = canon_sel(obs)
    if sorted(winners) != cands:
        return [(pre + clause, f'expected winners {sorted(winners)}, got {obs}')]
    if tie is None:
        if ties:
            return [(pre + clause, f'unexpected tie in {obs}')]
    else:
        if not ties or any(list(t) != sorted(tie) for t in ties):
            return [(pre + clause, f'expected tie {sorted(tie)} in {obs}')]
    return []


def oracle(case, obs):
    op = case['op']
    if op == 'pav':
        return _oracle_pav(ref_profile_approval(case), case['n'], obs)
    if op == 'pav_seq':
        prof = ref_profile_approval(case)
        out = []
        for n, o in zip(case['calls'], obs):
            out += _oracle_pav(prof, n, o)
        seen = {}
        for n, o in zip(case['calls'], obs):
            if n in seen and seen[n] != o:
                out.append(('pav_history', f'n={n}: {seen[n]} then {o}'))
            seen.setdefault(n, o)
        return out
    if op == 'spav':
        prof = ref_profile_approval(case)
        kind, el = ref_spav(prof, case['n'])
        if kind == 'tie':
            return [] if _is_err(obs, 'NotImplementedError') else [('spav_refusal_expected', f'tie after {el}, got {obs}')]
        if obs != el:
            return [('spav_round_argmax', f'expected {el}, got {obs}')]
        return []
    if op == 'seq':
        out = []
        for r, o in zip(case['runs'], obs):
            sub = dict(r, _names=case.get('_names', 'k'))
            out += oracle(sub, o)
            fresh = impl(sub)
            same = (o == fresh) if (_is_err(o) or _is_err(fresh)) else (canon_sel(o) == canon_sel(fresh))
            if not same:
                out.append(('seq_history', f'same object: {o}, fresh object: {fresh}'))
        return out
    prof = ref_score_profile(case)
    if case.get('_gt') == 'dec' and (op == 'allocated' or case.get('function') == 'mean'):
        # Decimal grades with the exact mean / in allocated score are outside the property's quantifier (grades 0..5, ballot
        # counts): the TypeError these paths raise is an observation (counter `decimal_rejected`), not a violation
        if _is_err(obs, 'TypeError'):
            return []
    if op != 'allocated' and any(w.denominator != 1 for _, w in prof):
        # counts that are not integers: the aggregate is still defined (weighted mean / median)
        if _is_err(obs):
            return [('score_fraction_count', obs['err'])]
    if op in ('score_agg', 'score'):
        agg, _ = ref_aggregate(prof, case, case['function'])
        if any(v is None for v in agg.values()):
            return [] if _is_err(obs) else [('score_undefined_accepted', f'aggregate undefined, got {obs}')]
        if op == 'score_agg':
            want = sorted([c, num_str(v)] for c, v in agg.items())
            if _is_err(obs):
                return [('score_unexpected_error', obs['err'])]
            return [] if obs == want else [('score_aggregate', f'expected {want}, got {obs}')]
        if not agg:
            return []
        return check_nbest(agg, case['n'], obs, 'score_')
    if op == 'mj':
        r = ref_mj(prof, case)
        if r['kind'] == 'undefined':
            return [] if _is_err(obs) else [('mj_undefined_accepted', str(obs))]
        if r['kind'] == 'ok':
            return _check_canon(obs, r['winners'], None, 0, '', 'mj_winners')
        if r['kind'] == 'tie':
            return _check_canon(obs, r['winners'], r['tie'], r['places'], '', 'mj_plus')
        if r['kind'] == 'unbreakable':
            if _is_err(obs, 'VotingSystemError'):
                return []
            return _check_canon(obs, r['winners'], r['tie'], r['places'], '', 'mj_unbreakable')
        # unequal numbers of grades among the tied candidates: the documented rule is silent on what happens when
        # one candidate runs out of grades first; demand the undisputed part and a declared outcome
        if _is_err(obs):
            if obs['err'] in DECLARED:
                return []
            return [('mj_tiebreak_crash', obs['err'])]
        cands, ties = canon_sel(obs)
        if not r['winners'] <= set(cands) or not set(cands) <= r['winners'] | r['tie']:
            return [('mj_winners', f"sure {sorted(r['winners'])}, tied {sorted(r['tie'])}, got {obs}")]
        return []
    if op == 'star':
        agg, members, wins, (sure, level, places), boundary = ref_star(prof, case)
        if any(v is None for v in agg.values()):
            return [] if _is_err(obs) else [('star_undefined_accepted', str(obs))]
        if _is_err(obs):
            return [('star_unexpected_error', obs['err'])]
        cands, ties = canon_sel(obs)
        if cands == sorted(sure) and ((level is None and not ties) or
                                      (level is not None and len(ties) == places and
                                       all(list(t) == sorted(level) for t in ties))):
            return []
        _, d = pairwise_from_scores(prof, case)
        invisible = [m for m in members if all(d[m][x] == 0 and d[x][m] == 0 for x in members if x != m)]
        if len(members) < 2:
            clause = 'star_single_runoff'
        elif boundary:
            clause = 'star_boundary_tie'
        elif invisible and not set(invisible) & set(cands):
            clause = 'star_member_dropped'      # a run-off member nobody strictly prefers or disprefers to another member
        else:
            clause = 'star_runoff_pairwise'
        return [(clause, f'run-off {sorted(members)} path wins {wins}: expected {sorted(sure)} tie {level}, got {obs}')]
    if op == 'allocated':
        results, quota, _ = ref_allocated(prof, case['n'], case['quota'], tie_orders=True)
        canon = set()
        tie_places = {}
        for el, kind in results:
            ws, tie = [], None
            for e in el:
                if isinstance(e, tuple) and e[0] == 'set':
                    ws += list(e[1:])
                elif isinstance(e, tuple) and e[0] == 'tie':
                    tie = tuple(sorted(e[1]))
                    places = e[2]
                else:
                    ws.append(e)
            canon.add((tuple(sorted(ws)), tie))
            if tie is not None:
                tie_places[(tuple(sorted(ws)), tie)] = places
        # ballots exhausted before all seats were filled (no remaining ballot grades anybody): there is nothing left to spend,
        # the definition names no further winner; the library's declared refusal is the expected outcome
        exhausted = {kind for _, kind in results}
        if _is_err(obs):
            if obs['err'] == 'VotingSystemError' and 'short' in exhausted:
                return [('allocated_tie_order', 'exhaustion depends on the processing order of tied winners')] \
                    if 'full' in exhausted else []
            return [('allocated_crash_' + obs['err'], f'reference outcome(s) {sorted(canon, key=str)}')]
        if exhausted == {'short'}:
            return [('allocated_refusal_expected', f'ballots exhausted after {sorted(canon, key=str)}, got {obs}')]
        out = []
        cands, ties = canon_sel(obs)
        ok = any(list(ws) == cands and ((tie is None and not ties) or (tie is not None and ties and all(t == tie for t in ties)))
                 for ws, tie in canon)
        if not ok:
            out.append(('allocated_outcome', f'expected one of {sorted(canon, key=str)}, got {obs}'))
        elif ties and not any(list(ws) == cands and tie is not None and tie_places[(ws, tie)] == len(ties) for ws, tie in canon):
            out.append(('allocated_tie_places', f'the tie must be listed once per seat it contests: {obs}'))
        if len(canon) > 1:
            out.append(('allocated_tie_order', f'outcome depends on the processing order of tied winners: {sorted(canon, key=str)}'))
        return out
    return []


# ------------------------------------------------------------------------------------------------
# correspondence: canonical comparison of the implementation's observable with the model's answer

def _slot_key(x, keys):
    if isinstance(x, dict):
        return ('tie', tuple(sorted(x['tie'])))
    return ('val', Fraction(keys[x]))


def _cmp_keyed(iobs, mobs):
    """equal up to the order among entries with equal sort key (that order is the iteration order of a Python set of
    (candidate, grade) tuples, which the model does not fix)"""
    if _is_err(mobs) or _is_err(iobs):
        return None if iobs == mobs else f'impl={json.dumps(iobs)} model={json.dumps(mobs)}'
    if not isinstance(mobs, dict) or 'sel' not in mobs:
        return f'unexpected model answer {json.dumps(mobs)}'
    keys = {c: v for c, v in mobs['keys']}
    sel = mobs['sel']
    bad = f'impl={json.dumps(iobs)} model={json.dumps(mobs)}'
    if len(sel) != len(iobs):
        return bad
    i = 0
    while i < len(sel):
        k = _slot_key(sel[i], keys)
        j = i
        while j < len(sel) and _slot_key(sel[j], keys) == k:
            j += 1
        if sorted(json.dumps(canon(x), sort_keys=True) for x in sel[i:j]) != \
                sorted(json.dumps(canon(x), sort_keys=True) for x in iobs[i:j]):
            return bad
        i = j
    return None


def compare(case, iobs, mobs):
    op = case['op']
    if op in ('pav', 'score', 'star'):
        return _cmp_keyed(iobs, mobs)
    if op == 'pav_seq':
        if not isinstance(mobs, list) or len(mobs) != len(iobs):
            return f'impl={json.dumps(iobs)} model={json.dumps(mobs)}'
        for a, b in zip(iobs, mobs):
            r = _cmp_keyed(a, b)
            if r:
                return r
        return None
    if op == 'seq':
        if not isinstance(mobs, list) or len(mobs) != len(iobs):
            return f'impl={json.dumps(iobs)} model={json.dumps(mobs)}'
        for r, a, b in zip(case['runs'], iobs, mobs):
            d = compare(r, a, b)
            if d:
                return d
        return None
    if op == 'score_agg':
        m = mobs if _is_err(mobs) else sorted(mobs)
        return None if iobs == m else f'impl={json.dumps(iobs)} model={json.dumps(m)}'
    if op == 'mj':
        # the evaluator documents that it does not order the elected candidates: compare as multisets
        if _is_err(mobs) or _is_err(iobs):
            return None if iobs == mobs else f'impl={json.dumps(iobs)} model={json.dumps(mobs)}'
        a = sorted(json.dumps(canon(x), sort_keys=True) for x in iobs)
        b = sorted(json.dumps(canon(x), sort_keys=True) for x in mobs)
        return None if a == b else f'impl={json.dumps(iobs)} model={json.dumps(mobs)}'
    return None if canon(iobs) == canon(mobs) else f'impl={json.dumps(canon(iobs))} model={json.dumps(canon(mobs))}'


def model_line(case):
    c = strip_case(case)
    if c['op'] == 'seq':
        runs = [model_line(r) for r in c['runs']]
        if any(r is None for r in runs):
            return None
        return {'op': 'seq', 'runs': runs}
    if c['op'] not in ('pav', 'pav_seq', 'spav', 'allocated'):
        if any(isinstance(w, str) for _, w in c['votes']):
            return None                      # counts that are not Python ints: not modelled (the code raises TypeError)
    if case.get('_gt') == 'dec' and (c['op'] == 'allocated' or c.get('function') == 'mean'):
        return None                          # Decimal grades with the exact mean / in allocated score: the code raises TypeError
    return c


# ------------------------------------------------------------------------------------------------
# generator

def _appr_profile(rng, m, small=False):
    nb = rng.randint(1, 3 if small else 6)
    votes, seen = [], set()
    for _ in range(nb):
        b = tuple(sorted(rng.sample(range(m), rng.randint(1, m))))
        if b in seen:
            continue
        seen.add(b)
        r = rng.random()
        if r < 0.7:
            w = str(rng.randint(1, 4 if small else 9))
        elif r < 0.85:
            w = num_str(Fraction(rng.randint(1, 12), rng.choice([2, 3, 4])))
        else:
            w = str(10 ** rng.choice([6, 18, 30]) + rng.randint(0, 2))
        votes.append([list(b), w])
    return votes


def _score_profile(rng, m, grades=(0, 1, 2, 3, 4, 5), maxw=4, nbmax=5):
    nb = rng.randint(1, nbmax)
    votes, seen = [], set()
    full = rng.random() < 0.4
    for _ in range(nb):
        k = m if (full or rng.random() < 0.4) else rng.randint(1, m)
        cs = sorted(rng.sample(range(m), k))
        b = tuple((c, str(rng.choice(grades))) for c in cs)
        if b in seen:
            continue
        seen.add(b)
        votes.append([[list(x) for x in b], rng.randint(1, maxw)])
    return votes


def _agg_settings(rng, plain=False):
    if plain:
        return {'unscored': None, 'min_count': 0, 'truncation': '0', 'bottom': '0'}
    return {'unscored': rng.choice([None, None, '0', 'min']), 'min_count': rng.choice([0, 0, 0, 2, 3, 5]),
            'truncation': rng.choice(['0', '0', '0', '1', '2', '1/4', '1/3', '1/10']),
            'bottom': rng.choice(['0', '0', '0', '1', '-1'])}


FUNCTIONS = ['mean', 'sum', 'median_low']


def _score_case(rng, op, m=None, **kw):
    m = m or rng.randint(2, 5)
    grades = rng.choice([(0, 1, 2, 3, 4, 5), (0, 1, 2, 3, 4, 5), (0, 1, 2), (3, 4), (0, 5)])
    c = {'op': op, 'votes': _score_profile(rng, m, grades=grades), 'n': rng.randint(1, m)}
    c.update(_agg_settings(rng, plain=rng.random() < 0.35))
    if op in ('score_agg', 'score'):
        c['function'] = rng.choice(FUNCTIONS)
    if op == 'mj':
        c['tie_breaking'] = rng.choice(['default', 'default', 'plus'])
    if op == 'star':
        if c['unscored'] == 'min':
            c['unscored'] = rng.choice([None, '0'])
        c['added_count'] = rng.choice([0, 1, 1, 1, 2])
        c['added_fraction'] = rng.choice(['0', '0', '1/2', '1'])
    if op == 'allocated':
        for k in ('unscored', 'min_count', 'truncation', 'bottom'):
            c.pop(k)
        c['quota'] = rng.choice(['droop', 'hare'])
        ncand = len({x[0] for b, _ in c['votes'] for x in b})
        c['n'] = rng.randint(1, max(1, ncand))
    c.update(kw)
    return c



# -- numeric kinds (checklist items 1, 2, 7)

GRADE_POOLS = {
    'frac': ['0', '1/3', '1/2', '3/2', '2', '5/2', '4'],
    'dec': ['0', '1/2', '3/2', '2', '5/2', '4', '12345679/10000000'],     # incl. a grade with 7 decimals
    'float': ['0', '1/2', '3/2', '2', '5/2', '4', '1/4'],                  # dyadic floats only: exact
}


def _typed_case(rng, op):
    """a score-family case whose grades and parameters are Fraction / Decimal / float objects (where the evaluator accepts them)"""
    gt = rng.choice(['frac', 'dec', 'float'] if op != 'allocated' else ['frac'])
    if op == 'score_agg' and gt == 'float':
        gt = 'dec'                                   # float aggregates are floats: nothing exact to compare
    m = rng.randint(2, 5)
    c = {'op': op, 'votes': _score_profile(rng, m, grades=GRADE_POOLS[gt]), 'n': rng.randint(1, m), '_gt': gt}
    if op == 'allocated':
        c['quota'] = rng.choice(['droop', 'hare'])
        ncand = len({x[0] for b, _ in c['votes'] for x in b})
        c['n'] = rng.randint(1, max(1, ncand))
        return c
    fn = None
    if op in ('score_agg', 'score'):
        fn = rng.choice(FUNCTIONS if gt == 'frac' else ['sum', 'median_low'])
        c['function'] = fn
    # one number family per case: Decimal does not mix with Fraction or float in Python, and the exact mean takes
    # int / Fraction only (see the open finding)
    kinds = ['int', gt] if fn != 'mean' else ['int', 'frac']
    c['unscored'] = rng.choice([None, '0', '0', '-1', '1/2', 'min'])
    c['_ut'] = rng.choice(kinds)
    c['min_count'] = rng.choice([0, 0, 2, 3])
    c['bottom'] = rng.choice(['0', '3/2', '-1', '0'])
    c['_bt'] = rng.choice(kinds)
    t = rng.choice(['0', '0', '1', '2', '1/4', '1/3', '17/50'])
    c['truncation'] = t
    c['_tt'] = 'int' if Fraction(t) >= 1 or t == '0' else rng.choice(['frac', 'dec', 'float'] if t == '1/4' else (['frac', 'dec'] if t != '1/3' else ['frac']))
    if op == 'mj':
        c['tie_breaking'] = rng.choice(['default', 'plus'])
    if op == 'star':
        if c['unscored'] == 'min':
            c['unscored'] = '1/2'
        c['added_count'] = rng.choice([0, 1, 1, 2])
        f = rng.choice(['0', '1/2', '1', '7/10'])
        c['added_fraction'] = f
        c['_ft'] = rng.choice(['frac', 'dec', 'float'] if f == '1/2' else ['frac', 'dec'])
        c['_re'] = rng.choice(['name', 'obj'])
    for key, kk in (('unscored', '_ut'), ('bottom', '_bt')):
        if c[key] not in (None, 'min') and Fraction(c[key]).denominator != 1 and c[kk] == 'int':
            c[kk] = kinds[1]
    return c


BIG = [10 ** 9, 2 ** 53, 10 ** 18, 10 ** 30]
ALLOC_QUOTAS = ['droop', 'hare', 'hagenbach_bischoff', 'imperiali', 'hare_rounded']


def _alloc_case(rng):
    """allocated score with every quota function (by name and as a callable), Fraction counts, and counts at large
    magnitudes with exact ties and one-vote differences"""
    m = rng.randint(2, 4)
    votes = _score_profile(rng, m, grades=rng.choice([(0, 1, 2, 3, 4, 5), (0, 1, 2), (1, 5)]), nbmax=4)
    kind = rng.choice(['plain', 'big', 'big', 'fraction'])
    if kind == 'big':
        M = rng.choice(BIG)
        votes = [[b, str(w * M + rng.choice([0, 0, 1, -1]))] for b, w in votes]
    elif kind == 'fraction':
        votes = [[b, num_str(Fraction(w * rng.choice([1, 3, 5]), rng.choice([1, 2, 3, 4])))] for b, w in votes]
    ncand = len({x[0] for b, _ in votes for x in b})
    c = {'op': 'allocated', 'votes': votes, 'n': rng.randint(1, max(1, ncand)), 'quota': rng.choice(ALLOC_QUOTAS)}
    if rng.random() < 0.3:
        c['_qc'] = True
    return c


def _appr_big_case(rng, op):
    """approval profile at magnitude M with exact ties and one-vote races (also for later seats)"""
    m = rng.randint(3, 5)
    M = rng.choice(BIG[1:])
    votes, seen = [], set()
    for _ in range(rng.randint(2, 5)):
        b = tuple(sorted(rng.sample(range(m), rng.randint(1, 2))))
        if b in seen:
            continue
        seen.add(b)
        votes.append([list(b), str(rng.randint(1, 3) * M + rng.choice([0, 0, 0, 1, -1]))])
    return {'op': op, 'votes': votes, 'n': rng.randint(2, m)}


def _mj_shared_median_case(rng, complete):
    """4-5 candidates sharing the median grade, 3+ seats, weights up to 30"""
    m = rng.randint(4, 5)
    g = rng.choice([2, 3])
    votes, seen = [], set()
    heavy = tuple((c, str(g)) for c in range(m))
    votes.append([[list(x) for x in heavy], rng.randint(12, 30)])
    seen.add(heavy)
    for _ in range(rng.randint(2, 4)):
        cs = list(range(m)) if complete else sorted(rng.sample(range(m), rng.randint(2, m)))
        b = tuple((c, str(rng.choice([g - 2, g - 1, g, g + 1, g + 2]))) for c in cs)
        if b not in seen:
            seen.add(b)
            votes.append([[list(x) for x in b], rng.randint(1, 9)])
    return {'op': 'mj', 'votes': votes, 'n': rng.randint(3, m - 1) if m > 4 else 3,
            'tie_breaking': rng.choice(['default', 'default', 'plus']), 'unscored': None if complete else rng.choice([None, '0']),
            'min_count': 0, 'truncation': '0', 'bottom': '0'}


def _seq_case(rng):
    """one evaluator object called two or three times with different profiles / seat numbers"""
    op = rng.choice(['spav', 'score', 'mj', 'star', 'allocated'])
    if op == 'spav':
        runs = []
        for _ in range(rng.randint(2, 3)):
            m = rng.randint(2, 5)
            runs.append({'op': 'spav', 'votes': _appr_profile(rng, m, small=True), 'n': rng.randint(1, m)})
    else:
        base = _score_case(rng, op)
        runs = [base]
        for _ in range(rng.randint(1, 2)):
            m = rng.randint(2, 5)
            r = dict(base)
            r['votes'] = _score_profile(rng, m)
            ncand = len({x[0] for b, _ in r['votes'] for x in b})
            r['n'] = rng.randint(1, max(1, ncand))
            runs.append(r)
        if rng.random() < 0.5:
            runs.sort(key=lambda r: -sum(len(b) for b, _ in r['votes']))      # larger first, then smaller
    return {'op': 'seq', 'runs': runs, '_decoy': rng.random() < 0.5}



def _crossed_case(rng, op, tb=None, trunc_kind=None):
    """truncation (count or fraction) x binding min_count x non-zero bottom_value x unscored_value x partial ballots, all at once"""
    m = rng.randint(3, 5)
    grades = rng.choice([(1, 2, 2, 3), (0, 1, 2, 3, 4, 5), (2, 3, 4)])
    votes, seen = [], set()
    for i in range(rng.randint(4, 6)):
        k = rng.randint(1, m - 1) if i == 0 else rng.randint(1, m)
        cs = sorted(rng.sample(range(m), k))
        b = tuple((c, str(rng.choice(grades))) for c in cs)
        if b in seen:
            continue
        seen.add(b)
        votes.append([[list(x) for x in b], rng.randint(1, 4)])
    given = {}
    for b, w in votes:
        for c, _ in b:
            given[c] = given.get(c, 0) + w
    c = {'op': op, 'votes': votes, 'n': rng.randint(1, len(given))}
    trunc_kind = trunc_kind or rng.choice(['count', 'frac'])
    c['truncation'] = rng.choice(['1', '1', '2']) if trunc_kind == 'count' else rng.choice(['1/10', '1/5', '1/4', '1/3'])
    c['min_count'] = min(given.values()) + rng.choice([1, 1, 2])
    c['bottom'] = rng.choice(['1', '-1', '2'])
    c['unscored'] = rng.choice(['0', '1', 'min'] if op != 'star' else ['0', '1'])
    if op in ('score', 'score_agg'):
        c['function'] = rng.choice(FUNCTIONS)
    if op == 'mj':
        c['tie_breaking'] = tb or rng.choice(['default', 'plus'])
    if op == 'star':
        c['added_count'] = rng.choice([1, 1, 2])
        c['added_fraction'] = rng.choice(['0', '1/2'])
    return c


def _crossed_seq(rng, op, tb=None):
    base = _crossed_case(rng, op, tb)
    runs = [base]
    for _ in range(rng.randint(1, 2)):
        r = _crossed_case(rng, op, tb)
        for k in ('truncation', 'min_count', 'bottom', 'unscored', 'function', 'tie_breaking', 'added_count', 'added_fraction'):
            if k in base:
                r[k] = base[k]
        runs.append(r)
    return {'op': 'seq', 'runs': runs, '_decoy': rng.random() < 0.5}



def _mj_removal_steps(ms_by_cand, k):
    """number of one-grade-at-a-time removal rounds the default tie-break needs (None: a candidate runs out first)"""
    ms = {c: dict(m) for c, m in ms_by_cand.items()}
    steps = 0
    while True:
        if not ms or k <= 0:
            return steps
        sizes = {c: sum(m.values()) for c, m in ms.items()}
        if any(s == 0 for s in sizes.values()):
            return None
        med = {c: lower_median(m) for c, m in ms.items()}
        sure, level, places = nbest_ref(med, k)
        if level is None:
            return steps
        if sure:
            k -= len(sure)
            ms = {c: m for c, m in ms.items() if c not in sure}
            continue
        for c, m in ms.items():
            m[med[c]] -= 1
        steps += 1


def _mj_unequal_case(rng):
    """3-5 candidates sharing the median while holding DIFFERENT numbers of grades (partial ballots, no unscored value), narrow
    grade band, weights 1-3, kept only if the one-grade-at-a-time rule needs at least two removal rounds (seeded change C12j:
    a removal step computed from another candidate's number of grades)"""
    best = None
    for _attempt in range(400):
        m = rng.randint(3, 5)
        votes, seen = [], set()
        for _ in range(rng.randint(3, 6)):
            cs = sorted(rng.sample(range(m), rng.randint(1, m - 1) if rng.random() < 0.8 else m))
            b = tuple((c, str(rng.choice([0, 1, 1, 2, 2, 3]))) for c in cs)
            if b not in seen:
                seen.add(b)
                votes.append([[list(x) for x in b], rng.randint(1, 3)])
        c = {'op': 'mj', 'votes': votes, 'n': rng.randint(1, 2), 'tie_breaking': 'default', 'unscored': None,
             'min_count': 0, 'truncation': '0', 'bottom': '0'}
        prof = ref_score_profile(c)
        agg, corr = ref_aggregate(prof, c, 'median_low')
        if not agg or any(v is None for v in agg.values()):
            continue
        sure, level, places = nbest_ref(agg, c['n'])
        if level is None or len(level) < 3:
            continue
        tied = {x: corr[x] for x in level}
        if len({sum(mm.values()) for mm in tied.values()}) < 2:
            continue
        steps = _mj_removal_steps(tied, places)
        if steps is None or steps < 2:
            best = best or c
            continue
        return c
    return best or c


# -- blank ballots (seeded change C12o: blank score ballots dropped from the number of voters)

def _without_blank(case):
    return dict(case, votes=[[b, w] for b, w in case['votes'] if b])


def _add_blank(rng, votes, maxw=5):
    """insert one ballot that names nobody (frozenset()) at a random position"""
    votes = [v for v in votes if v[0]]
    w = rng.randint(1, maxw)
    if votes and isinstance(votes[0][1], str):
        w = str(w)
    votes.insert(rng.randint(0, len(votes)), [[], w])
    return votes


BLANK_MECHS = ['unscored', 'truncation', 'mixed']


def _blank_case(rng, op, mech):
    """a score-family profile with a blank ballot (a voter who scores nobody) that counts: searched (with the reference) so that
    dropping the blank ballots changes the outcome of the definition -- through the number of substituted unscored values
    (mech unscored), the fractional truncation cutoff int(n_ballots * truncation) (mech truncation), the allocated-score quota
    (op allocated), or any mixture of the corrections (mech mixed)"""
    c = None
    for _attempt in range(40 if op != 'star' else 200):
        c = _score_case(rng, op, m=rng.randint(2, 4))
        if op != 'allocated':
            if mech == 'unscored' and op == 'star':
                # STAR sums: a substituted value from a blank ballot shifts every candidate alike; it counts through the truncation
                c.update(unscored=rng.choice(['0', '1']), truncation=rng.choice(['1/10', '1/5', '1/4', '1/3']), min_count=0, bottom='0')
            elif mech == 'unscored':
                c.update(unscored=rng.choice(['0', '1', 'min']), truncation='0', min_count=0, bottom='0')
                if op in ('score', 'score_agg'):
                    c['function'] = rng.choice(['median_low', 'median_low', 'mean', 'sum'])
            elif mech == 'truncation':
                c.update(unscored=None, truncation=rng.choice(['1/10', '1/5', '1/4', '1/3']), min_count=0, bottom='0')
            else:
                c.update(_agg_settings(rng))
                if op == 'star' and c['unscored'] == 'min':
                    c['unscored'] = '0'
        c['votes'] = _add_blank(rng, c['votes'])
        try:
            if _ref_outcome(c) != _ref_outcome(_without_blank(c)):
                break
        except Exception:      # noqa
            continue
    return c


def _blank_typed_case(rng, op):
    c = _typed_case(rng, op)
    c['votes'] = _add_blank(rng, c['votes'])
    return c


def _blank_appr_case(rng, op):
    """an approval profile with a ballot approving nobody: no satisfaction to gain from it, but it is a voter (the justified-
    representation quota V/n counts it)"""
    m = rng.randint(2, 5)
    votes = _add_blank(rng, _appr_profile(rng, m, small=rng.random() < 0.6), maxw=9)
    if op == 'pav_seq':
        a, b = rng.randint(1, m), rng.randint(2, m)
        return {'op': op, 'votes': votes, 'calls': [a, b, a]}
    return {'op': op, 'votes': votes, 'n': rng.randint(1, m)}



DIRECTED = [
    # PAV: the witness of fix c5ab27b (one seat on a fresh instance), a tie, call sequences around a two-seat call
    {'op': 'pav', 'votes': [[[0, 1], '3'], [[2], '2']], 'n': 1},
    {'op': 'pav', 'votes': [[[0], '1'], [[1], '1']], 'n': 1},
    {'op': 'pav', 'votes': [[[0, 1], '5'], [[0, 2], '4'], [[3], '3'], [[1, 2, 3], '1']], 'n': 2},
    {'op': 'pav_seq', 'votes': [[[0, 1], '3'], [[2], '2'], [[1, 2], '1']], 'calls': [1, 2, 1]},
    {'op': 'pav_seq', 'votes': [[[0, 1], '5'], [[0, 2], '4'], [[3], '3'], [[1, 2, 3], '1']], 'calls': [1, 3, 1, 2, 4]},
    # SPAV: a plain sequence and a tie
    {'op': 'spav', 'votes': [[[0, 1], '5'], [[0, 2], '4'], [[3], '3']], 'n': 3},
    {'op': 'spav', 'votes': [[[0], '2'], [[1], '2']], 'n': 1},
    # score settings
    {'op': 'score', 'votes': [[[[0, '5'], [1, '2']], 1], [[[1, '3']], 2]], 'n': 1, 'function': 'mean', 'unscored': '0',
     'min_count': 0, 'truncation': '0', 'bottom': '0'},
    {'op': 'score_agg', 'votes': [[[[0, '5'], [1, '2']], 1], [[[1, '3']], 2]], 'function': 'sum', 'unscored': 'min',
     'min_count': 2, 'truncation': '0', 'bottom': '1', 'n': 1},
    {'op': 'score_agg', 'votes': [[[[0, '5'], [1, '2']], 3], [[[1, '3'], [0, '1']], 2], [[[1, '0'], [0, '4']], 4]],
     'function': 'median_low', 'unscored': None, 'min_count': 0, 'truncation': '1/4', 'bottom': '0', 'n': 1},
    {'op': 'score', 'votes': [[[[0, '3'], [1, '3'], [2, '1']], 2]], 'n': 1, 'function': 'mean', 'unscored': None,
     'min_count': 0, 'truncation': '0', 'bottom': '0'},
    # MJ: equal medians separated by the default rule, by the plus rule, and an unbreakable tie
    {'op': 'mj', 'votes': [[[[0, '3'], [1, '3']], 2], [[[0, '5'], [1, '1']], 1], [[[0, '0'], [1, '4']], 1]], 'n': 1,
     'tie_breaking': 'default', 'unscored': None, 'min_count': 0, 'truncation': '0', 'bottom': '0'},
    {'op': 'mj', 'votes': [[[[0, '3'], [1, '3']], 2], [[[0, '5'], [1, '1']], 1], [[[0, '0'], [1, '4']], 1]], 'n': 1,
     'tie_breaking': 'plus', 'unscored': None, 'min_count': 0, 'truncation': '0', 'bottom': '0'},
    {'op': 'mj', 'votes': [[[[0, '3'], [1, '3']], 2]], 'n': 1,
     'tie_breaking': 'default', 'unscored': None, 'min_count': 0, 'truncation': '0', 'bottom': '0'},
    # STAR: the ordinary single-winner run-off where the score leader loses the run-off
    {'op': 'star', 'votes': [[[[0, '5'], [1, '0'], [2, '0']], 2], [[[0, '1'], [1, '2'], [2, '0']], 3]], 'n': 1,
     'added_count': 1, 'added_fraction': '0', 'unscored': None, 'min_count': 0, 'truncation': '0', 'bottom': '0'},
    # counts that are not Python ints (open finding: the aggregation expands one list element per vote)
    {'op': 'score', 'votes': [[[[0, '5'], [1, '2']], '1/2'], [[[0, '1'], [1, '3']], '3/2']], 'n': 1, 'function': 'mean',
     'unscored': None, 'min_count': 0, 'truncation': '0', 'bottom': '0'},
    # Decimal grades with the exact mean / in allocated score: rejected with TypeError (observation only, outside the quantifier)
    {'op': 'score', 'votes': [[[[0, '3/2'], [1, '2']], 2], [[[0, '1/4']], 1]], 'n': 1, 'function': 'mean', '_gt': 'dec',
     'unscored': None, 'min_count': 0, 'truncation': '0', 'bottom': '0'},
    {'op': 'allocated', 'votes': [[[[0, '11/2'], [1, '2']], 3], [[[0, '1'], [1, '9/2']], 2]], 'n': 2, 'quota': 'hare', '_gt': 'dec'},
    # weights beyond 2^53: a one-vote race and an exact tie for the SECOND seat (after a reweighting by 1/2)
    {'op': 'spav', 'votes': [[[0, 1], str(2 * 2 ** 53)], [[0], str(2 * 2 ** 53)], [[2], str(2 ** 53 + 1)]], 'n': 2},
    {'op': 'spav', 'votes': [[[0, 1], str(2 * 10 ** 30)], [[0], str(2 * 10 ** 30)], [[2], str(10 ** 30)]], 'n': 2},
    {'op': 'pav', 'votes': [[[0, 1], str(2 * 10 ** 18)], [[0], str(2 * 10 ** 18)], [[2], str(10 ** 18 + 1)], [[3], '5']], 'n': 2},
    {'op': 'pav', 'votes': [[[0, 1], str(2 * 10 ** 18)], [[0], str(2 * 10 ** 18)], [[2], str(10 ** 18)], [[3], '5']], 'n': 2},
    # 4 candidates sharing the median for 3 seats, complete and partial ballots
    {'op': 'mj', 'votes': [[[[0, '3'], [1, '3'], [2, '3'], [3, '3']], 10], [[[0, '5'], [1, '1'], [2, '4'], [3, '2']], 7],
                           [[[0, '1'], [1, '5'], [2, '2'], [3, '4']], 6]], 'n': 3, 'tie_breaking': 'default',
     'unscored': None, 'min_count': 0, 'truncation': '0', 'bottom': '0'},
    {'op': 'mj', 'votes': [[[[0, '3'], [1, '3'], [2, '3'], [3, '3']], 10], [[[0, '5'], [1, '1'], [3, '2']], 7],
                           [[[0, '1'], [1, '5'], [2, '2']], 6]], 'n': 3, 'tie_breaking': 'plus',
     'unscored': None, 'min_count': 0, 'truncation': '0', 'bottom': '0'},
    # three candidates tied on the median with different numbers of grades; the rightful winner pulls ahead only after
    # several single removals (the demo of seeded change C12j and a variant)
    {'op': 'mj', 'votes': [[[[0, '1'], [1, '1']], 3], [[[0, '1'], [2, '2']], 1], [[[0, '3'], [2, '1']], 1], [[[0, '0'], [1, '3']], 2]],
     'n': 1, 'tie_breaking': 'default', 'unscored': None, 'min_count': 0, 'truncation': '0', 'bottom': '0'},
    # one object, several calls: after an exception, and a larger profile before a smaller one
    {'op': 'seq', '_decoy': True, '_tags': ['seq_after_error'], 'runs': [
        {'op': 'allocated', 'votes': [[[[0, '5']], 2], [[[1, '3']], 1]], 'n': 2, 'quota': 'hare'},
        {'op': 'allocated', 'votes': [[[[0, '5'], [1, '2'], [2, '1']], 2], [[[1, '3'], [0, '1'], [2, '0']], 2]], 'n': 3, 'quota': 'hare'}]},
    {'op': 'seq', '_decoy': False, '_tags': ['seq_after_error'], 'runs': [
        {'op': 'score', 'votes': [[[[0, '5'], [1, '2']], 1]], 'n': 1, 'function': 'mean', 'unscored': None, 'min_count': 0,
         'truncation': '2', 'bottom': '0'},
        {'op': 'score', 'votes': [[[[0, '5'], [1, '2']], 3], [[[0, '1'], [1, '3']], 3], [[[0, '2'], [1, '2']], 2]], 'n': 1,
         'function': 'mean', 'unscored': None, 'min_count': 0, 'truncation': '2', 'bottom': '0'}]},
    # allocated score at magnitude 2^53 / 10^30: after the first seat's (fractional) spending the second seat is a one-vote race
    {'op': 'allocated', '_tags': ['allocated_big_later_race'], 'quota': 'hare', 'n': 2, 'votes': [
        [[[0, '5'], [1, '1'], [2, '1']], str(2 * 2 ** 53)], [[[0, '0'], [1, '2'], [2, '0']], str(2 ** 53 + 1)],
        [[[0, '0'], [1, '0'], [2, '2']], str(2 ** 53)]]},
    {'op': 'allocated', '_tags': ['allocated_big_later_race'], 'quota': 'hare', 'n': 2, 'votes': [
        [[[0, '5'], [1, '1'], [2, '1']], str(2 * 10 ** 30)], [[[0, '0'], [1, '2'], [2, '0']], str(10 ** 30)],
        [[[0, '0'], [1, '0'], [2, '2']], str(10 ** 30 + 1)]]},
    {'op': 'allocated', '_tags': ['allocated_big_later_race'], 'quota': 'droop', 'n': 2, 'votes': [
        [[[0, '5'], [1, '1'], [2, '1']], str(2 * 2 ** 53)], [[[0, '0'], [1, '1'], [2, '0']], str(2 ** 53 + 1)],
        [[[0, '0'], [1, '0'], [2, '1']], str(2 ** 53)]]},
    # allocated score: enough supporters for every quota
    {'op': 'allocated', 'votes': [[[[0, '5'], [1, '2'], [2, '1']], 2], [[[1, '3'], [0, '1'], [2, '0']], 2]], 'n': 3, 'quota': 'hare'},
    {'op': 'allocated', 'votes': [[[[0, '5'], [1, '2']], 4], [[[1, '5'], [0, '1']], 3], [[[2, '4'], [0, '1'], [1, '1']], 3]], 'n': 2, 'quota': 'droop'},
    # blank ballots (a voter scoring nobody) that decide the outcome: through the number of substituted unscored values and
    # through the fractional truncation cutoff (the demo profiles of seeded change C12o)
    {'op': 'score', 'votes': [[[[0, '5'], [1, '2']], 2], [[[0, '4']], 1], [[[1, '3']], 2], [[], 2]], 'n': 1, 'function': 'median_low',
     'unscored': '0', 'min_count': 0, 'truncation': '0', 'bottom': '0'},
    {'op': 'mj', 'votes': [[[[0, '5'], [1, '2']], 2], [[[0, '4']], 1], [[[1, '3']], 2], [[], 2]], 'n': 1, 'tie_breaking': 'default',
     'unscored': '0', 'min_count': 0, 'truncation': '0', 'bottom': '0'},
    {'op': 'score', 'votes': [[[[0, '5'], [1, '2']], 2], [[[0, '0'], [1, '2']], 1], [[], 3]], 'n': 1, 'function': 'mean',
     'unscored': 'min', 'min_count': 0, 'truncation': '0', 'bottom': '0'},
    {'op': 'score', 'votes': [[[[0, '0'], [1, '3']], 2], [[[0, '4'], [1, '3']], 1], [[[0, '4'], [1, '4']], 2], [[[0, '5'], [1, '4']], 2],
                              [[], 1]], 'n': 1, 'function': 'mean', 'unscored': None, 'min_count': 0, 'truncation': '1/4', 'bottom': '0'},
    {'op': 'star', 'votes': [[[[0, '2'], [1, '2'], [2, '2'], [3, '0']], 2], [[[0, '1'], [1, '0'], [2, '2'], [3, '2']], 4],
                             [[[0, '0'], [1, '2'], [2, '0'], [3, '1']], 3], [[], 4]], 'n': 1, 'unscored': None, 'min_count': 0,
     'truncation': '1/4', 'bottom': '0', 'added_count': 1, 'added_fraction': '0'},
]


def _raw_generate(rng, tier):
    q = tier == 'quick'
    for c in DIRECTED:
        c = json.loads(json.dumps(c))
        c['_tags'] = ['directed'] + c.get('_tags', [])
        yield c
    for _ in range(800 if q else 20000):
        m = rng.randint(2, 6)
        yield {'op': 'pav', 'votes': _appr_profile(rng, m, small=rng.random() < 0.4), 'n': rng.randint(1, m), '_tags': []}
    for _ in range(250 if q else 6000):
        m = rng.randint(2, 5)
        a, b = rng.randint(1, m), rng.randint(2, m)
        calls = [a, b, a] + [rng.randint(1, m) for _ in range(rng.randint(0, 2))]
        yield {'op': 'pav_seq', 'votes': _appr_profile(rng, m, small=rng.random() < 0.4), 'calls': calls, '_tags': []}
    for _ in range(800 if q else 20000):
        m = rng.randint(2, 6)
        yield {'op': 'spav', 'votes': _appr_profile(rng, m, small=rng.random() < 0.5), 'n': rng.randint(1, m), '_tags': []}
    for op, k in (('score_agg', 700), ('score', 700), ('mj', 1000), ('star', 800), ('allocated', 800)):
        for _ in range(k if q else k * 15):
            c = _score_case(rng, op)
            c['_tags'] = []
            yield c
    # numeric kinds, magnitudes, constructor parameters, structure sizes, repeated calls (generator checklist)
    for op, k in (('score_agg', 150), ('score', 250), ('mj', 250), ('star', 250), ('allocated', 100)):
        for _ in range(k if q else k * 8):
            c = _typed_case(rng, op)
            c['_tags'] = ['typed']
            yield c
    for _ in range(400 if q else 4000):
        c = _alloc_case(rng)
        c['_tags'] = []
        yield c
    for op in ('pav', 'spav'):
        for _ in range(500 if q else 3000):
            c = _appr_big_case(rng, op)
            c['_tags'] = []
            yield c
    # run-off sizes that matter: search (with the reference) for profiles on which the parameter changes the outcome
    for param, values, default in (('added_count', [0, 2], 1), ('added_fraction', ['1/2', '1'], '0')):
        for _ in range(40 if q else 300):
            for _attempt in range(25):
                c = _score_case(rng, 'star', m=rng.randint(3, 5))
                c.update(_agg_settings(rng, plain=True))
                c['added_count'], c['added_fraction'] = 1, '0'
                c[param] = rng.choice(values)
                c['_ft'] = rng.choice(['frac', 'dec', 'float'] if c['added_fraction'] == '1/2' else ['frac', 'dec'])
                try:
                    if _ref_outcome(c) != _ref_outcome(dict(c, **{param: default})):
                        break
                except Exception:      # noqa
                    continue
            c['_tags'] = ['star_sens_search']
            yield c
    # every correction at once, also on shared long-lived instances (seeded changes C12i / C18i)
    for op, tb in (('score', None), ('score_agg', None), ('mj', 'default'), ('mj', 'plus'), ('star', None)):
        for tk in ('count', 'frac'):
            for _ in range(45 if q else 500):
                c = _crossed_case(rng, op, tb, tk)
                c['_tags'] = ['crossed']
                yield c
        if op != 'score_agg':
            for _ in range(40 if q else 400):
                c = _crossed_seq(rng, op, tb)
                c['_tags'] = ['crossed']
                yield c
    for _ in range(400 if q else 4000):
        c = _mj_unequal_case(rng)
        c['_tags'] = ['mj_unequal_search']
        yield c
    for complete in (True, False):
        for _ in range(150 if q else 2000):
            c = _mj_shared_median_case(rng, complete)
            c['_tags'] = ['mj_shared']
            yield c
    for _ in range(300 if q else 3000):
        c = _seq_case(rng)
        c['_tags'] = []
        yield c
    # directed random: majority-judgment ties (few grades, full ballots), equal-size and unequal-size
    for _ in range(6000 if q else 25000):
        m = rng.randint(2, 5)
        full = rng.random() < 0.6
        gr = rng.choice([[1, 2, 2, 3], [0, 1, 2], [1, 2], [0, 1, 2, 3, 4, 5]])
        votes, seen = [], set()
        for _ in range(rng.randint(2, 5)):
            cs = list(range(m)) if full or rng.random() < 0.5 else sorted(rng.sample(range(m), rng.randint(1, m)))
            b = tuple((c, str(rng.choice(gr))) for c in cs)
            if b not in seen:
                seen.add(b)
                votes.append([[list(x) for x in b], rng.randint(1, 4)])
        yield {'op': 'mj', 'votes': votes, 'n': rng.randint(1, m), 'tie_breaking': rng.choice(['default', 'default', 'plus']),
               'unscored': rng.choice([None, None, '0']), 'min_count': 0, 'truncation': '0', 'bottom': '0', '_tags': ['mj_directed']}
    # blank ballots: a voter who scores / approves nobody still is a voter (seeded change C12o)
    for op in ('score_agg', 'score', 'mj', 'star'):
        for mech in BLANK_MECHS:
            for _ in range(40 if q else 600):
                c = _blank_case(rng, op, mech)
                c['_tags'] = ['blank_' + mech]
                yield c
    for _ in range(80 if q else 1200):
        c = _blank_case(rng, 'allocated', 'quota')
        c['_tags'] = ['blank_quota']
        yield c
    for op in ('score', 'mj', 'star'):
        for _ in range(25 if q else 300):
            c = _blank_typed_case(rng, op)
            c['_tags'] = ['typed', 'blank_typed']
            yield c
    for op in ('pav', 'spav', 'pav_seq'):
        for _ in range(60 if q else 1000):
            c = _blank_appr_case(rng, op)
            c['_tags'] = []
            yield c
    if not q:
        # small-scope exhaustive: every approval profile over 3 candidates with at most 2 distinct ballots, weights 1..2
        for m, kmax in ((3, 3), (4, 2)):
            subsets = [list(s) for r in range(1, m + 1) for s in itertools.combinations(range(m), r)]
            for k in range(1, kmax + 1):
                for bs in itertools.combinations(subsets, k):
                    for ws in itertools.product([1, 2], repeat=k):
                        votes = [[b, str(w)] for b, w in zip(bs, ws)]
                        for n in range(1, m + 1):
                            yield {'op': 'pav', 'votes': votes, 'n': n, '_tags': ['exhaustive']}
                            yield {'op': 'spav', 'votes': votes, 'n': n, '_tags': ['exhaustive']}
        # every score profile over 2 (3) candidates with at most 2 distinct full/partial ballots, grades {0,1,2}, counts 1..2
        for m, weights in ((2, [(1,), (2,), (1, 1), (1, 2), (2, 1), (2, 2)]), (3, [(1,), (1, 1), (2, 1)])):
            ballots = []
            for gs in itertools.product((None, 0, 1, 2), repeat=m):
                b = [[c, str(g)] for c, g in enumerate(gs) if g is not None]
                if b:
                    ballots.append(b)
            for k in (1, 2):
                for bs in itertools.combinations(ballots, k):
                    for ws in weights:
                        if len(ws) != k:
                            continue
                        votes = [[b, w] for b, w in zip(bs, ws)]
                        for n in range(1, m + 1):
                            base = {'votes': votes, 'n': n, 'unscored': None, 'min_count': 0, 'truncation': '0', 'bottom': '0'}
                            for fn in FUNCTIONS:
                                yield dict(base, op='score', function=fn, _tags=['exhaustive'])
                            for tb in ('default', 'plus'):
                                yield dict(base, op='mj', tie_breaking=tb, _tags=['exhaustive'])
                            yield dict(base, op='star', added_count=1, added_fraction='0', _tags=['exhaustive'])
                            yield {'op': 'allocated', 'votes': votes, 'n': n, 'quota': 'hare', '_tags': ['exhaustive']}
                            yield {'op': 'allocated', 'votes': votes, 'n': n, 'quota': 'droop', '_tags': ['exhaustive']}


def _tag(case):
    """counters: what the case actually exercises (computed with the reference)"""
    tags = case['_tags']
    op = case['op']
    tags.append(op)
    if case.get('_names', 'k') != 'k':
        tags.append('names:' + case['_names'])
        if op in ('pav', 'spav'):
            tags.append('names_approval:' + case['_names'])
        elif op != 'pav_seq':
            tags.append('names_score:' + case['_names'])
    if op == 'seq':
        sub = case['runs'][0]['op']
        tags.append('seq_' + sub)
        if 'crossed' in tags:
            r0 = case['runs'][0]
            tags.append('cross_seq_' + sub + ('_' + r0['tie_breaking'] if sub == 'mj' else ''))
        if case.get('_decoy'):
            tags.append('seq_decoy_first')
        sizes = [sum(len(b) for b, _ in r['votes']) for r in case['runs']]
        if any(a > b for a, b in zip(sizes, sizes[1:])):
            tags.append('seq_larger_then_smaller')
        return
    if op in ('pav', 'pav_seq', 'spav'):
        prof = ref_profile_approval(case)
        if any(not b for b, _ in prof):
            tags.append('blank_approval_' + op)
        if any(w.denominator != 1 for _, w in prof):
            tags.append('fraction_weight')
        if any(w > 2 ** 53 for _, w in prof):
            tags.append('big_weight')
            n = case.get('n', 0)
            if op == 'spav' and n >= 2:
                cands = set().union(*[b for b, _ in prof])
                elected = []
                for rnd in range(n):
                    rest = sorted(cands - set(elected))
                    if not rest:
                        break
                    sc = sorted(((sum(w / (1 + len(b & set(elected))) for b, w in prof if c in b), c) for c in rest), reverse=True)
                    if len(sc) >= 2 and rnd >= 1:
                        gap = sc[0][0] - sc[1][0]
                        if gap == 0:
                            tags.append('spav_big_later_tie')
                        elif gap <= 1:
                            tags.append('spav_big_later_race')
                    if len(sc) >= 2 and sc[0][0] == sc[1][0]:
                        break
                    elected.append(sc[0][1])
            if op == 'pav' and n >= 2:
                cands = sorted(set().union(*[b for b, _ in prof]))
                scs = sorted((pav_score(prof, frozenset(cb)) for cb in itertools.combinations(cands, n)), reverse=True)
                if len(scs) >= 2:
                    gap = scs[0] - scs[1]
                    if gap == 0:
                        tags.append('pav_big_tie')
                    elif gap <= 1:
                        tags.append('pav_big_race')
        if op == 'pav':
            arg, _ = ref_pav(prof, case['n'])
            tags.append('pav_unique' if len(arg) == 1 else 'pav_refusal')
            if case['n'] == 1:
                tags.append('pav_one_seat')
        if op == 'pav_seq':
            cs = case['calls']
            if any(cs[i] == 1 and any(c > 1 for c in cs[:i]) for i in range(len(cs))) and cs[0] == 1:
                tags.append('pav_one_seat_before_and_after')
        if op == 'spav':
            kind, el = ref_spav(prof, case['n'])
            tags.append('spav_sequence' if kind == 'ok' and len(el) >= 2 else ('spav_tie' if kind == 'tie' else 'spav_short'))
        return
    prof = ref_score_profile(case)
    ncand = len({c for b, _ in prof for c in b})
    if any(len(b) < ncand for b, _ in prof):
        tags.append('partial_ballot')
    blank = any(not b for b, _ in prof)
    if blank:
        tags.append('blank_ballot')
        tags.append('blank_ballot_' + op)
    if op != 'allocated' and any(w.denominator != 1 for _, w in prof):
        tags.append('fraction_count')
        return
    for key, name in (('_gt', 'grades'), ('_ut', 'unscored'), ('_bt', 'bottom'), ('_tt', 'truncation'), ('_ft', 'added_fraction')):
        k = case.get(key, 'int')
        src = {'_gt': None, '_ut': case.get('unscored'), '_bt': case.get('bottom'), '_tt': case.get('truncation'),
               '_ft': case.get('added_fraction')}[key]
        if k != 'int' and (key == '_gt' or (src is not None and src != 'min')):
            tags.append(f'{name}_{k}')
            if key != '_gt' and Fraction(src) == 0:
                tags.append(f'{name}_{k}_zero')
    if case.get('_gt') == 'dec' and any(Fraction(g).denominator > 10 ** 6 for b, _ in case['votes'] for _, g in b):
        tags.append('grades_dec7')
    if case.get('unscored') not in (None, 'min') and Fraction(case['unscored']) < 0:
        tags.append('unscored_negative')
    if case.get('_re') == 'obj':
        tags.append('star_runoff_evaluator_object')
    if case.get('_gt') == 'dec' and (op == 'allocated' or case.get('function') == 'mean'):
        tags.append('decimal_rejected')
        return
    # sensitivity: the parameter changes the outcome of the definition (generator checklist item 7)
    for param, default in (('unscored', None), ('min_count', 0), ('truncation', '0'), ('bottom', '0'), ('function', 'mean'),
                           ('tie_breaking', 'default'), ('added_count', 1), ('added_fraction', '0'), ('quota', 'droop')):
        if param in case and case[param] != default and not (param == 'function' and op not in ('score', 'score_agg')):
            try:
                if _ref_outcome(case) != _ref_outcome(dict(case, **{param: default})):
                    tags.append('sens_' + param)
            except Exception:      # noqa
                pass
    if blank:
        # the blank ballots decide the outcome of the definition, and through which correction
        try:
            if _ref_outcome(case) != _ref_outcome(_without_blank(case)):
                tags.append('sens_blank_ballot')
                tags.append('blank_decides_' + op)
                if op == 'allocated':
                    tags.append('blank_decides_quota')
                else:
                    u, t = case.get('unscored'), Fraction(case.get('truncation', '0'))
                    if u is not None and not 0 < t < 1:
                        tags.append('blank_decides_unscored')
                    elif u is None and 0 < t < 1:
                        tags.append('blank_decides_truncation')
                    else:
                        tags.append('blank_decides_mixed')
        except Exception:      # noqa
            pass
    if 'crossed' in tags:
        tk = 'count' if Fraction(case['truncation']) >= 1 else 'frac'
        tags.append('cross_' + op + ('_' + case['tie_breaking'] if op == 'mj' else '') + '_' + tk)
    if op in ('score_agg', 'score', 'mj', 'star'):
        fn = case.get('function', 'median_low' if op == 'mj' else 'sum')
        agg, corr = ref_aggregate(prof, case, fn)
        tags.append('fn_' + fn)
        tags.append('unscored_' + str(case.get('unscored')))
        t = Fraction(case.get('truncation', '0'))
        if t > 0:
            tags.append('truncation_fraction' if t < 1 else 'truncation_count')
        if case.get('min_count', 0) > 0 and any(sum(w for b, w in prof if c in b) < case['min_count'] for c in corr):
            tags.append('min_count_binds')
        if any(v is None for v in agg.values()):
            tags.append('aggregate_undefined')
            return
        if op == 'score' and agg:
            sure, level, places = nbest_ref(agg, case['n'])
            tags.append('score_boundary_tie' if level is not None else 'score_clear')
        if op == 'mj':
            r = ref_mj(prof, case)
            sure, level, places = nbest_ref(agg, case['n'])
            if level is not None:
                tags.append('mj_tie_' + case['tie_breaking'])
                tags.append('mj_' + r['kind'])
                tied_ms = {x: corr[x] for x in level}
                if len(level) >= 3 and len({sum(mm.values()) for mm in tied_ms.values()}) >= 2 \
                        and case['tie_breaking'] == 'default':
                    st = _mj_removal_steps(tied_ms, places)
                    if st is not None and st >= 2:
                        tags.append('mj_tiebreak_unequal_counts_multi_step')
                        if st >= 3:
                            tags.append('mj_tiebreak_unequal_counts_3_steps')
                if len(level) >= 4 and places >= 3:
                    tags.append('mj_shared_median_3seats_' + ('partial' if 'partial_ballot' in tags else 'complete'))
                    if max(w for _, w in prof) >= 12:
                        tags.append('mj_shared_median_heavy')
        if op == 'star':
            _, members, wins, (s0, l0, p0), boundary = ref_star(prof, case)
            tags.append('star_boundary_tie' if boundary else 'star_runoff')
            if len(members) <= 1:
                tags.append('star_runoff_of_one')
            elif len(members) == 2:
                tags.append('star_two_finalists')
            else:
                tags.append('star_many_finalists')
            if l0 is not None:
                tags.append('star_runoff_tied')
            if len(members) >= 2 and case['n'] == 1:
                leader = max(agg, key=lambda c: agg[c])
                if s0 and leader not in s0:
                    tags.append('star_leader_loses_runoff')
    if op == 'allocated':
        tags.append('allocated_' + case['quota'])
        if case.get('_qc'):
            tags.append('allocated_quota_callable')
        if any(w.denominator != 1 for _, w in prof):
            tags.append('allocated_fraction_count')
        if any(w > 2 ** 53 for _, w in prof):
            tags.append('allocated_big_count')
            results, _, _ = ref_allocated(prof, case['n'], case['quota'], tie_orders=False)
            if any(isinstance(e, tuple) for el, _ in results for e in el):
                tags.append('allocated_big_tie')


def _ref_outcome(case):
    """order-free outcome of the definition (for the sensitivity tags)"""
    op = case['op']
    prof = ref_score_profile(case)
    if op in ('score', 'score_agg'):
        agg, _ = ref_aggregate(prof, case, case['function'])
        if any(v is None for v in agg.values()):
            return 'undefined'
        if op == 'score_agg':
            return sorted(agg.items())
        sure, level, places = nbest_ref(agg, case['n'])
        return (sorted(sure), sorted(level) if level else None, places)
    if op == 'mj':
        r = ref_mj(prof, case)
        return (r['kind'], sorted(r.get('winners', [])), sorted(r.get('tie', []) or []))
    if op == 'star':
        agg, members, wins, (sure, level, places), boundary = ref_star(prof, case)
        if any(v is None for v in agg.values()):
            return 'undefined'
        return (sorted(sure), sorted(level) if level else None, places)
    if op == 'allocated':
        results, _, _ = ref_allocated(prof, case['n'], case['quota'], tie_orders=False)
        return sorted(map(str, results))
    return None


def _assign_kind(c):
    """deterministic in the case: about 40% of the cases use one of the other candidate kinds"""
    if '_names' in c:
        return
    h = int(hashlib.sha256(json.dumps(strip_case(c), sort_keys=True, default=str).encode()).hexdigest()[:8], 16)
    if h % 5 < 2:
        c['_names'] = NAME_KINDS[1 + (h // 5) % 3]


def generate(rng, tier):
    for c in _raw_generate(rng, tier):
        _assign_kind(c)
        _tag(c)
        yield c


REQUIRED_COUNTERS = ['pav_unique', 'pav_refusal', 'pav_one_seat', 'pav_one_seat_before_and_after', 'fraction_weight', 'big_weight',
                     'spav_sequence', 'spav_tie',
                     'fn_mean', 'fn_sum', 'fn_median_low', 'unscored_None', 'unscored_0', 'unscored_min',
                     'truncation_fraction', 'truncation_count', 'min_count_binds', 'partial_ballot',
                     'score_boundary_tie', 'score_clear', 'mj_tie_default', 'mj_tie_plus', 'mj_ok', 'mj_unbreakable',
                     'star_runoff', 'star_boundary_tie', 'star_runoff_of_one', 'star_two_finalists', 'star_many_finalists', 'star_runoff_tied',
                     'star_leader_loses_runoff', 'allocated_droop', 'allocated_hare', 'fraction_count',
                     # generator checklist: candidate kinds
                     'names_approval:int0', 'names_approval:empty0', 'names_approval:person',
                     'names_score:int0', 'names_score:empty0', 'names_score:person',
                     # numeric kinds and falsy values
                     'grades_frac', 'grades_dec', 'grades_float', 'grades_dec7', 'decimal_rejected',
                     'unscored_frac', 'unscored_dec', 'unscored_frac_zero', 'unscored_dec_zero', 'unscored_negative',
                     'bottom_frac', 'bottom_dec', 'truncation_frac', 'truncation_dec', 'truncation_float',
                     'added_fraction_frac', 'added_fraction_dec', 'added_fraction_float', 'star_runoff_evaluator_object',
                     # magnitudes
                     'spav_big_later_race', 'spav_big_later_tie', 'pav_big_race', 'pav_big_tie',
                     'allocated_big_count', 'allocated_big_tie', 'allocated_big_later_race', 'allocated_fraction_count',
                     'allocated_hagenbach_bischoff', 'allocated_imperiali', 'allocated_hare_rounded', 'allocated_quota_callable',
                     # structure
                     'mj_shared_median_3seats_complete', 'mj_shared_median_3seats_partial', 'mj_shared_median_heavy',
                     'mj_tiebreak_unequal_counts_multi_step', 'mj_tiebreak_unequal_counts_3_steps',
                     # state between calls
                     'seq_spav', 'seq_score', 'seq_mj', 'seq_star', 'seq_allocated', 'seq_decoy_first', 'seq_larger_then_smaller',
                     'seq_after_error',
                     # all corrections crossed (truncation kind x binding min_count x bottom x unscored x partial), also on shared objects
                     'cross_score_count', 'cross_score_frac', 'cross_score_agg_count', 'cross_score_agg_frac',
                     'cross_mj_default_count', 'cross_mj_default_frac', 'cross_mj_plus_count', 'cross_mj_plus_frac',
                     'cross_star_count', 'cross_star_frac',
                     'cross_seq_score', 'cross_seq_mj_default', 'cross_seq_mj_plus', 'cross_seq_star',
                     # blank ballots (voters who score / approve nobody) that decide the outcome (seeded change C12o)
                     'blank_ballot_score_agg', 'blank_ballot_score', 'blank_ballot_mj', 'blank_ballot_star', 'blank_ballot_allocated',
                     'blank_decides_unscored', 'blank_decides_truncation', 'blank_decides_mixed', 'blank_decides_quota',
                     'blank_decides_score_agg', 'blank_decides_score', 'blank_decides_mj', 'blank_decides_star', 'blank_typed',
                     'blank_approval_pav', 'blank_approval_spav', 'blank_approval_pav_seq',
                     # every constructor parameter changes an outcome
                     'sens_unscored', 'sens_min_count', 'sens_truncation', 'sens_bottom', 'sens_function', 'sens_tie_breaking',
                     'sens_added_count', 'sens_added_fraction', 'sens_quota']


def signature(case, clause):
    op = case['op']
    if op == 'seq':
        op = case['runs'][0]['op']
    return f'{op}:{clause}'


def nontrivial(case, obs):
    if case['op'] in ('pav_seq', 'seq'):
        return any(not _is_err(o) for o in obs)
    cands = {c for b, _ in case['votes'] for c in (b if case['op'] in ('pav', 'spav') else [x[0] for x in b])}
    return len(cands) >= 2 and not _is_err(obs)


def shrink_candidates(case):
    if case['op'] == 'seq':
        for i in range(len(case['runs'])):
            if len(case['runs']) > 1:
                c = dict(case)
                c['runs'] = case['runs'][:i] + case['runs'][i + 1:]
                yield c
        return
    vs = case['votes']
    for i in range(len(vs)):
        if len(vs) > 1:
            c = dict(case)
            c['votes'] = vs[:i] + vs[i + 1:]
            yield c
    if case.get('n', 1) > 1:
        c = dict(case)
        c['n'] = case['n'] - 1
        yield c
    for i, (b, w) in enumerate(vs):
        if len(b) > 1:
            for j in range(len(b)):
                c = dict(case)
                c['votes'] = vs[:i] + [[b[:j] + b[j + 1:], w]] + vs[i + 1:]
                yield c
        if w not in (1, '1'):
            c = dict(case)
            c['votes'] = vs[:i] + [[b, '1' if isinstance(w, str) else 1]] + vs[i + 1:]
            yield c
    for k, v in (('unscored', None), ('min_count', 0), ('truncation', '0'), ('bottom', '0')):
        if k in case and case[k] != v:
            c = dict(case)
            c[k] = v
            yield c


def describe(case):
    op = case['op']
    if op == 'seq':
        return 'one evaluator object, calls: ' + ' ; '.join(describe(r) for r in case['runs'])
    if op in ('pav', 'pav_seq', 'spav'):
        votes = {tuple(sorted(f'c{c}' for c in b)): w for b, w in case['votes']}
        cls = 'SequentialProportionalApproval' if op == 'spav' else 'ProportionalApproval'
        return f"votelib.evaluate.approval.{cls}().evaluate({{frozenset(k): Fraction(v) for k, v in {votes!r}.items()}}, " \
               f"{case.get('n', case.get('calls'))})"
    votes = {tuple((f'c{c}', g) for c, g in b): w for b, w in case['votes']}
    return f"{op} on {{frozenset(k): n for k, n in {votes!r}.items()}} with " + \
        json.dumps({k: v for k, v in strip_case(case).items() if k not in ('votes', 'op')})


REQUIRED = ['pav_eq_spec', 'pavSpec_some_iff', 'pav_returns_iff_unique_maximiser', 'pav_refuses_iff', 'pav_maximises',
            'pav_result_shape', 'pav_order_desc', 'pav_cache_independent', 'pavSeq_eq_map',
            'pav_jr_unrepresented', 'pav_justified_representation', 'harmonic_eq_sum', 'pav_coefs_exact',
            'spav_eq_spec', 'spav_round_argmax', 'spav_error_is_tie',
            'score_aggregate_eq_spec', 'mj_median_is_lower_median', 'score_mean_exact', 'score_eq_spec',
            'score_truncation_eq_spec', 'score_unscored_eq_spec', 'score_min_count_eq_spec',
            'mj_elects_highest_medians', 'mj_fuel_adequate', 'mj_default_eq_spec', 'mj_corrected_scores_wf',
            'mj_never_out_of_fuel', 'mj_evaluator_tiebreak_eq_spec', 'mj_median_stable_below_closest_change', 'star_runoff_pairwise', 'star_eq_schulze_of_runoff',
            'allocated_spends_one_quota', 'allocated_fraction_out_spec', 'allocated_eq_spec', 'allocatedSelector_eq_weighted', 'allocated_tied_leaders', 'allocated_report_tie',
            'allocated_elect_all_tied', 'allocated_tie_order_witness', 'allocated_tie_places_fixed',
            'star_members_spec', 'star_member_matrix', 'star_two_finalists',
            'star_single_runoff_fixed', 'star_boundary_tie_fixed', 'star_member_dropped_fixed',
            'mj_default_tiebreak_witness', 'mj_default_tiebreak_scale_witness', 'allocated_empty_ballot_fixed',
            'allocated_ballots_exhausted_refused', 'allocated_spending_never_raises']

UNPROVED = [
    'schulze_correct: that the Schulze evaluator called for run-offs of more than two finalists ranks by true beatpath strength '
    'is C05 territory (proved there for the Condorcet model: widestPaths_correct + schulze_defining; the integer-valued Schulze inside the STAR model is a second model, tied to the code by the correspondence, and the bridge between the two models is not proved); for STAR it is proved that the evaluator is called on exactly the member matrix (star_eq_schulze_of_runoff, '
    'star_members_spec, star_member_matrix) and that two finalists are decided by pairwise majority (star_two_finalists)',
    'allocated score after an elect-all round: the ballot state the loop continues with depends on the order in which the tied '
    'leaders quotas are spent (FALSE as a function of the election: allocated_tie_order_witness, open finding '
    'C12-allocated-score-tie-order); proved order-independently: who the tied leaders are, that the tie is reported when the '
    'seats do not suffice, that all of them are elected when they do (allocated_tied_leaders / _report_tie / _elect_all_tied), '
    'and the whole loop on profiles where every round has a strict winner (allocated_eq_spec)',
]
NOT_VERIFIED = [
    'iteration order of a Python set of candidates (Tie, frozenset) is modelled as ascending candidate id; the harness uses '
    'str candidates that hash to their id so that CPython iterates them that way; with ordinary str candidates the order varies '
    'with PYTHONHASHSEED, which changes only the order among equal sort keys — except in AllocatedScore (open finding '
    'C12-allocated-score-tie-order)',
    'order among entries with equal sort key in PAV / ScoreVoting / STAR results (iteration order of a set of (candidate, grade) '
    'tuples) is not modelled: the correspondence compares up to permutation inside runs of equal keys',
    'MajorityJudgment results are compared as multisets (the evaluator documents that it does not order its result)',
    'ScoreToRankedVotes merges equal rankings before pair counting; the model adds ballot by ballot (same sums)',
    'STAR run-off evaluators other than Schulze (by name or as object); unscored_value given as a callable object; truncation '
    'counts that are not ints; score counts that are not Python ints (the code raises TypeError: open finding); Decimal or float '
    'approval weights (PAV / SPAV raise TypeError: Fraction arithmetic); Decimal grades with the default exact mean and Decimal '
    'grades / counts in allocated score (TypeError, observed under the counter decimal_rejected; outside the quantifier; a '
    'one-line repair of exact_mean is in notes/proposed_fix_C12_exact_mean_decimal.diff, not applied); mixing Decimal with Fraction / float numbers in one call '
    '(Python refuses the comparison); non-dyadic float grades (inexact by nature)',
    'AllocatedScoreDistributor with prev_gains / arbitrary max_seats (only the selector: max one seat each)',
]
RULE = ('approval profiles over 2..6 candidates (1..6 distinct ballots, weights small ints, Fractions and ints up to 10^30), '
        'score profiles over 2..5 candidates with grades 0..5 (also narrow grade sets to force ties), full and partial ballots, '
        'counts 1..4; all 1 <= n <= candidates; function in {mean,sum,median_low}, unscored in {None,0,min}, min_count in '
        '{0,2,3,5}, truncation in {0,1,2,1/4,1/3,1/10}, bottom in {0,1,-1}; MJ default/plus; STAR added_count 0..2, '
        'added_fraction {0,1/2,1}; allocated droop/hare; PAV call sequences (n, m, n, ...) on one instance; thorough adds all '
        'approval profiles over 3 candidates with <= 3 ballot kinds / 4 candidates with <= 2 (weights 1..2), all 2-candidate score '
        'profiles with <= 2 ballot kinds, grades 0..2, counts 1..2, and all 3-candidate ones with counts (1),(1,1),(2,1). '
        'Generator checklist additions: candidate kinds (str / int ids incl. 0 / empty string / Person by identity, all hashing to '
        'their id); grades, unscored_value, bottom_value as Fraction / Decimal (also 7 decimals) / dyadic float within one number '
        'family, truncation as count / Fraction / Decimal / float, run-off fraction as Fraction / Decimal / float, Schulze passed as '
        'object; falsy 0 / Fraction(0) / Decimal(0); negative unscored values; approval weights and allocated-score counts at 10^9, '
        '2^53, 10^18, 10^30 with exact ties and one-vote races for later seats; all five quota functions by name and as callables; '
        'Fraction counts for allocated score; 4-5 candidates sharing the median for 3+ seats (complete and partial ballots, weights '
        'up to 30); one evaluator object called 2-3 times (after an exception, larger before smaller, a differently configured '
        'object first); per-parameter sensitivity tags; blank ballots (a voter who scores / approves nobody) in score, MJ, STAR, '
        'allocated-score and approval profiles, searched so that dropping them changes the outcome through the unscored-value '
        'substitution, the fractional truncation cutoff or the quota. '
        'Non-trivial = at least two candidates and a non-error outcome; distinct by canonical request.')
TECHNIQUE = ('Lean 4: code-shaped models of approval.py / cardinal.py / convert.py proved equal to the defining computations '
             '(arg-max over all n-subsets, round-wise arg-max, weighted mean / sum / counting median), justified representation by '
             'the swap-and-average argument; differential correspondence of every model with votelib; independent brute-force '
             'Python references as oracle')
LEVEL_TEXT = ('PAV, SPAV, score aggregation, majority judgment (first stage), the STAR run-off construction are proved for all '
              'profiles and seat numbers: PAV returns exactly the unique maximiser of the harmonic satisfaction (refusal otherwise), '
              'independently of the instance history; PAV committees satisfy justified representation; every SPAV round elects the '
              'strict arg-max of the reweighted approvals; aggregates are the exact weighted mean / sum / lower median; MJ elects '
              'above and never below the n-th highest median; every allocated-score seat spends exactly one quota of the strongest '
              'supporters. STAR is the Schulze selection on the exact pairwise matrix of its run-off members (boundary ties all enter). The MJ default tie-break is proved equal to the one-grade-at-a-time rule on every table; the allocated-score loop is proved equal to its round-by-round definition on every profile where each round has a strict winner and no ballot runs out; outside that domain they are modelled '
              'and tied by correspondence; their defects on the current code are proved as witnesses and recorded '
              'as open findings.')
LEVEL_NOTE = ('Trusted: Lean kernel + propext/Classical.choice/Quot.sound; translate.py for the quota functions; the correspondence '
              'harness (bounded by its generator) and the modelling assumptions in modelled_not_verified (set iteration order).')
