"""C10 — outcomes do not depend on ballot order, candidate names or hash seed."""
import os
import subprocess
import itertools
from fractions import Fraction
from common import *   # noqa
import families as fam_mod

ID = 'C10'
NAMESPACE = 'VL.C10'
LEAN_MODULES = ['VotelibProofs.Props.C10']
GEN_MODULES = ['Divisor', 'Quota', 'Threshold', 'RankScore']
REQUIRED = ['getNBest_perm', 'getNBest_rename', 'mem_getNBest_iff', 'symmetric_candidates', 'ha_perm_seats', 'ha_perm_tie',
            'ha_rename_seats', 'ha_rename_tie', 'isNth_perm', 'aboveSorted_perm', 'level_perm',
            'abs_threshold_perm', 'abs_threshold_rename', 'abs_threshold_symmetric', 'rel_threshold_perm', 'rel_threshold_rename',
            'quota_selector_perm', 'quota_selector_rename',
            'quota_distributor_perm', 'quota_distributor_rename', 'largest_remainder_perm', 'largest_remainder_rename',
            'approval_to_simple_perm', 'approval_to_simple_rename', 'ranked_to_positional_perm', 'ranked_to_positional_rename',
            'ranked_to_condorcet_perm', 'positional_rule_perm', 'positional_rule_rename', 'approval_rule_perm',
            'approval_rule_rename',
            'positional_symmetric_candidates', 'approval_symmetric_candidates', 'largest_remainder_symmetric_parties',
            'ha_symmetric_parties',
            'copeland_perm', 'minimax_perm', 'schulze_perm', 'condorcet_winner_perm', 'smith_set_perm', 'schwartz_set_perm',
            'copeland_rule_perm', 'minimax_rule_perm', 'schulze_rule_perm', 'condorcet_winner_rule_perm', 'smith_rule_perm',
            'schwartz_rule_perm', 'ranked_to_condorcet_rename',
            'spav_perm', 'pav_perm', 'score_convert_perm', 'score_voting_perm', 'spav_rename', 'pav_rename', 'score_voting_rename',
            'score_voting_rename_same',
            'kemeny_young_perm', 'ranked_pairs_perm', 'kemeny_young_rule_perm', 'ranked_pairs_rule_perm',
            'copeland_rename', 'minimax_rename', 'schulze_rename', 'condorcet_winner_rename', 'smith_set_rename',
            'schwartz_set_rename', 'kemeny_young_rename', 'ranked_pairs_rename',
            'copeland_rule_rename', 'minimax_rule_rename', 'schulze_rule_rename', 'condorcet_winner_rule_rename',
            'smith_rule_rename', 'schwartz_rule_rename', 'kemeny_young_rule_rename',
            'stv_perm', 'stv_perm_eq', 'stv_order_of_equal_winners_witness', 'stv_distributor_perm',
            'majority_judgment_perm', 'majority_judgment_rename_mono_partial', 'majority_judgment_rename',
            'majority_judgment_rename_same', 'mj_tiebreak_default_row_order',
            'copeland_rename_both', 'stv_rename', 'stv_distributor_rename', 'slotsEquiv_symm', 'slotsEquiv_trans', 'slotsEquiv_elected',
            'copeland_symmetric_candidates', 'minimax_symmetric_candidates', 'schulze_symmetric_candidates',
            'condorcet_sets_symmetric_candidates', 'stv_symmetric_candidates', 'score_voting_symmetric_candidates',
            'pav_symmetric_candidates', 'spav_symmetric_candidates',
            'quota_distributor_perm_all', 'largest_remainder_perm_all', 'quota_distributor_rename_all', 'largest_remainder_rename_all', 'pure_proportionality_perm', 'pure_proportionality_rename', 'pure_constrained_perm', 'pure_constrained_rename', 'ranked_pairs_pairwise_tie_order_witness',
            'copeland_rule_perm_at', 'minimax_rule_perm_at', 'schulze_rule_perm_at', 'condorcet_winner_rule_perm_at',
            'smith_rule_perm_at', 'schwartz_rule_perm_at', 'kemeny_young_rule_perm_at', 'ranked_pairs_rule_perm_at',
            'minimax_rule_rename_at', 'schulze_rule_rename_at', 'condorcet_winner_rule_rename_at', 'smith_rule_rename_at',
            'schwartz_rule_rename_at', 'kemeny_young_rule_rename_at', 'copeland_rule_rename_at',
            'copeland_symmetric_candidates_at', 'minimax_symmetric_candidates_at', 'schulze_symmetric_candidates_at',
            'condorcet_winner_symmetric_candidates_at', 'smith_symmetric_candidates_at', 'schwartz_symmetric_candidates_at',
            'baldwin_perm', 'baldwin_rename', 'benham_perm', 'tideman_perm', 'star_perm',
            'baldwin_rename_noshared', 'baldwin_symmetric_candidates', 'benham_rename', 'benham_n_perm', 'benham_n_rename', 'tideman_rename', 'tideman_n_perm', 'tideman_n_rename', 'star_rename',
            'star_rename_relisted', 'preference_addition_perm', 'decouple_perm', 'preference_addition_order_witness',
            'preference_addition_rename']
_LR = ['hare', 'hagenbach_bischoff', 'imperiali', 'droop', 'hare_rounded', 'hagenbach_bischoff_ceil', 'hagenbach_bischoff_rounded']


def _simple(op, **kw):
    return lambda prof, n: dict(op=op, votes=prof, n=n, **kw)


# family name -> (protocol line of the owner's driver handler for (profile, n), kind of the model's answer).
# The configuration repeats the constructor arguments of harness/families.py (read-only there); a drift would show up as a
# correspondence disagreement.
MODEL = {'plurality': (_simple('plurality'), 'sel')}
for _d in ['d_hondt', 'sainte_lague', 'imperiali', 'danish', 'macau']:
    MODEL[f'ha_{_d}'] = (_simple('ha', divisor=_d, first_coef=None, prev=[], max=[]), 'dist')
for _q in _LR:
    MODEL[f'lr_{_q}'] = (_simple('lr', quota=_q, accept_equal=True, on_overaward='error', prev=[], max=[]), 'dist')
for _q in ['hare', 'droop']:
    MODEL[f'qd_{_q}'] = (_simple('qd', quota=_q, accept_equal=True, on_overaward='error', prev=[], max=[]), 'dist')
    MODEL[f'quota_selector_{_q}'] = (_simple('quota_selector', quota=_q, accept_equal=True, on_more='select'), 'sel')
MODEL['rel_threshold_5pc'] = (_simple('rel_threshold', threshold='1/20', accept_equal=True), 'sel')
MODEL['rel_threshold_5pc_decimal'] = (_simple('rel_threshold', threshold='1/20', accept_equal=True), 'sel')
MODEL['rel_threshold_5pc_float'] = (_simple('rel_threshold', threshold='3602879701896397/72057594037927936', accept_equal=True), 'sel')
MODEL['rel_threshold_third'] = (_simple('rel_threshold', threshold='1/3', accept_equal=False), 'sel')
MODEL['abs_threshold_2'] = (_simple('abs_threshold', threshold='2', accept_equal=True), 'sel')


def _c13_ranked(prof):
    """ranked profile in the encoding of the C13 driver: a shared rank is {"set": [...]}"""
    return [[[({'set': it} if isinstance(it, list) else it) for it in b], w] for b, w in prof]


def _ranked(op, **kw):
    return lambda prof, n: dict(op=op, votes=_c13_ranked(prof), n=n, **kw)


for _nm, _sc in [('borda', {'s': 'Borda', 'base': 1}), ('borda0', {'s': 'Borda', 'base': 0}), ('dowdall', {'s': 'Dowdall'}),
                 ('geometric', {'s': 'Geometric', 'base': 2}), ('modified_borda', {'s': 'ModifiedBorda'}),
                 ('fixed_top3', {'s': 'FixedTop', 'top': 3})]:
    MODEL[f'positional_{_nm}'] = (_ranked('c10_positional', scorer=_sc), 'sel')
for _nm, _split in [('approval_av', False), ('approval_sav', True)]:
    MODEL[_nm] = ((lambda prof, n, _split=_split: dict(op='c10_approval', votes=[[{'set': b}, w] for b, w in prof], n=n, split=_split)), 'sel')
for _nm in ['copeland_2o', 'copeland_raw', 'schulze', 'minimax_winvotes', 'minimax_margins', 'minimax_pwo']:
    MODEL[f'condorcet_{_nm}'] = (_ranked('c10_condorcet', name=_nm), 'sel')
for _fam, _nm in [('condorcet_winner', 'winner'), ('smith_set', 'smith'), ('schwartz_set', 'schwartz')]:
    MODEL[_fam] = (_ranked('c10_condorcet', name=_nm), 'sel')
# C12 models: approval profile [[sorted ballot, "w"]], score profile [[[[c, "s"], ...], w]] (integer weights)
MODEL['approval_pav'] = (_simple('c10_pav'), 'sel')
MODEL['approval_spav'] = (_simple('spav'), 'sel')


def _score(**kw):
    return lambda prof, n: dict(op='c10_score', votes=[[[[c, str(sc)] for c, sc in b], int(w)] for b, w in prof], n=n, **kw)


MODEL['score_mean'] = (_score(function='mean'), 'sel')
MODEL['score_sum0'] = (_score(function='sum', unscored='0'), 'sel')
MODEL['score_median'] = (_score(function='median_low'), 'sel')
for _fam, _q, _form in [('stv_gregory_hare', 'hare', 'selector'), ('stv_gregory_droop', 'droop', 'selector'),
                        ('stv_dist_gregory_droop', 'droop', 'distributor'), ('stv_gregory_hare_strict', 'hare', 'selector'),
                        ('stv_gregory_imperiali', 'imperiali', 'selector'), ('stv_gregory_noquota', None, 'selector')]:
    MODEL[_fam] = (_simple('stv_eval', method='gregory', quota=_q, accept_equal=not _fam.endswith('_strict'), mandatory=False, step=-1, form=_form,
                           prev=[], max=[]), 'dist' if _form == 'distributor' else 'sel')
for _nm in ['kemeny_young', 'rankedpairs_winvotes', 'rankedpairs_margins', 'rankedpairs_pwo']:
    MODEL[f'condorcet_{_nm}'] = (_ranked('c10_condorcet', name=_nm), 'sel')


def _mj(tb):
    return lambda prof, n: dict(op='mj', votes=[[[[c, str(sc)] for c, sc in b], int(w)] for b, w in prof], n=n, tie_breaking=tb)


MODEL['majority_judgment'] = (_mj('default'), 'sel')
MODEL['majority_judgment_plus'] = (_mj('plus'), 'sel')
# the Condorcet evaluators behind RankedToCondorcetVotes(unranked_at_bottom=False) (incomplete pairwise dictionaries): the same
# models, the converter model in its other mode; rule-level theorems: the pairwise-dictionary theorems (*_perm, *_rename hold for
# ARBITRARY dictionaries) composed with ranked_to_condorcet_perm / ranked_to_condorcet_rename for both modes
for _fam in [f for f in list(MODEL) if f.startswith('condorcet_') or f in ('smith_set', 'schwartz_set')]:
    _op = MODEL[_fam][0]
    MODEL[_fam + '_sparse'] = ((lambda prof, n, _op=_op: dict(_op(prof, n), bottom=False)), 'sel')
PROVED_FAMILIES = list(MODEL)
# models of C08 (Baldwin, n-seat PreferenceAddition), C05 (Benham: benhamN = AssertionError unless n = 1; Tideman: tidemanN, any n) and C12 (STAR)
PROVED_FAMILIES += ['pure_proportionality', 'pure_proportionality_constrained', 'baldwin', 'benham', 'tideman_alternative', 'star', 'bucklin', 'oklahoma', 'bucklin_whole', 'oklahoma_whole']
MODEL['pure_proportionality'] = (_simple('pure_proportionality', prev=None, max=None), 'dist')
MODEL['pure_proportionality_constrained'] = (_simple('c10_pure_constrained'), 'dist')
MODEL['baldwin'] = (_simple('baldwin'), 'sel')
MODEL['bucklin'] = (_simple('preference_addition', coef='bucklin', split=True), 'sel')
MODEL['oklahoma'] = (_simple('preference_addition', coef='oklahoma', split=True), 'sel')
MODEL['bucklin_whole'] = (_simple('preference_addition', coef='bucklin', split=False), 'sel')
MODEL['oklahoma_whole'] = (_simple('preference_addition', coef='oklahoma', split=False), 'sel')
MODEL['benham'] = ((lambda prof, n: dict(op='c10_benham', profile=prof, n=n)), 'sel')
MODEL['tideman_alternative'] = ((lambda prof, n: dict(op='tideman', profile=prof, smith=True, n=n)), 'sel')
MODEL['star'] = ((lambda prof, n: dict(op='c10_star', votes=[[[[c, str(sc)] for c, sc in b], int(w)] for b, w in prof], n=n,
                                       added_count=1, added_fraction='0', unscored=None, min_count=0, truncation='0', bottom='0')), 'sel')
# the score family with the non-default corrections of ScoreToSimpleVotes (truncation count / fraction, min_count, unscored_value):
# the C12 table model covers every configuration (Score.Cfg: Trunc.off / frac / count, minCount, Unscored.none / value / min) and the
# theorems score_voting_perm / _rename, majority_judgment_perm / _rename, star_perm / _rename are stated for EVERY cfg
def _mjc(tb, **kw):
    return lambda prof, n: dict(op='mj', votes=[[[[c, str(sc)] for c, sc in b], int(w)] for b, w in prof], n=n, tie_breaking=tb, **kw)


SCORE_CORRECTIONS = {
    'score_mean_trunc1': _score(function='mean', truncation='1'),
    'score_mean_trunc_sixth': _score(function='mean', truncation='1/6'),
    'score_median_trunc2': _score(function='median_low', truncation='2'),
    'score_sum0_trunc1': _score(function='sum', unscored='0', truncation='1'),
    'mj_trunc1': _mjc('default', truncation='1'),
    'mj_plus_trunc_fifth': _mjc('plus', truncation='1/5'),
    'star_trunc1': (lambda prof, n: dict(op='c10_star', votes=[[[[c, str(sc)] for c, sc in b], int(w)] for b, w in prof], n=n,
                                         added_count=1, added_fraction='0', unscored=None, min_count=0, truncation='1', bottom='0')),
    'score_mean_min3': _score(function='mean', min_count=3),
    'score_mean_unscored_min': _score(function='mean', unscored='min'),
    'mj_unscored0_min2': _mjc('default', unscored='0', min_count=2),
}
assert set(SCORE_CORRECTIONS) == set(fam_mod.SCORE_CORRECTION_FAMILIES)
for _fam, _line in SCORE_CORRECTIONS.items():
    MODEL[_fam] = (_line, 'sel')
    PROVED_FAMILIES.append(_fam)
TRUNCATING = [f for f in SCORE_CORRECTIONS if 'trunc' in f]
K_PERM = 3
K_REN = 3
HASH_SEEDS = ['0', '1', '2', '3', 'random']
_FAMS = None


def fams():
    global _FAMS
    if _FAMS is None:
        _FAMS = {f.name: f for f in fam_mod.families() if f.order_free or f.name.startswith('condorcet_rankedpairs')}
    return _FAMS


UNPROVED = []
try:
    UNPROVED = ['perm_rename_invariant_' + n for n in fams() if n not in PROVED_FAMILIES]
except Exception:
    pass
# statements of the proved families that are NOT covered by a theorem
UNPROVED += [
    'ranked_pairs_perm_distinct_majorities_only (FALSE of the code for pairwise ties: ranked_pairs_pairwise_tie_order_witness, open '
    'finding; proved under Perm.RPDistinct: the (score, count) sort keys separate ALL pairs)',
    'rename_equivariant_thresholds_quota_selector_under_noninjective: n/a (proved for every renaming)',
    'hash_seed_independence (not expressible in a Lean model; sampled)',
    'perm_rename_invariant_by_party (ByParty on constituency-nested votes: decided by the oracle under renamings of the parties - names '
    'containing one another, ints, reversed order - and permutations of constituencies and parties; the laws of the wrapper itself are C14)',
]
UNPROVED = [u for u in UNPROVED if not u.startswith('rename_equivariant_thresholds')]
REQUIRED_COUNTERS = ['perm', 'rename', 'rename_int', 'rename_person', 'mj_partial_heavy', 'pure_cap_and_floor', 'reverse_sort_rename', 'hashseed', 'modelled', 'symmetric_pair', 'all_perms', 'symmetric_profile', 'by_party', 'rename_names_containing_each_other',
                     'score_truncation_count', 'score_truncation_fraction', 'score_levels_nonmonotone', 'score_min_count', 'score_unscored_value']
RULE = ('every deterministic evaluator family x generated profiles (2-5 candidates) x 3 permutations of insertion order x 3 bijective '
        'renamings (one reversing string sort order, one to multi-character random names, one permuting the base names) in-process, and a '
        'sample of the cases in subprocesses under PYTHONHASHSEED in {0,1,2,3,random}; small profiles (<= 3 entries quick, <= 4 thorough) under '
        'ALL orders of presentation; mirrored profiles (symmetric in candidates 0 and 1) of every vote type for the symmetric-candidates '
        'clause; ranked pairs only on profiles whose majorities have pairwise distinct strengths. Outcomes are compared as multisets of '
        'winners / seat maps with ties as sets. For every family with a Lean model the model is evaluated on a permuted (2/3 of the cases) or '
        'renamed (1/3) presentation and compared with the implementation on that presentation. Non-trivial = base outcome not an error.')
NOT_VERIFIED = ['hash-seed independence is a property of CPython set/dict iteration: sampled over 5 seeds, not proved (partial)',
                'the relative ORDER of winners is not compared (the property allows equally placed winners to swap; scores are not available '
                'generically) - the multiset of winners, the seat map and the ties are',
                'families listed under unproved are decided by the oracle on the implementation only',
                'ranked pairs: the theorem needs Perm.RPDistinct (all pairs separated by (score, count)); generated profiles that only have '
                'pairwise distinct majority strengths are decided by the oracle',
                'renaming theorems rename frozensets (approval ballots, shared ranks) canonically (models keep them sorted by id); the '
                'implementation side covers the real string names, incl. order-reversing and multi-character ones']


def _names_variants(rng, m):
    """three bijective renamings id -> string"""
    rev = [f'k{m - 1 - i:02d}x' for i in range(m)]                   # reverses string sort order w.r.t. ids
    words = ['Alice Smith', 'bob', 'Čapek', 'Zed-9', 'o', 'Mary Jane W.', 'x1', 'Émile', 'ÖVP', 'll']
    rnd = rng.sample(words, m) if m <= len(words) else [f'name{i}' for i in range(m)]
    shuf = [f'cand{i}' for i in range(m)]
    rng.shuffle(shuf)                                                  # a permutation of the base names
    ints = list(range(m))
    rng.shuffle(ints)                                                  # small ints iterate in VALUE order inside sets / frozensets:
    #                                                                    an int renaming steers which member a set yields first
    return [('reverse_sort_rename', rev), ('rename', rnd), ('rename', shuf), ('rename_int', ints), ('rename_int', ints[::-1]),
            ('rename_person', 'PERSONS')]


def _distinct_strengths(prof, at_bottom=True):
    """ranked pairs is only required on profiles whose pairwise majorities have pairwise distinct strengths"""
    import votelib.convert as cv
    nm = Names(prefix='cand')
    pw = cv.RankedToCondorcetVotes(unranked_at_bottom=at_bottom).convert(fam_mod.build('ranked', prof, nm))
    seen = {}
    for (a, b), v in pw.items():
        r = pw.get((b, a), 0)
        if v > r:
            seen.setdefault('wv', []).append(v)
            seen.setdefault('mg', []).append(v - r)
        seen.setdefault('pwo', []).append(v)
    return all(len(set(l)) == len(l) for l in seen.values())


def _first_levels(prof):
    """candidate -> its distinct grades in order of first appearance among the ballots as listed"""
    lv = {}
    for b, w in prof:
        for c, sc in b:
            if sc not in lv.setdefault(c, []):
                lv[c].append(sc)
    return lv


def _by_first_grade(prof):
    """the presentation listing the ballots by ascending grade of the lowest-numbered candidate (its grades then first appear in
    sorted order, those of the others in whatever order follows)"""
    return sorted(prof, key=lambda bw: (bw[0][0][1], json.dumps(bw[0])))


def _score_tags(fam, prof):
    tags = []
    if 'trunc' in fam:
        tags.append('score_truncation_fraction' if fam.endswith(('sixth', 'fifth')) else 'score_truncation_count')
        if any(len(l) >= 3 and l != sorted(l) and l != sorted(l, reverse=True) for l in _first_levels(prof).values()):
            tags.append('score_levels_nonmonotone')
    if fam in ('score_mean_min3', 'mj_unscored0_min2'):
        tags.append('score_min_count')
    if fam in ('score_sum0_trunc1', 'score_mean_unscored_min', 'mj_unscored0_min2'):
        tags.append('score_unscored_value')
    return tags


def generate(rng, tier):
    F = list(fams().values())
    per = 24 if tier == 'quick' else 400
    hs_budget = 120 if tier == 'quick' else 1500
    for f in F:
        made = 0
        tries = 0
        while made < per and tries < per * 20:
            tries += 1
            m = rng.randint(2, 5)
            prof = fam_mod.gen_profile(rng, f.vtype, m)
            if f.name.startswith('condorcet_rankedpairs') and not _distinct_strengths(prof, f.at_bottom):
                continue
            cands = fam_mod.candidates_of(fam_mod.base_vtype(f.vtype), prof)
            mm = max(cands) + 1
            n = rng.randint(1, max(1, len(cands)))
            if not f.small_weights and fam_mod.base_vtype(f.vtype) != 'score' and rng.random() < 0.12:
                # weight regime: counts beyond double precision, or rational counts (sums taken in a different order differ in floats)
                prof = fam_mod.scale(prof, rng.choice([10 ** 18 + 3, 2 ** 53 + 1, 10 ** 30 + 7, Fraction(1, 3), Fraction(5, 2)]))
            perms = [fam_mod.permute(prof, rng) for _ in range(K_PERM)]
            rens = _names_variants(rng, mm)
            tags = ['perm'] + [t for t, _ in rens]
            hs = hs_budget > 0 and rng.random() < 0.3
            if hs:
                hs_budget -= 1
                tags.append('hashseed')
            made += 1
            yield {'op': 'invariance', 'family': f.name, 'prof': prof, 'n': n, 'perms': perms,
                   'renamings': [r for _, r in rens], 'hashseeds': HASH_SEEDS if hs else [], '_tags': tags}
    # directed: majority judgment on PARTIAL ballots with heavy weights (tied medians, different numbers of grades per candidate):
    # the default tie-break must not depend on which tied candidate a frozenset yields first - renamings and hash seeds vary that
    for f in F:
        if f.name.startswith('majority_judgment'):
            for t in range(100 if tier == 'quick' else 600):
                m = rng.randint(3, 4)
                if t % 2:
                    prof = fam_mod.gen_score_partial_heavy(rng, m)
                else:
                    # tied medians, different numbers of grades: w1 x {b: g}, w2 x {b: g, c: g+1}, w3 x {a: g, b: g+2, c: g}
                    g = rng.choice([0, 1, 2])
                    a, b, c = rng.sample(range(3), 3)
                    prof = [[[[b, g]], str(rng.randint(3, 8))], [sorted([[b, g], [c, g + 1]]), str(rng.randint(1, 5))],
                            [sorted([[a, g], [b, g + 2], [c, g]]), str(rng.randint(3, 8))]]
                cands = fam_mod.candidates_of('score', prof)
                rens = _names_variants(rng, max(cands) + 1)
                if max(cands) + 1 == 3:          # every int naming of three candidates: every iteration order of a tied set
                    rens = rens[:3] + [('rename_int', list(q)) for q in itertools.permutations(range(3))]
                hs = hs_budget > 0 and t % 4 == 0
                if hs:
                    hs_budget -= 1
                yield {'op': 'invariance', 'family': f.name, 'prof': prof, 'n': rng.randint(1, 2),
                       'perms': [fam_mod.permute(prof, rng) for _ in range(K_PERM)], 'renamings': [r for _, r in rens],
                       'hashseeds': HASH_SEEDS if hs else [], '_tags': ['perm', 'mj_partial_heavy'] + [tg for tg, _ in rens] + (['hashseed'] if hs else [])}
    # directed: exact proportional shares with a cap (largest party) and previous seats (smallest party) binding in the SAME pass,
    # the smallest party's share being a whole number: which of the two is fixed first must not matter
    for f in F:
        if f.name == 'pure_proportionality_constrained':
            for t in range(30 if tier == 'quick' else 300):
                n = rng.choice([5, 10, 20])
                u = rng.randint(3, 12)
                total = n * u
                small = u * rng.choice([1, 1, 2])
                big = rng.randint(total // 2 + 1, (total * 7) // 10)
                mid = total - small - big
                if not (small < mid < big):
                    continue
                vals = [big, mid, small]
                order = [0, 1, 2]
                rng.shuffle(order)
                prof = [[i, str(vals[i])] for i in order]
                rens = _names_variants(rng, 3)
                yield {'op': 'invariance', 'family': f.name, 'prof': prof, 'n': n,
                       'perms': [list(q) for q in itertools.permutations(prof)], 'renamings': [r for _, r in rens],
                       'hashseeds': [], '_tags': ['perm', 'all_perms', 'pure_cap_and_floor'] + [tg for tg, _ in rens]}
    # small scope, exhaustively: ALL orders of presentation of profiles with at most 3 (quick) / 4 (thorough) entries
    cap = 3 if tier == 'quick' else 4
    for f in F:
        made = 0
        tries = 0
        while made < (1 if tier == 'quick' else 8) and tries < 400:
            tries += 1
            m = rng.randint(2, 4)
            prof = fam_mod.gen_profile(rng, f.vtype, m)
            if not 2 <= len(prof) <= cap:
                continue
            if f.name.startswith('condorcet_rankedpairs') and not _distinct_strengths(prof, f.at_bottom):
                continue
            cands = fam_mod.candidates_of(fam_mod.base_vtype(f.vtype), prof)
            made += 1
            yield {'op': 'invariance', 'family': f.name, 'prof': prof, 'n': rng.randint(1, max(1, len(cands))),
                   'perms': [list(q) for q in itertools.permutations(prof)], 'renamings': [r for _, r in _names_variants(rng, max(cands) + 1)],
                   'hashseeds': [], '_tags': ['perm', 'all_perms']}
    # directed: the corrections of ScoreToSimpleVotes (truncation count / fraction, min_count, unscored_value) on profiles in which a
    # candidate's distinct grades first appear in NON-MONOTONE order and two candidates hold rearrangements of (almost) the same
    # grades: WHICH grades a trimmed aggregate disregards decides the seat, and it must be the numerically lowest / highest ones
    # whatever the order of the ballots
    for f in F:
        if f.name in SCORE_CORRECTIONS:
            for t in range(16 if tier == 'quick' else 250):
                m = rng.randint(2, 4)
                part = 0.0 if f.name in TRUNCATING and t % 4 else 0.25
                prof = fam_mod.gen_score_nonmonotone(rng, m, partial=part)
                cands = fam_mod.candidates_of('score', prof)
                rens = _names_variants(rng, max(cands) + 1)
                perms = [fam_mod.permute(prof, rng) for _ in range(K_PERM)] + [prof[::-1], _by_first_grade(prof)]
                yield {'op': 'invariance', 'family': f.name, 'prof': prof, 'n': rng.choice([1, 1, 2]) if len(cands) > 2 else 1,
                       'perms': perms, 'renamings': [r for _, r in rens], 'hashseeds': [],
                       '_tags': ['perm'] + _score_tags(f.name, prof) + [tg for tg, _ in rens]}
            for t in range(4 if tier == 'quick' else 60):
                # the same with candidates 0 and 1 in mirrored positions: both elected, both not, or tied - in every order
                m = rng.randint(2, 3)
                prof = fam_mod.gen_score_nonmonotone(rng, m)
                mirror = fam_mod.rename('score', prof, {0: 1, 1: 0, 2: 2, 3: 3})
                merged = {}
                for b, w in prof + mirror:
                    k = json.dumps(b)
                    merged[k] = merged.get(k, 0) + Fraction(w)
                sym = [[json.loads(k), num_str(w)] for k, w in merged.items()]
                rng.shuffle(sym)
                yield {'op': 'symmetric', 'prof': sym, 'n': 1, 'family': f.name,
                       '_tags': ['symmetric_pair', 'symmetric_profile'] + _score_tags(f.name, sym)}
    # symmetric pairs: two candidates with identical positions (simple votes)
    for t in range(40 if tier == 'quick' else 400):
        m = rng.randint(2, 6)
        prof = fam_mod.gen_simple(rng, m)
        prof[1][1] = prof[0][1]
        yield {'op': 'symmetric', 'prof': prof, 'n': rng.randint(1, m), 'family': rng.choice(['plurality', 'ha_d_hondt', 'ha_sainte_lague', 'lr_hare']),
               '_tags': ['symmetric_pair']}
    # symmetric pairs in every vote type: the profile is its own image under the transposition of candidates 0 and 1
    # (every ballot is accompanied by its mirror image with the same weight)
    swap = lambda m: {i: (1 if i == 0 else 0 if i == 1 else i) for i in range(m)}
    for f in F:
        if f.name.startswith('condorcet_rankedpairs'):
            continue           # mirrored profiles have equal strengths: outside the quantifier of ranked pairs
        for t in range(2 if tier == 'quick' else 30):
            m = rng.randint(2, 5)
            vt = fam_mod.base_vtype(f.vtype)
            prof = fam_mod.gen_profile(rng, f.vtype, m)
            mirror = fam_mod.rename(vt, prof, swap(max(fam_mod.candidates_of(vt, prof) + [m - 1]) + 1))
            merged = {}
            for b, w in prof + mirror:
                k = json.dumps(b)
                merged[k] = merged.get(k, 0) + Fraction(w)
            sym = [[json.loads(k), num_str(w)] for k, w in merged.items()]
            cands = fam_mod.candidates_of(vt, sym)
            yield {'op': 'symmetric', 'prof': sym, 'n': rng.randint(1, max(1, len(cands))), 'family': f.name,
                   '_tags': ['symmetric_pair', 'symmetric_profile']}


_HS_CACHE = {}


def _run_hashseed(seed, lines):
    env = dict(os.environ)
    env['PYTHONHASHSEED'] = seed
    env['PYTHONPATH'] = os.path.join(VERIF, 'harness') + ':' + REPO
    p = subprocess.run([sys.executable, os.path.join(VERIF, 'harness', 'hashseed_worker.py')],
                       input='\n'.join(json.dumps(l) for l in lines) + '\n', stdout=subprocess.PIPE, stderr=subprocess.PIPE,
                       text=True, env=env, timeout=600)
    outs = [json.loads(o) for o in p.stdout.strip().split('\n') if o.strip()]
    if len(outs) != len(lines):
        raise RuntimeError('hashseed worker failed: ' + p.stderr[-500:])
    return outs


def impl(case):
    if case['op'] == 'by_party':
        nc = len(case['votes'])
        ident = [list(range(nc)), list(range(5))]
        return {'base': _run_by_party(case, None, ident), 'perms': [_run_by_party(case, None, o) for o in case['orders']],
                'renamed': [_run_by_party(case, nm, ident) for nm in NESTED_NAMINGS[1:]]}
    f = fams().get(case['family']) or {x.name: x for x in fam_mod.families()}[case['family']]
    base_names = Names(prefix='cand')
    if case['op'] == 'symmetric':
        return fam_mod.run_family(f, case['prof'], case['n'], base_names)
    out = {'base': fam_mod.run_family(f, case['prof'], case['n'], base_names), 'perms': [], 'renamed': [], 'hashseed': {}}
    for p in case['perms']:
        out['perms'].append(fam_mod.run_family(f, p, case['n'], base_names))
    for nm in case['renamings']:
        if nm == 'PERSONS':          # votelib.candidate.Person objects: compared and hashed by identity, set order by address
            import votelib.candidate
            m = max(fam_mod.candidates_of(fam_mod.base_vtype(f.vtype), case['prof'])) + 1
            nm = [votelib.candidate.Person(f'person {i}') for i in range(m)]
        out['renamed'].append(fam_mod.run_family(f, case['prof'], case['n'], Names(nm)))
    for s in case['hashseeds']:
        if '_hs' in case and s in case['_hs']:
            out['hashseed'][s] = case['_hs'][s]       # evaluated in one batch per seed by generate()
        else:
            out['hashseed'][s] = _run_hashseed(s, [{'family': case['family'], 'prof': case['prof'], 'n': case['n']}])[0]
    return out


def _multiset(kind, obs):
    """winners as a multiset (order ignored), ties as sets; distributions as maps"""
    o = canon(obs)
    if isinstance(o, dict):
        return o
    if kind == 'dist':
        return sorted((json.dumps(k, sort_keys=True), v) for k, v in o)
    return sorted(json.dumps(x, sort_keys=True) for x in o)


def oracle(case, obs):
    if case['op'] == 'by_party':
        out = []
        for o in obs['perms']:
            if o != obs['base']:
                out.append(('depends_on_ballot_order', f'ByParty: {json.dumps(obs["base"])} vs {json.dumps(o)} under another order of constituencies / parties'))
                break
        for nm, o in zip(NESTED_NAMINGS[1:], obs['renamed']):
            if o != obs['base']:
                out.append(('depends_on_candidate_names', f'ByParty: {json.dumps(obs["base"])} vs {json.dumps(o)} with the parties named {nm}'))
                break
        return out
    allf = {x.name: x for x in fam_mod.families()}
    f = allf[case['family']]
    out = []
    if case['op'] == 'symmetric':
        if isinstance(obs, dict):
            return []
        a, b = 0, 1
        if f.kind == 'dist':
            d = {json.dumps(k): v for k, v in obs}
            if d.get('0', 0) != d.get('1', 0):
                out.append(('symmetric_candidates_treated_differently', str(obs)))
        else:
            ia = a in obs
            ib = b in obs
            ta = any(isinstance(x, dict) and a in x.get('tie', []) for x in obs)
            tb = any(isinstance(x, dict) and b in x.get('tie', []) for x in obs)
            if ia != ib or ta != tb:
                out.append(('symmetric_candidates_treated_differently', str(obs)))
        return out
    base = _multiset(f.kind, obs['base'])
    for i, r in enumerate(obs['perms']):
        if _multiset(f.kind, r) != base:
            out.append(('depends_on_ballot_order', f'{f.name}: {json.dumps(obs["base"])} vs {json.dumps(r)} for order {case["perms"][i]}'))
            break
    for i, r in enumerate(obs['renamed']):
        if _multiset(f.kind, r) != base:
            out.append(('depends_on_candidate_names', f'{f.name}: {json.dumps(obs["base"])} vs {json.dumps(r)} under names {case["renamings"][i]}'))
            break
    for s, r in obs['hashseed'].items():
        if _multiset(f.kind, r) != base:
            out.append(('depends_on_hash_seed', f'{f.name}: {json.dumps(obs["base"])} vs {json.dumps(r)} under PYTHONHASHSEED={s}'))
            break
    return out


def signature(case, clause):
    sig = f"{case['op']}:{case['family']}:{clause}"
    if case['op'] == 'invariance' and case['family'].startswith('condorcet_rankedpairs') and not _distinct_strengths(case['prof'], fams()[case['family']].at_bottom):
        sig += ':pairwise_tie'      # outside the generator's reading of the quantifier (all pair counts distinct); see known findings
    return sig


def nontrivial(case, obs):
    if case['op'] == 'symmetric':
        return not isinstance(obs, dict)
    return not (isinstance(obs['base'], dict) and 'err' in obs['base'])


def _variant(case):
    """which presentation the Lean model evaluates: a permuted one (2 of 3 cases) or a renamed one (ids permuted by the third
    renaming, which is a permutation of the base names)"""
    h = int(hashlib.sha1(json.dumps(case['prof']).encode()).hexdigest()[:6], 16)
    return 'rename' if h % 3 == 0 else 'perm'


def _sigma(case):
    return {i: int(nm[4:]) for i, nm in enumerate(case['renamings'][2])}


def model_line(case):
    """the Lean models of the modelled families evaluate a PERMUTED presentation (the last permutation) or a RENAMED one
    (candidate ids permuted); the answer is compared with the implementation on that same presentation"""
    if case['op'] != 'invariance':
        return None
    m = MODEL.get(case['family'])
    if m is None:
        return None
    if _variant(case) == 'rename':
        f = fams().get(case['family'])
        prof = fam_mod.rename(fam_mod.base_vtype(f.vtype), case['prof'], _sigma(case))
        return m[0](prof, case['n'])
    return m[0](case['perms'][-1], case['n'])


def _unrename(x, inv):
    if isinstance(x, dict):
        if set(x.keys()) == {'tie'}:
            return {'tie': sorted(inv[c] for c in x['tie'])}
        return x
    if isinstance(x, list):
        return [_unrename(v, inv) for v in x]
    if isinstance(x, int) and not isinstance(x, bool):
        return inv[x]
    return x


def compare(case, iobs, mobs):
    kind = MODEL[case['family']][1]
    if _variant(case) == 'rename':
        got = iobs['renamed'][2]
        inv = {v: k for k, v in _sigma(case).items()}
        if isinstance(mobs, list):
            if kind == 'dist':
                mobs = [[_unrename(k, inv), v] for k, v in mobs]      # values are seat counts, not ids
            else:
                mobs = _unrename(mobs, inv)
    else:
        got = iobs['perms'][-1]
    if kind == 'dist':          # seat counts: ints and exact fractions ("p/q") compared as numbers
        norm = lambda o: [[k, str(Fraction(v))] for k, v in o] if isinstance(o, list) else o
        got, mobs = norm(got), norm(mobs)
    a = _multiset(kind, got)
    b = _multiset(kind, mobs)
    if a != b:
        return f'impl={json.dumps(a)} model={json.dumps(b)} ({_variant(case)} presentation)'
    return None


_gen = generate


NESTED_NAMINGS = [
    None,                                                   # 'p0', 'p1', ...
    ['a', 'ab', 'abc', 'abcd', 'b'],                        # every name contains the previous one
    ['Left', 'Green Left', 'Left Right', 'Right', 'Green'],
    ['c1', 'c10', 'c100', 'c2', 'c20'],
    'ints',
    ['k4x', 'k3x', 'k2x', 'k1x', 'k0x'],                    # reverses the string order
]


def _gen_by_party(rng, tier):
    """ByParty (seats by party on the national totals, then allocated to constituencies) on constituency-nested party votes, under
    renamings of the PARTIES (names containing one another, ints, reversed order) and permutations of constituencies and parties"""
    for t in range(40 if tier == 'quick' else 600):
        nc, npar = rng.randint(2, 3), rng.randint(2, 4)
        votes = [[c, [[p, rng.randint(1, 90)] for p in range(npar) if rng.random() < 0.9 or p == 0]] for c in range(nc)]
        yield {'op': 'by_party', 'family': 'by_party', 'divisor': rng.choice(['d_hondt', 'sainte_lague']),
               'alloc': rng.choice([None, 'd_hondt', 'sainte_lague']), 'n': rng.randint(2, 9), 'votes': votes,
               'orders': [[rng.sample(range(nc), nc), rng.sample(range(npar), npar)] for _ in range(2)],
               '_tags': ['by_party', 'rename_names_containing_each_other']}


def _run_by_party(case, naming, order):
    import votelib.evaluate.core as vc
    import votelib.evaluate.proportional as vp
    name = (lambda p: p) if naming == 'ints' else (lambda p: f'p{p}') if naming is None else (lambda p: naming[p])
    back = {name(p): p for p in range(5)}
    corder, porder = order
    votes = {}
    cv = dict((c, dict(pv)) for c, pv in case['votes'])
    for c in corder:
        votes[f'cty{c}'] = {name(p): cv[c][p] for p in porder if p in cv[c]}
    ev = vc.ByParty(vp.HighestAverages(case['divisor']), vp.HighestAverages(case['alloc']) if case['alloc'] else None)

    def go():
        res = ev.evaluate(votes, case['n'])
        return sorted([int(c[3:]), sorted([back[p] if not isinstance(p, vc.Tie) else {'tie': sorted(back[x] for x in p)}, k]
                                          for p, k in d.items())] for c, d in res.items())
    return guarded(go, 10)


def generate(rng, tier):    # noqa
    cases = list(_gen(rng, tier)) + list(_gen_by_party(rng, tier))
    hs = [c for c in cases if c.get('hashseeds')]
    for seed in HASH_SEEDS:
        if hs:
            outs = _run_hashseed(seed, [{'family': c['family'], 'prof': c['prof'], 'n': c['n']} for c in hs])
            for c, o in zip(hs, outs):
                c.setdefault('_hs', {})[seed] = o
    for c in cases:
        if model_line(c) is not None:
            c['_tags'].append('modelled')
        yield c


def describe(case):
    if case['op'] == 'by_party':
        return (f"ByParty(HighestAverages({case['divisor']!r}), allocator={case['alloc']!r}).evaluate(votes, {case['n']}) under renamings of the "
                f"parties {NESTED_NAMINGS[1:]} and orders {case['orders']}; votes (constituency -> party -> count) = {case['votes']}")
    return f"{case['family']}: evaluate(profile, {case['n']}); profile={case['prof']}"


def shrink_candidates(case):
    if case['op'] != 'invariance':
        return
    p = case['prof']
    for i in range(len(p)):
        if len(p) > 1:
            c = dict(case)
            c['prof'] = p[:i] + p[i+1:]
            c['perms'] = [list(reversed(c['prof']))]
            yield c


TECHNIQUE = ('Lean 4 proofs of permutation invariance and renaming equivariance of the executable models (get_n_best via its characterisation; '
             'highest averages and STV by simulation relations; converters by commutativity of the per-ballot sums proved in C13; Condorcet '
             'evaluators as functions of the pairwise map; PAV/SPAV/score via their defining computations) + implementation oracle over all '
             'deterministic families, permutations, renamings and hash seeds')
LEVEL_TEXT = ('Ballot-order independence and renaming equivariance (up to the order of equally placed winners and of tie members, made explicit by '
              'SlotsEquiv / ExceptEquiv / DistEquiv) are proved in Lean for all inputs for: plurality/get_n_best, the thresholds, QuotaSelector, all '
              'highest-averages methods, QuotaDistributor and LargestRemainder (every over-award policy), PureProportionality (with floors and caps), the converters to simple / positional / '
              'pairwise votes and the positional rules and approval voting built on them, Condorcet winner, Smith and Schwartz sets, Copeland '
              '(both orders), minimax (3 scorers), Schulze, Kemeny-Young, ranked pairs (order: under separated sort keys), STV with Gregory '
              'transfers (selector and distributor), PAV, SPAV, score voting, majority judgment, STAR, Baldwin, '
              'Bucklin / Oklahoma (n seats, with the decoupling of shared ranks), Benham and Tideman alternative (one seat); with the '
              'symmetric-candidates corollary for most of them. The models are those of the owning properties, evaluated here on permuted and '
              'renamed presentations against the implementation. Allocated score (genuinely order dependent: open findings) and Benham / Tideman '
              'with more than one seat are decided by the oracle on the implementation only; hash-seed independence is sampled in '
              'subprocesses under 5 PYTHONHASHSEED values (partial: not expressible in a Lean model).')
LEVEL_NOTE = ('Trusted: Lean kernel + standard axioms; the models of C01/C02/C03/C05/C06/C08/C09/C12/C13/C16 tied to the code by their owners\' correspondence '
              'and re-checked here on permuted / renamed inputs (outcomes compared as multisets). Partial: hash seeds sampled only; families without '
              'Lean theorem decided by oracle only; order of winners not compared (multiset).')
