"""Shared by C05 and C06: pairwise-dictionary generators, textbook definitions (brute force), encoders.

A case carries the pairwise dictionary as `votes: [[upper_id, lower_id, "p/q"], ...]` in insertion order;
candidates are protocol ids, the real votelib gets the names `NAMES.n(id)` (strings, so that Python
set iteration order is the hash-randomised one).
"""
import itertools
from fractions import Fraction
from decimal import Decimal
from common import Names, num_str

NAMES = Names(prefix='k')


# ------------------------------------------------------------------------------------------------
# encoding

NTYPES = ['decimal', 'decimal_long', 'float_dyadic', 'float_nd', 'fraction_all']


def typed(f, ntype):
    """the Python number handed to votelib for the exact protocol value f (a Fraction) under the numeric type of the case;
    the conversion is exact by construction of the generators (checked)"""
    if ntype in ('decimal', 'decimal_long'):
        v = Decimal(f.numerator) / Decimal(f.denominator)
        if Fraction(v) != f:
            raise ValueError(f'{f} is not a finite decimal')
        return v
    if ntype in ('float_dyadic', 'float_nd', 'float'):
        v = f.numerator / f.denominator
        if Fraction(v) != f:
            raise ValueError(f'{f} is not a float')
        return v
    if ntype == 'fraction_all':          # also integral and zero counts as Fraction objects (Fraction(0) is falsy)
        return f
    return int(f) if f.denominator == 1 else f


def retype_votes(votes, ntype):
    """map the counts of a pairwise dictionary by a strictly monotone exact scaling so that every count is a value of the
    numeric type (ties stay ties, zeros stay zero, wins stay wins); returns the new protocol list"""
    k = {'decimal': Fraction(5, 4), 'decimal_long': Fraction(10000001, 10000000), 'float_dyadic': Fraction(3, 4),
         'fraction_all': Fraction(1)}.get(ntype)
    out = []
    for a, b, s in votes:
        f = Fraction(s)
        if ntype == 'float_nd':
            f = Fraction(float(f) * 1.4)          # non-dyadic: the exact value of the double nearest to 1.4 * count
        else:
            f = f * k
        out.append([a, b, num_str(f)])
    return out


def votes_dict(case, key='votes'):
    """protocol -> the dict given to votelib (ints where integral, Fractions otherwise; `_ntype` selects Decimal / float)"""
    out = {}
    nt = case.get('_ntype')
    for a, b, s in case[key]:
        out[(NAMES.n(a), NAMES.n(b))] = typed(Fraction(s), nt)
    return out


def enc_pairwise(d, back):
    """votelib pairwise dict (keys = names) -> protocol list, insertion order preserved"""
    return [[back[a], back[b], num_str(c)] for (a, b), c in d.items()]


def dmap(case):
    return {(a, b): Fraction(s) for a, b, s in case['votes']}


def cands_of(case):
    out = []
    for a, b, _ in case['votes']:
        for c in (a, b):
            if c not in out:
                out.append(c)
    return out


# ------------------------------------------------------------------------------------------------
# textbook definitions, computed directly from d(x, y) = votes.get((x, y), 0)

def beats_fn(d):
    return lambda x, y: d.get((x, y), 0) > d.get((y, x), 0)


def condorcet_winner(d, cands):
    b = beats_fn(d)
    ws = [c for c in cands if all(b(c, o) for o in cands if o != c)]
    return ws            # at most one when there are >= 2 candidates


def _subsets(cands):
    for r in range(1, len(cands) + 1):
        for s in itertools.combinations(cands, r):
            yield frozenset(s)


def smith_set(d, cands):
    """the least non-empty S with: every member beats every outsider (brute force over subsets)"""
    b = beats_fn(d)
    cs = set(cands)
    dom = [s for s in _subsets(cands) if all(b(x, o) for x in s for o in cs - s)]
    if not dom:
        return frozenset()
    least = min(dom, key=len)
    assert all(least <= s for s in dom), 'dominating sets are nested'
    return least


def schwartz_set(d, cands):
    """union of the minimal non-empty S that no outsider beats (brute force over subsets)"""
    b = beats_fn(d)
    cs = set(cands)
    und = [s for s in _subsets(cands) if not any(b(o, x) for x in s for o in cs - s)]
    minimal = [s for s in und if not any(t < s for t in und)]
    out = frozenset()
    for s in minimal:
        out |= s
    return out


# ------------------------------------------------------------------------------------------------
# generators of pairwise dictionaries (lists of [a, b, count])

PAIR_STATES = ['x_wins', 'y_wins', 'tie', 'absent', 'rev_absent']
PAIR_STATES_EXT = PAIR_STATES + ['rev_absent_y', 'zero_one_sided', 'zero_both']


def entries_for_state(x, y, st, hi=3, lo=1):
    if st == 'x_wins':
        return [(x, y, hi), (y, x, lo)]
    if st == 'y_wins':
        return [(x, y, lo), (y, x, hi)]
    if st == 'tie':
        return [(x, y, 2), (y, x, 2)]
    if st == 'absent':
        return []
    if st == 'rev_absent':
        return [(x, y, hi)]
    if st == 'rev_absent_y':
        return [(y, x, hi)]
    if st == 'zero_one_sided':
        return [(x, y, 0)]
    if st == 'zero_both':
        return [(x, y, 0), (y, x, 0)]
    raise ValueError(st)


def from_states(m, states, rng=None, vals=None):
    """states: dict unordered pair (x<y) -> state name"""
    ent = []
    for (x, y), st in states.items():
        hi, lo = 3, 1
        if vals is not None:
            hi, lo = vals[(x, y)]
        ent += entries_for_state(x, y, st, hi, lo)
    if rng is not None:
        rng.shuffle(ent)
    return [[a, b, num_str(c)] for a, b, c in ent]


def random_pairwise(rng, m, kind):
    pairs = list(itertools.combinations(range(m), 2))
    if kind == 'dense':
        pool = ['x_wins', 'y_wins', 'x_wins', 'y_wins', 'tie']
    elif kind == 'sparse':
        pool = PAIR_STATES_EXT
    elif kind == 'tied':
        pool = ['tie', 'tie', 'absent', 'zero_both', 'x_wins']
    else:
        pool = PAIR_STATES
    states = {p: rng.choice(pool) for p in pairs}
    vals = {}
    # magnitude regime of the whole dictionary: small counts (default), or counts so large / so close that a pairwise defeat is a
    # relative margin of 10^-9 .. 10^-30 (one vote in 10^9, 2^53, 10^18, 10^30; Fractions differing in the 12th digit)
    regime = rng.choice(['small'] * 8 + ['big', 'close_fraction'])
    big = rng.choice([10 ** 9, 2 ** 53, 10 ** 18, 10 ** 30])
    for p in pairs:
        lo = rng.choice([0, 1, 1, 2, 3])
        hi = lo + rng.choice([1, 1, 2, 3])
        if regime == 'big':
            lo, hi = big + lo, big + hi
        elif regime == 'close_fraction':
            lo, hi = Fraction(1, 3) + Fraction(lo, 10 ** 12), Fraction(1, 3) + Fraction(hi, 10 ** 12)
        elif rng.random() < 0.15:
            den = rng.choice([2, 3, 4])
            lo, hi = Fraction(lo * den + rng.randint(0, den - 1), den), Fraction(hi * den + den, den)
        vals[p] = (hi, lo)
    return from_states(m, states, rng, vals)


WTYPES = ['int', 'fraction', 'bigint', 'decimal', 'float']


def random_weight(rng, wtype, base=None):
    if wtype == 'fraction':
        return Fraction(rng.randint(1, 12), rng.choice([2, 3, 4, 7]))
    if wtype == 'bigint':
        return (base or 10 ** 18) + rng.choice([0, 0, 1, 1, 2, 3])           # near and exact ties at a large magnitude
    if wtype == 'decimal':
        return Fraction(rng.randint(1, 40), rng.choice([2, 4, 5, 10])) if rng.random() < 0.6 else \
            Fraction(rng.randint(1, 5) * 10 ** 7 + rng.randint(0, 3), 10 ** 7)
    if wtype == 'float':
        return Fraction(rng.randint(1, 20), rng.choice([1, 2, 4, 8]))
    return rng.choice([1, 1, 2, 2, 3, 4, 5])


def random_profile(rng, m, n_ballots=None, wtype='int', max_shared=3):
    """ranked profile over ids 0..m-1: truncated ballots, shared ranks (sorted id lists) of up to max_shared candidates;
    weights of the numeric type wtype (the case carries it as `_wtype`)"""
    n_ballots = n_ballots or rng.randint(1, 6)
    base = rng.choice([10 ** 9, 2 ** 53, 10 ** 18, 10 ** 30])
    prof = {}
    for _ in range(n_ballots):
        k = rng.randint(1, m)
        chosen = rng.sample(range(m), k)
        ballot = []
        i = 0
        while i < len(chosen):
            if rng.random() < 0.25 and i + 1 < len(chosen):
                g = rng.randint(2, min(max_shared, len(chosen) - i))
                ballot.append(tuple(sorted(chosen[i:i + g])))
                i += g
            else:
                ballot.append(chosen[i])
                i += 1
        key = tuple(ballot)
        prof[key] = prof.get(key, 0) + random_weight(rng, wtype, base)
    return [[[list(it) if isinstance(it, tuple) else it for it in b], num_str(w)] for b, w in prof.items()]


def profile_dict(profile, wtype=None):
    """protocol profile -> votelib ranked votes (weights typed by wtype: 'decimal' -> Decimal, 'float' -> float)"""
    out = {}
    for ballot, s in profile:
        key = tuple(frozenset(NAMES.n(c) for c in it) if isinstance(it, list) else NAMES.n(it) for it in ballot)
        out[key] = typed(Fraction(s), wtype if wtype in ('decimal', 'float') else None)
    return out


def profile_cands(profile):
    out = []
    for ballot, _ in profile:
        for it in ballot:
            for c in (it if isinstance(it, list) else [it]):
                if c not in out:
                    out.append(c)
    return out


def own_pairwise(profile, unranked_at_bottom=True):
    """pairwise counts of a ranked profile from the definition (independent of votelib's converter): a ballot counts for x over y
    when it ranks x strictly above y, or — unranked candidates at the bottom — ranks x and not y"""
    cands = profile_cands(profile)
    d = {}
    for ballot, s in profile:
        w = Fraction(s)
        pos = {}
        for r, it in enumerate(ballot):
            for c in (it if isinstance(it, list) else [it]):
                pos[c] = r
        for x in pos:
            for y in cands:
                if y == x:
                    continue
                if (y in pos and pos[x] < pos[y]) or (y not in pos and unranked_at_bottom):
                    d[(x, y)] = d.get((x, y), 0) + w
    return d


def profile_features(profile):
    tags = []
    cands = profile_cands(profile)
    if len(cands) >= 6:
        tags.append('cands_6_7')
    shared = [it for b, _ in profile for it in b if isinstance(it, list)]
    if any(len(it) >= 3 for it in shared):
        tags.append('shared3')
    single = {it for b, _ in profile for it in b if not isinstance(it, list)}
    if any(c not in single for c in cands):
        tags.append('only_in_shared')
    if any(b and isinstance(b[0], list) for b, _ in profile):
        tags.append('shared_first')
    if any(b and isinstance(b[0], list) and len(b[0]) >= 3 for b, _ in profile):
        tags.append('shared3_first')
    d = own_pairwise(profile)
    pc = sorted({c for p in d for c in p})
    if len(pc) >= 4 and len(smith_set(d, pc)) >= 4 and not condorcet_winner(d, pc):
        tags.append('long_cycle')
    return tags


def profile_to_pairwise(profile, unranked_at_bottom):
    """derive the pairwise dictionary with the REAL converter; insertion order preserved"""
    import votelib.convert
    d = votelib.convert.RankedToCondorcetVotes(unranked_at_bottom=unranked_at_bottom).convert(profile_dict(profile))
    return [[NAMES.i(a), NAMES.i(b), num_str(Fraction(c))] for (a, b), c in d.items()]


def exhaustive_pairwise(m, state_names):
    pairs = list(itertools.combinations(range(m), 2))
    for combo in itertools.product(state_names, repeat=len(pairs)):
        yield from_states(m, dict(zip(pairs, combo)))


def features(case):
    """tags describing which anchored situations a pairwise case exhibits"""
    d = dmap(case)
    cands = cands_of(case)
    b = beats_fn(d)
    tags = []
    if len(cands) >= 2 and condorcet_winner(d, cands):
        tags.append('has_cw')
    pairs = list(itertools.combinations(cands, 2))
    if any(((x, y) in d) != ((y, x) in d) for x, y in pairs):
        tags.append('missing_reverse')
    if any((x, y) not in d and (y, x) not in d for x, y in pairs):
        tags.append('missing_pair')
    if pairs and all(not b(x, y) and not b(y, x) for x, y in pairs):
        tags.append('all_tied')
    if any((x, y) in d and (y, x) in d and d[(x, y)] == d[(y, x)] for x, y in pairs):
        tags.append('fully_tied_pair')
    unbeaten = [c for c in cands if not any(b(o, c) for o in cands if o != c)]
    if len(unbeaten) >= 2:
        tags.append('mutually_tied_unbeaten')
    if any(c for c in cands if not any((o, c) in d for o in cands)):
        tags.append('sparse_never_loser')
    if len(cands) >= 3 and len(smith_set(d, cands)) >= 3:
        tags.append('cycle')
    return tags


# ------------------------------------------------------------------------------------------------
# "ranks by value, boundary ties reported" stated directly (the C09 clause list), used for the
# defining-computation clauses of C05

def nbest_violations(vals, n, res):
    """vals: dict id -> comparable value; res: protocol selection (ids / {'tie': [...]})"""
    out = []
    m = len(vals)
    cands = [x for x in res if not isinstance(x, dict)]
    ties = [x for x in res if isinstance(x, dict)]
    if any(c not in vals for c in cands):
        return [('foreign', f'{res}')]
    seq = [vals[x] for x in cands]
    if any(a < b for a, b in zip(seq, seq[1:])):
        out.append(('order', 'not non-increasing'))
    if len(set(cands)) != len(cands):
        out.append(('duplicate', 'candidate listed twice'))
    if m <= n:
        if sorted(cands) != sorted(vals) or ties:
            out.append(('not_everyone', 'no more candidates than seats: all must be listed'))
        return out
    srt = sorted(vals.values(), reverse=True)
    tau = srt[n - 1]
    above = [c for c, v in vals.items() if v > tau]
    level = sorted(c for c, v in vals.items() if v == tau)
    if len(res) != n:
        out.append(('length', f'{len(res)} places for {n} seats'))
    if not set(above) <= set(cands):
        out.append(('above_missing', 'a candidate strictly above the n-th value is not listed'))
    if len(above) + len(level) <= n:
        if not set(level) <= set(cands):
            out.append(('level_missing', 'level set fits but is not fully listed'))
        if ties:
            out.append(('spurious_tie', 'tie reported although the level set fits'))
    else:
        if set(level) & set(cands):
            out.append(('tie_resolved_silently', 'level candidate listed although the level set does not fit'))
        if len(ties) != n - len(above) or any(sorted(t['tie']) != level for t in ties):
            out.append(('tie_shape', f'expected {n - len(above)} ties naming {level}'))
    if any(vals[c] < tau for c in cands):
        out.append(('lower_listed', 'a candidate below the n-th value is listed'))
    return out
