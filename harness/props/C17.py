"""C17 — monotone rules stay monotone: more support or more seats never hurts.

Op `pair_eval`: a base election and a perturbation of it, both evaluated by the real votelib.

  rule 'ha'           HighestAverages: kind 'house' (n -> n+1) or 'votes' (one party's votes raised)
  rule 'plurality'    simple votes + Plurality: kinds 'switch' (one vote moved from x to w), 'new'
  positional rules    PreConverted(RankedToPositionalVotes(scorer), Plurality): kinds 'lift', 'new'
  'approval'          PreConverted(ApprovalToSimpleVotes(), Plurality): kinds 'approve', 'new'
  'score_sum'         ScoreVoting('sum', unscored_value=None|0|1|2|5|'min'): kinds 'raise', 'new'
  'score_gen'         ScoreVoting('sum'|'mean'|'median', unscored_value=None|number|'min'|'max'|'mean'|'median'|a lambda): kind 'raise'
  'score_trunc'       ScoreVoting('sum'|'mean', unscored_value, min_count, truncation=count|fraction): kind 'raise' only
                      (a new ballot changes the trimming cutoff and every mean: not an improvement of w alone)
  'bucklin'           PreferenceAddition(): kinds 'lift', 'new' (bullet ballot)
  'bucklin_whole'     PreferenceAddition(split_equal_rankings=False): the same
  'pa_list', 'pa_list_whole', 'pa_call', 'pa_call_whole'
                      PreferenceAddition(coefficients=<non-increasing list> | lambda i: 1/(i+1)): kinds 'lift', 'new' (bullet)
  'copeland', 'minimax_wv', 'minimax_margins', 'schulze'
                      PreConverted(RankedToCondorcetVotes(), ...): kinds 'lift', 'new' (bullet ballot), 'new_full'

Reading (DESIGN 7/C17).  A single ballot improvement replaces ONE unit of weight of one ballot by the same
ballot on which the winner w is taken out and re-inserted as a rank of its own at a position not below its
old one ('lift'; an unranked w counts as ranked below everybody); for approval w is added to the approved set;
for scores w's score is raised (or a non-negative score is given where there was none).  A new ballot has w
alone at the top; its remaining content is arbitrary (among the candidates of the election).  For the additive
rules that is kind 'new'.  For Bucklin, Copeland, minimax and Schulze both readings are checked: kind 'new' is the
bullet ballot (proved harmless for all of them), kind 'new_full' is w followed by a strict order of some other
candidates.  'new_full' holds for minimax with margins (proved: minimax_monotone_new_full) and FAILS, as a property
of the voting rule itself, for Bucklin (both variants), Copeland, minimax with winning votes and Schulze: one open
known finding per rule (signature '<rule>:winner_monotone:new_full', Lean witness <rule>_new_full_witness); a failing
lift or bullet ballot of the same rule has another signature ('...:lift', '...:new') and stays a VIOLATION.  A further upward
move, kind 'join': w leaves its place and joins the rank directly above it (a tie with its former superior); it is issued for
every ranked rule (SequenceBased: convex sequences only), fails at rule level only for PreferenceAddition with UNSPLIT shared ranks
(three open known findings '<rule>:winner_monotone:join'); a result in which nobody is elected any more has the clause
'winner_unelected:<kind>' and is never masked.  Tie-free base: the one-seat result
is [w] and, for Copeland / minimax / Schulze, w is strictly first in the rule's own relation (recomputed here
from the ballots).  Divisor rules: no tie-freeness; seats inside an unresolved Tie are counted for nobody.
"""
import itertools
import hashlib
import json
from fractions import Fraction
from common import *   # noqa

ID = 'C17'
NAMESPACE = 'VL.C17'
LEAN_MODULES = ['VotelibProofs.Props.C17']
GEN_MODULES = ['Divisor', 'RankScore']
REQUIRED = ['ha_house_monotone', 'ha_house_monotone_general', 'ha_vote_monotone', 'ha_vote_monotone_general',
            'additive_winner_monotone', 'additive_winner_monotone_new', 'plurality_monotone_switch', 'plurality_monotone_new',
            'scorer_monotone', 'positional_monotone_lift', 'positional_monotone_new', 'approval_monotone_approve',
            'approval_monotone_new', 'approval_split_monotone_approve', 'approval_split_monotone_new',
            'score_sum_monotone_raise', 'score_sum_monotone_new',
            'score_sum_unscored_monotone_raise', 'score_sum_unscored_monotone_new',
            'bucklin_monotone_lift', 'bucklin_monotone_bullet', 'bucklin_default_monotone_lift',
            'bucklin_default_monotone_bullet', 'copeland_monotone', 'minimax_monotone',
            'copeland_monotone_lift', 'copeland_monotone_bullet', 'minimax_monotone_lift', 'minimax_monotone_bullet',
            'schulze_monotone', 'schulze_monotone_lift', 'schulze_monotone_bullet',
            'coef_list_ok', 'preference_addition_monotone_lift', 'preference_addition_monotone_bullet',
            'preference_addition_default_monotone_lift', 'minimax_monotone_added', 'minimax_monotone_new_full', 'bucklin_whole_join_witness', 'preference_addition_whole_join_witness', 'bucklin_new_full_witness', 'bucklin_default_new_full_witness',
            'copeland_new_full_witness', 'minimax_wv_new_full_witness', 'schulze_new_full_witness']
UNPROVED = ['score_gen_monotone_raise (ScoreVoting with function sum / mean / median and a named or callable fill-in value: modelled as '
            'evalScoreGen with multiset semantics, checked by correspondence and oracle on every raise)',
            '*_monotone_join (the move "w joins the rank directly above it", Lean `joinAbove`): generated for every ranked rule, '
            'checked by correspondence and oracle; holds on the implementation for the positional rules (SequenceBased: convex sequences '
            'only), Copeland, minimax, Schulze and PreferenceAddition with split shared ranks; refuted by witness theorems for unsplit '
            'shared ranks; no positive theorem yet',
            'score_truncated_monotone_raise (ScoreVoting with truncation / min_count / mean: evaluated by the {score: count} table '
            'model of C12, checked by correspondence and oracle on every raise; the theorems cover the plain sum with any '
            'numeric unscored value)',
            "score_sum_monotone for unscored_value='min' (modelled through C12's {score: count} table model, checked by "
            'correspondence and oracle; the theorems cover unscored_value None and every numeric value)',
            'bucklin_default_monotone / preference_addition_default_monotone on profiles WITH shared ranks (the even split over the compatible strict orders is '
            'modelled and checked by the correspondence and the oracle; the theorems cover split_equal_rankings=False and, for '
            'the default, profiles without shared ranks)']
NAMES = Names(prefix='c')
PNAMES = Names(prefix='p')
DIVISORS = ['d_hondt', 'sainte_lague', 'imperiali', 'danish', 'macau']
POSITIONAL = ['borda', 'dowdall', 'geometric', 'modified_borda', 'fixed_top', 'sequence']
BULLET_RULES = ['bucklin', 'bucklin_whole', 'copeland', 'minimax_wv', 'minimax_margins', 'minimax_pwo', 'schulze']
# rules whose evaluation accepts Decimal weights (Fraction scorers / Fraction(sum, 2) refuse Decimal)
DEC_OK = ['plurality', 'approval', 'borda', 'modified_borda', 'fixed_top', 'copeland', 'minimax_wv', 'minimax_margins', 'minimax_pwo',
          'schulze']
# PreferenceAddition with a coefficient list (last entry beyond its end) / a callable: the Bucklin family
PA_RULES = ['pa_list', 'pa_list_whole', 'pa_call', 'pa_call_whole']
PA_WHOLE = ['pa_list_whole', 'pa_call_whole']
PA_LISTS = [['1', '1/2', '1/3', '1/4'], ['1', '1/2', '1/3'], ['1', '1', '1/2'], ['1'], ['1', '1/2'], ['2', '1', '1', '1/2'], ['1', '0'], ['1', '3/4', '1/2', '1/4']]
RANKED_RULES = POSITIONAL + BULLET_RULES + PA_RULES
ALL_RULES = ['ha', 'plurality'] + POSITIONAL + ['approval', 'score_sum', 'score_trunc', 'score_gen'] + BULLET_RULES


# ------------------------------------------------------------------------------------------------
# protocol <-> python objects

def enc_item(it):
    return {'set': sorted(it)} if isinstance(it, (set, frozenset)) else it


def enc_ballot(b):
    return [enc_item(it) for it in b]


def dec_item(j, names):
    return frozenset(names.n(c) for c in j['set']) if isinstance(j, dict) else names.n(j)


def dec_ballot(j, names):
    return tuple(dec_item(it, names) for it in j)


def py_profile(rule, prof, wtype=None, stype=None):
    """protocol profile -> the dict votelib takes (insertion order = protocol order); wtype / stype: numeric type of the
    weights / of the scores"""
    out = {}
    if rule == 'plurality':
        for c, s in prof:
            out[NAMES.n(c)] = _num(s, wtype)
    elif rule == 'approval':
        for b, s in prof:
            out[frozenset(NAMES.n(c) for c in b['set'])] = _num(s, wtype)
    elif rule in ('score_sum', 'score_trunc', 'score_gen'):
        for b, s in prof:
            out[frozenset((NAMES.n(c), _num(x, stype)) for c, x in b['set'])] = _num(s)
    else:
        for b, s in prof:
            out[dec_ballot(b, NAMES)] = _num(s, wtype)
    return out


def _num(s, typ=None):
    """protocol number -> int / Fraction, or (typ 'frac' / 'dec') a Fraction / Decimal throughout"""
    f = Fraction(s)
    if typ == 'frac':
        return f
    if typ == 'dec':
        from decimal import Decimal, localcontext
        with localcontext() as ctx:
            ctx.prec = 80
            d = Decimal(f.numerator) / Decimal(f.denominator)
        if Fraction(d) == f:
            return d
        return f
    return int(f) if f.denominator == 1 else f


# ------------------------------------------------------------------------------------------------
# the moves (harness side; the Lean model has its own `lift` / `replaceUnit`, compared on every case)

def item_has(it, w):
    return w in it['set'] if isinstance(it, dict) else it == w


def pos_of(ballot, w):
    for i, it in enumerate(ballot):
        if item_has(it, w):
            return i
    return None


def strip(ballot, w):
    out = []
    for it in ballot:
        if isinstance(it, dict):
            if w in it['set']:
                rest = [c for c in it['set'] if c != w]
                if len(rest) == 1:
                    out.append(rest[0])
                elif len(rest) > 1:
                    out.append({'set': rest})
            else:
                out.append(it)
        elif it != w:
            out.append(it)
    return out


def lift(ballot, w, i):
    s = strip(ballot, w)
    return s[:i] + [w] + s[i:]


def join_above(ballot, w):
    """w leaves its place and JOINS the place directly above it (a tie with the former superior); None when w is
    unranked or stands first"""
    p = pos_of(ballot, w)
    if p is None or p == 0:
        return None
    out = [it for it in ballot[:p - 1]]
    sup = ballot[p - 1]
    out.append({'set': sorted((sup['set'] if isinstance(sup, dict) else [sup]) + [w])})
    out += strip([ballot[p]], w)
    out += ballot[p + 1:]
    return out


def lift_positions(ballot, w):
    """admissible target positions (not below the old place), excluding the no-op"""
    p = pos_of(ballot, w)
    top = len(ballot) if p is None else p
    return [i for i in range(top + 1) if lift(ballot, w, i) != ballot]


def replace_unit(prof, bi, newb):
    """one unit of weight of ballot bi becomes ballot newb"""
    out = [[b, s] for b, s in prof]
    k = Fraction(out[bi][1]) - 1
    if k == 0:
        del out[bi]
    else:
        out[bi][1] = num_str(k)
    return add_ballot(out, newb)


def add_ballot(prof, newb):
    out = [[b, s] for b, s in prof]
    for e in out:
        if e[0] == newb:
            e[1] = num_str(Fraction(e[1]) + 1)
            return out
    out.append([newb, '1'])
    return out


# ------------------------------------------------------------------------------------------------
# reference computations (used by the generator to pick w and by the oracle for the strictness premise)

def ballot_cands(b):
    out = []
    for it in b:
        out.extend(it['set'] if isinstance(it, dict) else [it])
    return out


def all_cands(prof):
    out = []
    for b, _ in prof:
        for c in ballot_cands(b):
            if c not in out:
                out.append(c)
    return out


def pairwise(prof):
    """d[x][y] = weight of the ballots ranking x above y (unranked at the bottom)"""
    cs = all_cands(prof)
    d = {x: {y: Fraction(0) for y in cs} for x in cs}
    for b, s in prof:
        k = Fraction(s)
        seen = []
        for i, it in enumerate(b):
            here = it['set'] if isinstance(it, dict) else [it]
            below = [c for it2 in b[i + 1:] for c in (it2['set'] if isinstance(it2, dict) else [it2])]
            seen.extend(here)
            for x in here:
                for y in below:
                    d[x][y] += k
        ranked = set(ballot_cands(b))
        for x in ranked:
            for y in cs:
                if y not in ranked:
                    d[x][y] += k
    return cs, d


def copeland_strict(prof, w):
    cs, d = pairwise(prof)
    if w not in cs:
        return False
    sc = {x: sum(1 for y in cs if y != x and d[x][y] > d[y][x]) - sum(1 for y in cs if y != x and d[y][x] > d[x][y])
          for x in cs}
    return all(sc[w] > sc[y] for y in cs if y != w)


def minimax_strict(prof, w, scorer):
    cs, d = pairwise(prof)
    if w not in cs:
        return False

    def worst(x):
        # every ordered pair of candidates is scored, a pair nobody ranked counting zero against zero (fix 39ed002)
        vals = []
        for y in cs:
            if y == x:
                continue
            if scorer == 'wv':
                vals.append(d[y][x] if d[y][x] > d[x][y] else Fraction(0))
            elif scorer == 'pwo':
                vals.append(d[y][x])
            else:
                vals.append(d[y][x] - d[x][y])
        return max(vals) if vals else None      # None = no opponent at all (-inf)

    ww = worst(w)
    for y in cs:
        if y == w:
            continue
        wy = worst(y)
        if wy is None:
            return False
        if ww is not None and not ww < wy:
            return False
    return True


def beatpaths(prof):
    cs, d = pairwise(prof)
    p = {x: {y: (d[x][y] if d[x][y] > d[y][x] else Fraction(0)) for y in cs} for x in cs}
    for k in cs:
        for i in cs:
            if i == k:
                continue
            for j in cs:
                if j == i or j == k:
                    continue
                p[i][j] = max(p[i][j], min(p[i][k], p[k][j]))
    return cs, p


def schulze_strict(prof, w):
    cs, p = beatpaths(prof)
    if w not in cs:
        return False
    return all(p[w][y] > p[y][w] for y in cs if y != w)


def scorer_list(rule, param, n_cand, n_ranked):
    if rule == 'borda':
        if n_ranked > n_cand:
            return None
        return [Fraction(n_cand + param - 1 - r) for r in range(n_cand)][:n_ranked]
    if rule == 'dowdall':
        return [Fraction(1, r + 1) for r in range(n_ranked)]
    if rule == 'geometric':
        return [Fraction(1, param ** r) for r in range(n_ranked)]
    if rule == 'modified_borda':
        return [Fraction(n_ranked - r) for r in range(n_ranked)]
    if rule == 'fixed_top':
        return [Fraction(max(param - r, 0)) for r in range(n_ranked)]
    if rule == 'sequence':
        seq = [Fraction(x) for x in param]
        return (seq + [Fraction(0)] * n_ranked)[:n_ranked]
    raise ValueError(rule)


def _score_fill(prof, c, param):
    """what a ballot not scoring c contributes to c: 0 (None), the constant, or the minimum of c's own scores"""
    if param is None:
        return Fraction(0)
    if param == 'min':
        return min(Fraction(x) for b, _ in prof for c2, x in b['set'] if c2 == c)
    return Fraction(param)


def _list_fn(name, vals):
    """the named function on a non-empty list of Fractions, from its textbook definition"""
    v = sorted(vals)
    if name == 'sum':
        return sum(v, Fraction(0))
    if name == 'mean':
        return sum(v, Fraction(0)) / len(v)
    if name == 'median':
        k = len(v)
        return v[k // 2] if k % 2 else (v[k // 2 - 1] + v[k // 2]) / 2
    if name == 'min':
        return v[0]
    if name == 'max':
        return v[-1]
    if name == 'midrange':
        return (v[0] + v[-1]) / 2
    return Fraction(name)


def _cand_scores(prof, c):
    vals, absent = [], 0
    for b, s in prof:
        d = dict((c2, Fraction(x)) for c2, x in b['set'])
        if c in d:
            vals += [d[c]] * int(Fraction(s))
        else:
            absent += int(Fraction(s))
    return vals, absent


def ref_score_gen(param, prof):
    """function (sum / mean / median) of every candidate's multiset of scores; with a fill-in the voters who did not score
    the candidate count as the number, or as the named function (min, max, mean, median, midrange) of that multiset"""
    cs = []
    for b, _ in prof:
        for c, _ in b['set']:
            if c not in cs:
                cs.append(c)
    out = {}
    for c in cs:
        vals, absent = _cand_scores(prof, c)
        if param['unscored'] is not None:
            vals = vals + [_list_fn(param['unscored'], vals)] * absent
        out[c] = _list_fn(param['fn'], vals)
    return out


def ref_score_trunc(param, prof):
    """trimmed sum / trimmed mean of every candidate, from the definition: the scores of a candidate as a multiset (a
    ballot that does not score it counts as the unscored value, if one is set), fewer than min_count scores -> min_count
    times the bottom value 0, the `cutoff` lowest and the `cutoff` highest removed, then sum or exact mean"""
    n_votes = sum(Fraction(s) for _, s in prof)
    cs = []
    for b, _ in prof:
        for c, _ in b['set']:
            if c not in cs:
                cs.append(c)
    tr = param['trunc']
    out = {}
    for c in cs:
        vals = []
        for b, s in prof:
            d = dict((c2, Fraction(x)) for c2, x in b['set'])
            if c in d:
                vals += [d[c]] * int(Fraction(s))
        n_scores = len(vals)
        if n_scores < param['min_count']:
            vals = [Fraction(0)] * param['min_count']
        else:
            if param['unscored'] is not None:
                vals += [Fraction(param['unscored'])] * int(n_votes - n_scores)
            if tr is not None:
                cutoff = tr['count'] if 'count' in tr else int((n_votes if n_votes else n_scores) * Fraction(tr['frac']))
                vals.sort()
                vals = vals[cutoff:len(vals) - cutoff] if cutoff > 0 and 2 * cutoff <= len(vals) else ([] if cutoff > 0 else vals)
        if param['fn'] == 'sum':
            out[c] = sum(vals, Fraction(0))
        else:
            if not vals:
                return None
            out[c] = sum(vals, Fraction(0)) / len(vals)
    return out


def ref_scores(rule, param, prof):
    """reference totals of the additive rules: candidate id -> Fraction (None when the rule refuses)"""
    sc = {}
    if rule == 'plurality':
        return {c: Fraction(s) for c, s in prof}
    if rule == 'approval':
        for b, s in prof:
            if param and not b['set']:
                return None                 # split=True divides by the size of the empty ballot
            for c in b['set']:
                sc[c] = sc.get(c, 0) + (Fraction(s) / len(b['set']) if param else Fraction(s))
        return sc
    if rule == 'score_trunc':
        return ref_score_trunc(param, prof)
    if rule == 'score_gen':
        return ref_score_gen(param, prof)
    if rule == 'score_sum':
        for b, s in prof:
            for c, x in b['set']:
                sc[c] = sc.get(c, 0) + Fraction(s) * Fraction(x)
        if param is not None:
            # a ballot that does not score a candidate counts as the unscored value for it
            for c in sc:
                fill = _score_fill(prof, c, param)
                for b, s in prof:
                    if all(c2 != c for c2, _ in b['set']):
                        sc[c] += Fraction(s) * fill
        return sc
    cs = all_cands(prof)
    sc = {c: Fraction(0) for c in cs}
    for b, s in prof:
        sl = scorer_list(rule, param, len(cs), len(b))
        if sl is None:
            return None
        for r, it in enumerate(b):
            for c in (it['set'] if isinstance(it, dict) else [it]):
                sc[c] += sl[r] * Fraction(s)
    return sc


def _linearize(b):
    parts = []
    for it in b:
        if isinstance(it, dict):
            parts.append([list(x) for x in itertools.permutations(it['set'])])
        else:
            parts.append([[it]])
    return [sum(x, []) for x in itertools.product(*parts)]


def pa_coef(rule, param):
    """the coefficient of preference index i: 1 (Bucklin), the list entry or its LAST entry beyond the end, or 1/(i+1)"""
    if rule in ('pa_list', 'pa_list_whole'):
        seq = [Fraction(x) for x in param]
        return lambda i: seq[i] if i < len(seq) else seq[-1]
    if rule in ('pa_call', 'pa_call_whole'):
        return lambda i: Fraction(1, i + 1)
    return lambda i: Fraction(1)


def ref_bucklin(prof, split=True, coef=None):
    """sole winner of Bucklin, or None.  split: a ballot with shared ranks is spread evenly over the strict orders
    compatible with it; otherwise every member of a shared rank receives the whole weight"""
    if not prof:
        return None
    if split:
        p2 = []
        for b, s in prof:
            lins = _linearize(b)
            for l in lins:
                for e in p2:
                    if e[0] == l:
                        e[1] += Fraction(s) / len(lins)
                        break
                else:
                    p2.append([l, Fraction(s) / len(lins)])
        prof = p2
    quota = sum(Fraction(s) for _, s in prof) / 2
    tot = {}
    for r in range(max(len(b) for b, _ in prof)):
        for b, s in prof:
            if r < len(b):
                for c in (b[r]['set'] if isinstance(b[r], dict) else [b[r]]):
                    tot[c] = tot.get(c, 0) + Fraction(s) * (coef(r) if coef else 1)
        over = {c: v for c, v in tot.items() if v > quota}
        if over:
            m = max(over.values())
            top = [c for c, v in over.items() if v == m]
            return top[0] if len(top) == 1 else None
    return None


def ref_winner(rule, param, prof):
    """the sole winner according to the reference computation, or None"""
    if rule == 'bucklin':
        return ref_bucklin(prof, True)
    if rule == 'bucklin_whole':
        return ref_bucklin(prof, False)
    if rule in PA_RULES:
        return ref_bucklin(prof, rule not in PA_WHOLE, pa_coef(rule, param))
    if rule in ('copeland', 'minimax_wv', 'minimax_margins', 'minimax_pwo', 'schulze'):
        for w in all_cands(prof):
            if strict_first(rule, prof, w):
                return w
        return None
    sc = ref_scores(rule, param, prof)
    if not sc:
        return None
    m = max(sc.values())
    top = [c for c, v in sc.items() if v == m]
    return top[0] if len(top) == 1 else None


def strict_first(rule, prof, w):
    if rule == 'copeland':
        return copeland_strict(prof, w)
    if rule == 'minimax_wv':
        return minimax_strict(prof, w, 'wv')
    if rule == 'minimax_margins':
        return minimax_strict(prof, w, 'margins')
    if rule == 'minimax_pwo':
        return minimax_strict(prof, w, 'pwo')
    if rule == 'schulze':
        return schulze_strict(prof, w)
    return True


# ------------------------------------------------------------------------------------------------
# implementation side

def _ha_div(name, first):
    import votelib.component.divisor as vd
    f = vd.get(name)
    if first is not None:
        return vd.modified_first_coef(f, Fraction(first))
    return f


def _ha_evaluator(cfg):
    import votelib.evaluate.proportional as vp
    return vp.HighestAverages(_ha_div(cfg['divisor'], cfg['first_coef']))


def _ha_eval(cfg, ev=None):
    votes = {PNAMES.n(i): _num(s) for i, s in cfg['votes']}
    prev = {PNAMES.n(i): k for i, k in cfg['prev']}
    caps = {PNAMES.n(i): k for i, k in cfg['max']}
    if ev is None:
        ev = _ha_evaluator(cfg)
    return guarded(lambda: enc_distribution(ev.evaluate(votes, cfg['n'], prev_gains=prev, max_seats=caps), PNAMES))


def _evaluator(rule, param, stype=None):
    import votelib.evaluate.core as vcore
    import votelib.convert as vconv
    import votelib.component.rankscore as rs
    import votelib.evaluate.condorcet as vcond
    import votelib.evaluate.sequential as vseq
    import votelib.evaluate.cardinal as vcard
    if rule == 'plurality':
        return vcore.Plurality()
    if rule in POSITIONAL:
        scorer = {'borda': lambda: rs.Borda(param), 'dowdall': rs.Dowdall, 'geometric': lambda: rs.Geometric(param),
                  'modified_borda': rs.ModifiedBorda, 'fixed_top': lambda: rs.FixedTop(param),
                  'sequence': lambda: rs.SequenceBased([_num(x) for x in param])}[rule]()
        return vcore.PreConverted(vconv.RankedToPositionalVotes(scorer), vcore.Plurality())
    if rule == 'approval':
        return vcore.PreConverted(vconv.ApprovalToSimpleVotes(split=bool(param)), vcore.Plurality())
    if rule == 'score_sum':
        un = None if param is None else ('min' if param == 'min' else _num(param, stype))
        return vcard.ScoreVoting('sum', unscored_value=un)
    if rule == 'score_gen':
        un = param['unscored']
        if un == 'midrange':
            un = lambda xs: Fraction(min(xs) + max(xs), 2)      # noqa: E731  (an arbitrary callable)
        elif un is not None and un not in ('min', 'max', 'mean', 'median'):
            un = _num(un, stype)
        return vcard.ScoreVoting(param['fn'], unscored_value=un)
    if rule == 'score_trunc':
        tr = param['trunc']
        tr = 0 if tr is None else (tr['count'] if 'count' in tr else Fraction(tr['frac']))
        return vcard.ScoreVoting(param['fn'], unscored_value=None if param['unscored'] is None else _num(param['unscored']),
                                 min_count=param['min_count'], truncation=tr, bottom_value=0)
    if rule == 'bucklin':
        return vseq.PreferenceAddition()
    if rule == 'bucklin_whole':
        return vseq.PreferenceAddition(split_equal_rankings=False)
    if rule == 'pa_list':
        return vseq.PreferenceAddition(coefficients=[_num(x) for x in param])
    if rule == 'pa_list_whole':
        return vseq.PreferenceAddition(coefficients=[_num(x) for x in param], split_equal_rankings=False)
    if rule == 'pa_call':
        return vseq.PreferenceAddition(coefficients=lambda i: Fraction(1, i + 1))
    if rule == 'pa_call_whole':
        return vseq.PreferenceAddition(coefficients=lambda i: Fraction(1, i + 1), split_equal_rankings=False)
    conv = vconv.RankedToCondorcetVotes()
    if rule == 'copeland':
        return vcore.PreConverted(conv, vcond.Copeland(second_order=bool(param)))
    if rule == 'minimax_wv':
        return vcore.PreConverted(conv, vcond.MinimaxCondorcet('winning_votes'))
    if rule == 'minimax_margins':
        return vcore.PreConverted(conv, vcond.MinimaxCondorcet('margins'))
    if rule == 'minimax_pwo':
        return vcore.PreConverted(conv, vcond.MinimaxCondorcet('pairwise_opposition'))
    if rule == 'schulze':
        return vcore.PreConverted(conv, vcond.Schulze())
    raise ValueError(rule)


def _eval(rule, param, prof, wtype=None, stype=None, ev=None):
    votes = py_profile(rule, prof, wtype, stype)
    if ev is None:
        ev = _evaluator(rule, param, stype)
    r = guarded(lambda: enc_selection(ev.evaluate(votes, 1), NAMES))
    if r == {'err': 'Timeout'}:
        # the 5 s alarm fired on a loaded machine: these evaluations take milliseconds, so ask once more with a long limit
        r = guarded(lambda: enc_selection(ev.evaluate(votes, 1), NAMES), 60)
    return r


def impl(case):
    """`_obj`: 'fresh' = a new evaluator object per election; 'shared' = ONE object evaluates the base and then the
    perturbed election; 'shared_rev' = one object, perturbed election first (state carried between calls)"""
    obj = case.get('_obj', 'fresh')
    if case['rule'] == 'ha':
        ev = _ha_evaluator(case['base']) if obj != 'fresh' else None
        if obj == 'shared_rev':
            p = _ha_eval(case['pert'], ev)
            return {'base': _ha_eval(case['base'], ev), 'pert': p}
        return {'base': _ha_eval(case['base'], ev), 'pert': _ha_eval(case['pert'], ev)}
    rule, param, wt, st = case['rule'], case.get('param'), case.get('_wtype'), case.get('_stype')
    ev = _evaluator(rule, param, st) if obj != 'fresh' else None
    if obj == 'shared_rev':
        p = _eval(rule, param, case['pert'], wt, st, ev)
        return {'base': _eval(rule, param, case['base'], wt, st, ev), 'pert': p}
    return {'base': _eval(rule, param, case['base'], wt, st, ev), 'pert': _eval(rule, param, case['pert'], wt, st, ev)}


# ------------------------------------------------------------------------------------------------
# oracle: the property on the implementation's pair of results

def _indiv(obs):
    return {k: v for k, v in obs if not isinstance(k, dict)}


def oracle(case, obs):
    rule = case['rule']
    b, p = obs['base'], obs['pert']
    out = []
    if rule == 'ha':
        if isinstance(b, dict):
            return []                     # the base election is refused (empty pool): nothing to compare
        if isinstance(p, dict):
            return [('ha_perturbed_refused', f'base {b} but perturbed election raises {p.get("err")}')]
        sb, sp = _indiv(b), _indiv(p)
        if case['kind'] == 'house':
            for c, k in sb.items():
                if sp.get(c, 0) < k:
                    out.append(('house_monotone', f'party {c}: {k} seats of {case["base"]["n"]}, '
                                                  f'{sp.get(c, 0)} of {case["pert"]["n"]}'))
        else:
            c = case['party']
            if sp.get(c, 0) < sb.get(c, 0):
                out.append(('vote_monotone', f'party {c}: {sb.get(c, 0)} seats before, {sp.get(c, 0)} with more votes'))
        return out
    w = case['w']
    if b != [w]:
        return []                         # not a sole winner: premise false
    if not strict_first(rule, case['base'], w):
        return []                         # Copeland / minimax / Schulze: w not strictly first in the rule's relation
    if p != [w]:
        if p == [] or isinstance(p, dict):
            # nobody is elected any more (or the evaluation is refused): never a property of a voting rule
            out.append((f'winner_unelected:{case["kind"]}', f'{rule}: base elects [{w}], after {case["kind"]} the result is {p}'))
        else:
            out.append((f'winner_monotone:{case["kind"]}', f'{rule}: base elects [{w}], after {case["kind"]} the result is {p}'))
    return out


def signature(case, clause):
    return f"{case['rule']}:{clause}"


def nontrivial(case, obs):
    if case['rule'] == 'ha':
        return not isinstance(obs['base'], dict) and len(case['base']['votes']) >= 2
    return obs['base'] == [case['w']] and len(case['base']) >= 1


# ------------------------------------------------------------------------------------------------
# model side

def model_line(case):
    return strip_case(case)


def _has_shared(case):
    return any(isinstance(it, dict) for key in ('base', 'pert') for b, _ in case[key] for it in b)


def _canon_prof(prof):
    return sorted(json.dumps([b, str(Fraction(s))], sort_keys=True) for b, s in prof)


def compare(case, iobs, mobs):
    if not isinstance(mobs, dict) or 'base' not in mobs:
        return f'model answer malformed: {json.dumps(mobs)[:200]}'
    if case['rule'] == 'ha':
        a = {k: canon(v) for k, v in iobs.items()}
        b = {k: (canon_dist(mobs[k]) if not isinstance(mobs[k], dict) else mobs[k]) for k in ('base', 'pert')}
        if a != b:
            return f'impl={json.dumps(a)} model={json.dumps(b)}'
        return None
    a = canon(iobs)
    b = canon({'base': mobs['base'], 'pert': mobs['pert']})
    if a != b:
        return f'impl={json.dumps(a)} model={json.dumps(b)}'
    # the model applies the move itself: its perturbed profile must be the one the harness built
    moved = mobs.get('moved')
    if moved is not None:
        if case['rule'] == 'plurality':
            if sorted((c, Fraction(s)) for c, s in moved) != sorted((c, Fraction(s)) for c, s in case['pert']):
                return f'move: model {moved} harness {case["pert"]}'
        elif _canon_prof(canon(moved)) != _canon_prof(canon(case['pert'])):
            return f'move: model {json.dumps(moved)} harness {json.dumps(case["pert"])}'
    elif case.get('move') is not None:
        return 'model did not apply the move'
    return None


# ------------------------------------------------------------------------------------------------
# generator

def _rand_ballot(rng, m, shared_p=0.0, min_len=1):
    cs = list(range(m))
    rng.shuffle(cs)
    k = rng.randint(min_len, m)
    cs = cs[:k]
    if rng.random() < shared_p and k >= 2:
        out = []
        i = 0
        while i < k:
            if i + 1 < k and rng.random() < 0.4:
                g = rng.randint(2, min(3, k - i))
                out.append({'set': sorted(cs[i:i + g])})
                i += g
            else:
                out.append(cs[i])
                i += 1
        return out
    return cs


def _rand_ranked(rng, m, shared_p):
    nb = rng.randint(1, 5)
    prof = []
    for _ in range(nb):
        b = _rand_ballot(rng, m, shared_p)
        if not any(b == x for x, _ in prof):
            prof.append([b, rng.choice(['1', '1', '1', '2', '2', '3', '4', '3/2', '5/2', '1000001'])])
    return prof


def _param(rng, rule):
    if rule == 'borda':
        return rng.choice([1, 1, 0, 2])
    if rule == 'geometric':
        return rng.choice([2, 2, 3, 10])
    if rule == 'fixed_top':
        return rng.choice([1, 2, 3, 5])
    if rule in ('pa_list', 'pa_list_whole'):
        return rng.choice(PA_LISTS)
    if rule == 'sequence':
        return rng.choice([['5', '3', '1'], ['10', '4', '4', '1'], ['3', '3/2'], ['1'], ['12', '10', '8', '7', '6', '5', '4', '3', '2', '1']])
    if rule == 'copeland':
        return rng.choice([1, 1, 0])
    return None


def _ptag(param):
    return 'x'.join(str(x).replace('/', '_') for x in param) if isinstance(param, list) else str(param)


def _only_in_shared(base):
    single, shared = set(), set()
    for b, _ in base:
        for it in b:
            if isinstance(it, dict):
                shared.update(it['set'])
            else:
                single.add(it)
    return bool(shared - single)


def _mk(rule, param, base, pert, w, kind, move, tags):
    return {'op': 'pair_eval', 'rule': rule, 'param': param, 'base': base, 'pert': pert, 'w': w, 'kind': kind,
            'move': move, '_tags': list(tags)}


def _convex(seq):
    d = [a - b for a, b in zip(seq, seq[1:])]
    return all(x >= y for x, y in zip(d, d[1:]))


def join_ok(rule, param):
    """the move 'w joins the rank directly above it' is issued for every ranked rule; for SequenceBased only with convex
    sequences (score drops that never grow), because otherwise the candidates BELOW w, who all move up one place, can
    gain more than w does — a property of such a score sequence, not of the code"""
    if rule == 'sequence':
        return _convex([Fraction(x) for x in param] + [Fraction(0), Fraction(0)])
    return True


def ranked_moves(rule, param, base, w, rng=None, limit=None, extra_tags=()):
    """every single-unit lift of w on every ballot, plus the admissible new ballot(s)"""
    out = []
    cs = all_cands(base)
    for bi, (b, s) in enumerate(base):
        for i in lift_positions(b, w):
            nb = lift(b, w, i)
            if rule == 'borda' and len(nb) > len(cs):
                continue
            tags = [f'{rule}:lift'] + list(extra_tags)
            if pos_of(b, w) is None:
                tags.append('lift_unranked')
            elif isinstance(b[pos_of(b, w)], dict):
                tags.append('lift_out_of_shared')
            if Fraction(s) > 1:
                tags.append('unit_of_heavier_ballot')
            if Fraction(s).denominator != 1:
                tags.append('fractional_weight')
            if any(nb == x for x, _ in base):
                tags.append('merges_with_existing')
            if rule in PA_WHOLE or rule == 'bucklin_whole':
                p1 = pos_of(b, w)
                if p1 is not None and p1 >= 1 and isinstance(b[p1], dict):
                    tags.append(f'{rule}:lift_out_of_shared_below_first')
                    if i == p1:
                        tags.append('whole:lift_just_above_former_co_ranked')
            if rule in PA_RULES:
                if rule in ('pa_call', 'pa_call_whole'):
                    tags.append('bucklin_coef:callable')
                else:
                    if len(param) < max(len(x) for x, _ in base):
                        tags.append('bucklin_coef:list_shorter_than_ballot')
                    else:
                        tags.append('bucklin_coef:list_covers_ballots')
                    p0 = pos_of(b, w)
                    if (len(b) if p0 is None else p0) >= len(param):
                        tags.append('bucklin_coef:lift_beyond_list_end')
            if len(nb) > max(len(x) for x, _ in base):
                tags.append('lift_lengthens_longest')
                if rule == 'modified_borda':
                    tags.append('modified_borda:lift_lengthens_longest')
            out.append(_mk(rule, param, base, replace_unit(base, bi, nb), w, 'lift',
                           {'kind': 'lift', 'ballot': bi, 'pos': i}, tags))
    if join_ok(rule, param):
        longest = max(len(x) for x, _ in base)
        for bi, (b, s) in enumerate(base):
            nb = join_above(b, w)
            if nb is None or (rule == 'borda' and len(nb) > len(cs)):
                continue
            tags = [f'{rule}:join'] + list(extra_tags)
            if len(b) == longest and len(nb) < len(b) and sum(1 for x, _ in base if len(x) == longest) == 1:
                tags.append('join_shortens_longest_ballot')
            if isinstance(b[pos_of(b, w) - 1], dict):
                tags.append('join_existing_shared_rank')
            out.append(_mk(rule, param, base, replace_unit(base, bi, nb), w, 'join', {'kind': 'join', 'ballot': bi}, tags))
    if rule in PA_RULES:
        out.append(_mk(rule, param, base, add_ballot(base, [w]), w, 'new', {'kind': 'new', 'ballot': [w]},
                       [f'{rule}:new'] + list(extra_tags)))
    elif rule in BULLET_RULES:
        out.append(_mk(rule, param, base, add_ballot(base, [w]), w, 'new', {'kind': 'new', 'ballot': [w]},
                       [f'{rule}:new'] + list(extra_tags)))
        # the wider reading of "a new ballot that ranks the winner first": w, then a strict order of some others
        rest = [c for c in cs if c != w]
        fulls = []
        if rng is not None:
            if rest:
                r1 = rest[:]
                rng.shuffle(r1)
                fulls.append([w] + r1)
                r2 = rest[:]
                rng.shuffle(r2)
                fulls.append([w] + r2[:rng.randint(1, len(r2))])
        elif len(rest) <= 3:
            for k in range(1, len(rest) + 1):
                for perm in itertools.permutations(rest, k):
                    fulls.append([w] + list(perm))
        else:
            for perm in itertools.islice(itertools.permutations(rest), 0, 720, 17 if len(rest) > 4 else 1):
                fulls.append([w] + list(perm))
        seen = []
        for nb in fulls:
            if nb in seen:
                continue
            seen.append(nb)
            out.append(_mk(rule, param, base, add_ballot(base, nb), w, 'new_full', {'kind': 'new', 'ballot': nb},
                           [f'{rule}:new_full'] + list(extra_tags)))
    else:
        news = [[w]]
        if rng is not None:
            rest = [c for c in cs if c != w]
            rng.shuffle(rest)
            news.append([w] + rest[:rng.randint(0, len(rest))])
        else:
            rest = [c for c in cs if c != w]
            for k in range(1, len(rest) + 1):
                for perm in itertools.permutations(rest, k):
                    news.append([w] + list(perm))
        for nb in news:
            out.append(_mk(rule, param, base, add_ballot(base, nb), w, 'new', {'kind': 'new', 'ballot': nb},
                           [f'{rule}:new'] + list(extra_tags)))
    if limit is not None and rng is not None and len(out) > limit:
        out = rng.sample(out, limit)
    return out


def _tag_premise(cases, rule):
    for c in cases:
        c['_tags'].append(f'{rule}:premise')
    return cases


def gen_ranked(rng, rule, n_prof, limit=8):
    made = 0
    tries = 0
    while made < n_prof and tries < n_prof * 30:
        tries += 1
        big = rng.random() < 0.08
        m = rng.randint(6, 8) if big else rng.randint(2, 4)
        shared_p = 0.25
        base = _rand_ranked(rng, m, shared_p)
        param = _param(rng, rule)
        extra = [f'{rule}:param_{_ptag(param)}']
        if big:
            extra.append('cands_6plus')
        if _only_in_shared(base):
            extra.append('only_in_shared_ranks')
        w = ref_winner(rule, param, base)
        if w is None:
            if rng.random() < 0.1:       # keep a few premise-false cases for the correspondence
                w = all_cands(base)[0]
                for c in ranked_moves(rule, param, base, w, rng, 2, extra_tags=extra):
                    yield c
            continue
        made += 1
        for c in _tag_premise(ranked_moves(rule, param, base, w, rng, limit, extra_tags=extra), rule):
            yield c
        if rng.random() < 0.2:
            # the improvements of EVERY other candidate too: whoever the implementation elects alone is checked
            for c2 in all_cands(base):
                if c2 != w:
                    for c in ranked_moves(rule, param, base, c2, rng, 3, extra_tags=extra + ['moves_for_every_candidate']):
                        yield c


CONDORCET_RULES = ['copeland', 'minimax_wv', 'minimax_margins', 'minimax_pwo', 'schulze']


def has_condorcet_winner(prof):
    cs, d = pairwise(prof)
    return any(all(d[x][y] > d[y][x] for y in cs if y != x) for x in cs)


def _cycle_profile(rng):
    """4-6 candidates: the rotations of one order with unequal weights (a majority cycle) plus a few extra ballots"""
    from families import gen_ranked_cycle
    m = rng.randint(4, 6)
    base = []
    for b, s in gen_ranked_cycle(rng, m):
        base = _add_weight(base, list(b), Fraction(s))
    for _ in range(rng.randint(0, 3)):
        cs = list(range(m))
        rng.shuffle(cs)
        base = _add_weight(base, cs[:rng.randint(1, m)], Fraction(rng.choice([1, 1, 2])))
    return [[b, num_str(k)] for b, k in base]


def _add_weight(base, b, k):
    out = [[x, y] for x, y in base]
    for e in out:
        if e[0] == b:
            e[1] = Fraction(e[1]) + k
            return out
    out.append([b, Fraction(k)])
    return out


def gen_condorcet_cycles(rng, n_prof, limit=14):
    """cyclic profiles of 4-6 candidates WITHOUT a Condorcet winner in which the rule's own relation still has a strict
    first (beat-paths of three and more edges, worst defeats inside a cycle, Copeland scores of a tournament)"""
    for rule in CONDORCET_RULES:
        made = 0
        tries = 0
        while made < n_prof and tries < n_prof * 80:
            tries += 1
            base = _cycle_profile(rng)
            if len(all_cands(base)) < 4 or has_condorcet_winner(base):
                continue
            param = _param(rng, rule)
            w = ref_winner(rule, param, base)
            if w is None:
                continue
            made += 1
            cases = ranked_moves(rule, param, base, w, rng, None, extra_tags=(f'{rule}:no_cw_4plus',))
            lifts = [c for c in cases if c['kind'] == 'lift']
            other = [c for c in cases if c['kind'] != 'lift']
            if len(lifts) > limit:
                lifts = rng.sample(lifts, limit)
            for c in _tag_premise(lifts + other, rule):
                yield c


def shared3_moves(rule, base, rng=None, limit=None):
    """Bucklin bases with a shared rank of three or more candidates: the lifts of EVERY candidate (whoever the evaluator
    elects alone is the w of the relation: the premise is decided on the implementation's base result), so that a
    defect in the splitting of shared-rank ballots that changes the base winner is still exercised by the oracle"""
    out = []
    ref_w = ref_winner(rule, None, base)
    for w in all_cands(base):
        cases = []
        for bi, (b, s) in enumerate(base):
            p0 = pos_of(b, w)
            big = p0 is not None and isinstance(b[p0], dict) and len(b[p0]['set']) >= 3
            for i in lift_positions(b, w):
                tags = [f'{rule}:lift']
                if big:
                    tags += ['bucklin:lift_out_of_shared3', 'lift_out_of_shared']
                cases.append(_mk(rule, None, base, replace_unit(base, bi, lift(b, w, i)), w, 'lift',
                                 {'kind': 'lift', 'ballot': bi, 'pos': i}, tags))
        cases.append(_mk(rule, None, base, add_ballot(base, [w]), w, 'new', {'kind': 'new', 'ballot': [w]}, [f'{rule}:new']))
        if limit is not None and rng is not None and len(cases) > limit:
            keep = [c for c in cases if 'bucklin:lift_out_of_shared3' in c['_tags']]
            other = [c for c in cases if c not in keep]
            cases = keep[:limit] + rng.sample(other, max(0, min(len(other), limit - len(keep[:limit]))))
        if w == ref_w:
            _tag_premise(cases, rule)
        out += cases
    return out


def gen_bucklin_shared3(rng, n_prof):
    for _ in range(n_prof):
        m = rng.randint(4, 5)
        base = []
        for k in range(rng.randint(2, 4)):
            cs = list(range(m))
            rng.shuffle(cs)
            cs = cs[:rng.randint(3, m)]
            if k == 0 or rng.random() < 0.4:
                g = rng.randint(3, min(4, len(cs)))
                at = rng.randint(0, len(cs) - g)
                b = cs[:at] + [{'set': sorted(cs[at:at + g])}] + cs[at + g:]
            else:
                b = cs
            if all(b != x for x, _ in base):
                base.append([b, str(rng.choice([1, 1, 2, 3]))])
        for rule in ('bucklin', 'bucklin_whole'):
            for c in shared3_moves(rule, base, rng, 6):
                yield c


def gen_pa(rng, n_prof):
    """PreferenceAddition with coefficient lists shorter than the ballots: 4-6 candidates, long ballots, the lifts of
    the reference winner and (every third profile) of every candidate"""
    for k in range(n_prof):
        rule = PA_RULES[k % len(PA_RULES)]
        param = rng.choice([l for l in PA_LISTS if len(l) <= 3]) if rule in ('pa_list', 'pa_list_whole') else None
        m = rng.randint(4, 6)
        base = []
        for _ in range(rng.randint(2, 4)):
            b = _rand_ballot(rng, m, 0.15, min_len=min(4, m))
            if all(b != x for x, _ in base):
                base.append([b, str(rng.choice([1, 1, 2, 3, 4]))])
        w = ref_winner(rule, param, base)
        ws = all_cands(base) if (w is None or k % 3 == 0) else [w]
        for c2 in ws:
            cases = ranked_moves(rule, param, base, c2, rng, 10 if c2 == w else 4)
            if c2 == w:
                _tag_premise(cases, rule)
            for c in cases:
                yield c


def _w_table(prof, w):
    t = {}
    for b, s in prof:
        for c, x in b['set']:
            if c == w:
                t[Fraction(x)] = t.get(Fraction(x), 0) + int(Fraction(s))
    return t


def score_trunc_moves(param, base, rng=None, per_cand=10):
    """score raises under ScoreVoting(function, unscored_value, min_count, truncation) for EVERY candidate (the premise is
    decided on the implementation's base result).  A candidate the ballot does not score may be given a score only where
    that is an improvement by definition: at least the unscored value when one is set; any non-negative score under the
    plain sum; never under the mean without an unscored value (the ballot is then simply not counted for it)."""
    out = []
    ref = ref_scores('score_trunc', param, base)
    ref_w = None
    if ref:
        m = max(ref.values())
        top = [c for c, v in ref.items() if v == m]
        ref_w = top[0] if len(top) == 1 else None
    n_votes = sum(Fraction(s) for _, s in base)
    tr = param['trunc']
    cutoff = 0 if tr is None else (tr['count'] if 'count' in tr else int(n_votes * Fraction(tr['frac'])))
    cs = sorted({c for b, _ in base for c, _ in b['set']})
    for w in cs:
        cases = []
        before = _w_table(base, w)
        for bi, (b, s) in enumerate(base):
            cur = dict((c, int(x)) for c, x in b['set'])
            if w in cur:
                targets = list(range(cur[w] + 1, 8))
            elif param['unscored'] is not None:
                targets = list(range(int(Fraction(param['unscored'])), 7))
            elif param['fn'] == 'sum':
                targets = list(range(0, 6))
            else:
                targets = []
            for t in targets:
                nb = {'set': sorted([c, str(t if c == w else x)] for c, x in list(cur.items()) + ([(w, t)] if w not in cur else []))}
                tags = ['score_trunc:raise', f"score_trunc:{param['fn']}", f"score_trunc:trunc_{'none' if tr is None else list(tr)[0]}"]
                if w not in cur:
                    tags.append('score_trunc:raise_unscored')
                if param['unscored'] is not None:
                    tags.append('score_trunc:unscored_value')
                if param['min_count']:
                    tags.append('score_trunc:min_count')
                if cutoff > 0 and before and t > max(before) and 1 <= cutoff:
                    tags.append('score:truncation_raise_creates_new_extreme')
                if cutoff > 0 and before:
                    lo = min(before)
                    if before[lo] < cutoff:
                        tags.append('score:truncation_removes_group_and_part')
                cases.append(_mk('score_trunc', param, base, replace_unit(base, bi, nb), w, 'raise',
                                 {'kind': 'raise', 'ballot': bi, 'score': str(t)}, tags))
        if rng is not None and len(cases) > per_cand:
            keep = [c for c in cases if 'score:truncation_raise_creates_new_extreme' in c['_tags']]
            other = [c for c in cases if c not in keep]
            keep = rng.sample(keep, min(len(keep), per_cand // 2))
            cases = keep + rng.sample(other, min(len(other), per_cand - len(keep)))
        if w == ref_w:
            _tag_premise(cases, 'score_trunc')
        out += cases
    return out


SCORE_GEN_UNSCORED = [None, '0', '3', 'min', 'max', 'mean', 'median', 'midrange']


def score_gen_moves(param, base, rng=None, per_cand=8):
    """score raises under ScoreVoting(function, unscored_value) for EVERY candidate: a scored candidate gets a higher score
    (in particular a NEW distinct value); an unscored one gets a score at least as large as what the ballot counts for it
    now (the fill-in value of the base profile); without a fill-in only under the plain sum (any non-negative score)"""
    out = []
    ref = ref_scores('score_gen', param, base)
    m = max(ref.values())
    top = [c for c, v in ref.items() if v == m]
    ref_w = top[0] if len(top) == 1 else None
    grid = [Fraction(k) for k in range(0, 12)]
    for w in sorted(ref):
        cases = []
        vals, absent = _cand_scores(base, w)
        fill = None if param['unscored'] is None else _list_fn(param['unscored'], vals)
        for bi, (b, s) in enumerate(base):
            cur = dict((c, Fraction(x)) for c, x in b['set'])
            if w in cur:
                targets = [t for t in grid if t > cur[w]]
            elif fill is not None:
                targets = [t for t in grid if t >= fill]
            elif param['fn'] == 'sum':
                targets = grid[:6]
            else:
                targets = []
            for t in targets:
                nb = {'set': sorted([c, num_str(t if c == w else x)] for c, x in list(cur.items()) + ([(w, t)] if w not in cur else []))}
                tags = ['score_gen:raise', f"score_gen:fn_{param['fn']}", f"score_gen:unscored_{param['unscored']}"]
                if t not in vals:
                    tags.append('score_gen:raise_to_new_distinct_value')
                if absent and w in cur:
                    tags.append('score_gen:raised_candidate_unscored_by_some')
                if len(set(vals)) < len(vals):
                    tags.append('score_gen:repeated_scores')
                if w not in cur:
                    tags.append('score_gen:raise_unscored')
                cases.append(_mk('score_gen', param, base, replace_unit(base, bi, nb), w, 'raise',
                                 {'kind': 'raise', 'ballot': bi, 'score': num_str(t)}, tags))
        if rng is not None and len(cases) > per_cand:
            keep = [c for c in cases if 'score_gen:raise_to_new_distinct_value' in c['_tags']
                    and 'score_gen:raised_candidate_unscored_by_some' in c['_tags']]
            keep = rng.sample(keep, min(len(keep), per_cand // 2))
            other = [c for c in cases if c not in keep]
            cases = keep + rng.sample(other, min(len(other), per_cand - len(keep)))
        if w == ref_w:
            _tag_premise(cases, 'score_gen')
        for c in cases:
            c['_stype'] = 'frac'              # Fractions throughout: statistics.median of ints would return floats
        out += cases
    return out


def gen_score_gen(rng, n_prof):
    for k in range(n_prof):
        param = {'fn': ['sum', 'sum', 'mean', 'median'][k % 4], 'unscored': SCORE_GEN_UNSCORED[(k // 4) % len(SCORE_GEN_UNSCORED)]}
        m = rng.randint(2, 3)
        base = []
        total = 0
        target = rng.randint(6, 12)
        palette = rng.sample(range(0, 11), 3)            # few distinct values: unevenly repeated scores
        while total < target:
            k2 = rng.randint(1, m)
            b = {'set': sorted([c, str(rng.choice(palette))] for c in rng.sample(range(m), k2))}
            wgt = min(rng.choice([1, 1, 2, 3]), target - total)
            total += wgt
            for e in base:
                if e[0] == b:
                    e[1] = str(int(e[1]) + wgt)
                    break
            else:
                base.append([b, str(wgt)])
        for c in score_gen_moves(param, base, rng):
            yield c


def _score_trunc_param(rng):
    return {'fn': rng.choice(['sum', 'mean']),
            'unscored': rng.choice([None, None, '0', '2']),
            'min_count': rng.choice([0, 0, 3]),
            'trunc': rng.choice([None, {'count': 1}, {'count': 2}, {'count': 2}, {'count': 3}, {'frac': '1/10'}, {'frac': '1/5'}])}


def gen_score_trunc(rng, n_prof):
    for _ in range(n_prof):
        m = rng.randint(2, 3)
        param = _score_trunc_param(rng)
        base = []
        total = 0
        target = rng.randint(10, 20)
        while total < target:
            k = m if (param['unscored'] is None and rng.random() < 0.7) else rng.randint(1, m)
            b = {'set': sorted([c, str(rng.choice([0, 1, 1, 2, 3, 4, 4, 5]))] for c in rng.sample(range(m), k))}
            wgt = min(rng.choice([1, 1, 2, 3, 4, 6]), target - total)
            total += wgt
            for e in base:
                if e[0] == b:
                    e[1] = str(int(e[1]) + wgt)
                    break
            else:
                base.append([b, str(wgt)])
        for c in score_trunc_moves(param, base, rng):
            yield c


def _ballot_shared_anywhere(rng, m):
    cs = list(range(m))
    rng.shuffle(cs)
    cs = cs[:rng.randint(min(3, m), m)]
    if rng.random() < 0.75 and len(cs) >= 3:
        g = rng.randint(2, min(3, len(cs) - 1))
        at = rng.randint(0 if rng.random() < 0.25 else 1, len(cs) - g)
        return cs[:at] + [{'set': sorted(cs[at:at + g])}] + cs[at + g:]
    return cs


def gen_pa_crossing(rng, n_prof):
    """every coefficient option x both split modes on the SAME profiles, with shared ranks at every position (mostly
    below the first place, where a coefficient other than 1 applies): default [1], Oklahoma as a list and as a callable,
    a decreasing list; the lifts of every candidate, those out of a shared rank first"""
    options = [('bucklin', None), ('bucklin_whole', None), ('pa_list', ['1', '1/2', '1/3', '1/4']),
               ('pa_list_whole', ['1', '1/2', '1/3', '1/4']), ('pa_list', ['1', '1', '1/2']), ('pa_list_whole', ['1', '1', '1/2']),
               ('pa_list_whole', ['2', '1', '1', '1/2']), ('pa_call', None), ('pa_call_whole', None)]
    for _ in range(n_prof):
        m = rng.randint(3, 5)
        base = []
        for _ in range(rng.randint(3, 5)):
            b = _ballot_shared_anywhere(rng, m)
            if all(b != x for x, _ in base):
                base.append([b, str(rng.choice([1, 2, 3, 4, 6, 9]))])
        for rule, param in options:
            rw = ref_winner(rule, param, base)
            for c2 in all_cands(base):
                cases = ranked_moves(rule, param, base, c2, extra_tags=('pa_crossing',))
                cases = [c for c in cases if c['kind'] != 'new_full']
                first = [c for c in cases if any('lift_out_of_shared' in t for t in c['_tags'])]
                other = [c for c in cases if c not in first]
                cases = first[:4] + rng.sample(other, min(len(other), 2 if c2 != rw else 4))
                if c2 == rw:
                    _tag_premise(cases, rule)
                for c in cases:
                    yield c


def gen_join_long(rng, n_prof):
    """one longest ballot on which a candidate stands last, short ballots elsewhere, so that the late rounds / places decide:
    the joins (and lifts) of every candidate, for every ranked rule in turn"""
    for k in range(n_prof):
        rule = RANKED_RULES[k % len(RANKED_RULES)]
        param = _param(rng, rule)
        m = rng.randint(3, 5)
        cs = list(range(m))
        rng.shuffle(cs)
        long_b = cs[:rng.randint(3, m)]
        base = [[long_b, str(rng.choice([1, 1, 2]))]]
        for _ in range(rng.randint(2, 4)):
            b = rng.sample(range(m), rng.randint(1, 2))
            if all(b != x for x, _ in base):
                base.append([b, str(rng.choice([1, 2, 3, 3]))])
        rw = ref_winner(rule, param, base)
        for c2 in all_cands(base):
            cases = [c for c in ranked_moves(rule, param, base, c2) if c['kind'] in ('join', 'lift')]
            joins = [c for c in cases if c['kind'] == 'join']
            lifts = [c for c in cases if c['kind'] == 'lift']
            cases = joins + rng.sample(lifts, min(len(lifts), 2))
            if c2 == rw:
                _tag_premise(cases, rule)
            for c in cases:
                yield c


def gen_plurality(rng, n_prof):
    for _ in range(n_prof):
        m = rng.randint(1, 5)
        vals = [rng.choice([0, 1, 1, 2, 2, 3, 4, 5]) for _ in range(m)]
        if rng.random() < 0.1:
            vals = [v + 10 ** 20 for v in vals]
        base = [[i, str(v)] for i, v in enumerate(vals)]
        w = ref_winner('plurality', None, base)
        prem = w is not None
        if w is None:
            w = 0
        tags = ['plurality:premise'] if prem else []
        pert = [[c, str(int(s) + (1 if c == w else 0))] for c, s in base]
        yield _mk('plurality', None, base, pert, w, 'new', {'kind': 'new'}, ['plurality:new'] + tags)
        for x, s in base:
            if x != w and int(s) >= 1:
                pert = [[c, str(int(v) + (1 if c == w else 0) - (1 if c == x else 0))] for c, v in base]
                yield _mk('plurality', None, base, pert, w, 'switch', {'kind': 'switch', 'from': x},
                          ['plurality:switch'] + tags)


def _rand_approval(rng, m):
    prof = []
    for _ in range(rng.randint(1, 5)):
        k = rng.randint(1, m)
        b = {'set': sorted(rng.sample(range(m), k))}
        if not any(b == x for x, _ in prof):
            prof.append([b, str(rng.choice([1, 1, 2, 3]))])
    return prof


def approval_moves(base, w, rng=None, param=None):
    out = []
    cs = sorted({c for b, _ in base for c in b['set']})
    ptag = [f'approval:split_{bool(param)}']
    for bi, (b, s) in enumerate(base):
        if w not in b['set']:
            nb = {'set': sorted(b['set'] + [w])}
            tags = ['approval:approve'] + ptag + (['approval:approve_on_empty'] if not b['set'] else [])
            out.append(_mk('approval', param, base, replace_unit(base, bi, nb), w, 'approve',
                           {'kind': 'approve', 'ballot': bi}, tags))
    rest = [c for c in cs if c != w]
    subsets = []
    if rng is not None:
        subsets = [[], rng.sample(rest, rng.randint(0, len(rest)))]
    else:
        for k in range(len(rest) + 1):
            subsets += [list(x) for x in itertools.combinations(rest, k)]
    for sub in subsets:
        nb = {'set': sorted([w] + sub)}
        out.append(_mk('approval', param, base, add_ballot(base, nb), w, 'new', {'kind': 'new', 'ballot': nb},
                       ['approval:new'] + ptag))
    return out


def gen_approval(rng, n_prof):
    made = 0
    for _ in range(n_prof * 20):
        if made >= n_prof:
            break
        m = rng.randint(2, 4) if rng.random() < 0.9 else rng.randint(6, 8)
        base = _rand_approval(rng, m)
        param = rng.choice([None, None, 1])
        if not param and rng.random() < 0.3 and all(b['set'] for b, _ in base):
            base.append([{'set': []}, str(rng.choice([1, 2]))])        # a voter who approves nobody
        w = ref_winner('approval', param, base)
        if w is None:
            continue
        made += 1
        for c in _tag_premise(approval_moves(base, w, rng, param), 'approval'):
            if m >= 6:
                c['_tags'].append('cands_6plus')
            yield c


def _rand_score(rng, m):
    prof = []
    for _ in range(rng.randint(1, 4)):
        k = rng.randint(1, m)
        b = {'set': sorted([c, str(rng.randint(0, 3))] for c in rng.sample(range(m), k))}
        if not any(b == x for x, _ in prof):
            prof.append([b, str(rng.choice([1, 1, 2, 3]))])
    return prof


def score_moves(base, w, rng=None, top=3, param=None):
    """raises of w's score on every ballot (a ballot not scoring w counts as the fill-in value, so w may be given any
    score at least that large) and new ballots on which nobody counts for more than w"""
    out = []
    cs = sorted({c for b, _ in base for c, _ in b['set']})
    fill_w = _score_fill(base, w, param) if any(c == w for b, _ in base for c, _ in b['set']) else Fraction(0)
    un_tag = f'score_sum:unscored_{param}'
    for bi, (b, s) in enumerate(base):
        cur = dict((c, int(x)) for c, x in b['set'])
        if w in cur:
            targets = list(range(cur[w] + 1, top + 2))
            kind_tag = 'score_sum:raise'
        else:
            lo = int(fill_w) if fill_w == int(fill_w) else int(fill_w) + 1
            targets = list(range(max(lo, 0), max(lo, top) + 1))
            kind_tag = 'score_sum:raise_unscored'
        if param not in (None, 'min') and w in cur and cur[w] < int(param) and int(param) not in targets:
            targets.append(int(param))
        for t in targets:
            nb = {'set': sorted([c, str(t if c == w else x)] for c, x in list(cur.items()) + ([(w, t)] if w not in cur else []))}
            tags = ['score_sum:raise', kind_tag, un_tag]
            if param not in (None, 'min') and t == int(param):
                tags.append('score_sum:raise_to_unscored_value')
            out.append(_mk('score_sum', param, base, replace_unit(base, bi, nb), w, 'raise',
                           {'kind': 'raise', 'ballot': bi, 'score': str(t)}, tags))
    rest = [c for c in cs if c != w]
    news = []
    if param == 'min':
        # every candidate scored, w at the top of the scale
        subs = [rest]
        for sub in subs:
            if rng is not None:
                news.append(sorted([[w, str(top)]] + [[c, str(rng.randint(0, top))] for c in sub]))
            else:
                for vals in itertools.product(range(0, top + 1), repeat=len(sub)):
                    news.append(sorted([[w, str(top)]] + [[c, str(v)] for c, v in zip(sub, vals)]))
    else:
        u = 0 if param is None else int(param)
        if rng is not None:
            sub = rng.sample(rest, rng.randint(0, len(rest)))
            lo = u if len(sub) < len(rest) else 0          # an absent candidate counts as u
            sw = rng.randint(lo, max(lo, top))
            if rest:
                sw0 = rng.randint(u, max(u, top))
                news.append([[w, str(sw0)]])
            else:
                news.append([[w, str(rng.randint(0, top))]])
            news.append(sorted([[w, str(sw)]] + [[c, str(rng.randint(0, sw))] for c in sub]))
        else:
            for k in range(len(rest) + 1):
                lo = u if k < len(rest) else 0
                for sw in range(lo, max(lo, 2) + 1):
                    for sub in itertools.combinations(rest, k):
                        for vals in itertools.product(range(0, sw + 1), repeat=k):
                            news.append(sorted([[w, str(sw)]] + [[c, str(v)] for c, v in zip(sub, vals)]))
    for nbl in news:
        nb = {'set': nbl}
        out.append(_mk('score_sum', param, base, add_ballot(base, nb), w, 'new', {'kind': 'new', 'ballot': nb},
                       ['score_sum:new', un_tag]))
    return out


SCORE_UNSCORED = [None, None, '0', '1', '2', '5', 'min']


def gen_score(rng, n_prof):
    made = 0
    for _ in range(n_prof * 20):
        if made >= n_prof:
            break
        base = _rand_score(rng, rng.randint(2, 4))
        param = rng.choice(SCORE_UNSCORED)
        if param == '5':
            # a wider scale so that scores below, at and above the fill-in value occur
            base = [[{'set': [[c, str(rng.randint(2, 9))] for c, _ in b['set']]}, s] for b, s in base]
            base = [e for i, e in enumerate(base) if all(e[0] != x[0] for x in base[:i])]
        w = ref_winner('score_sum', param, base)
        if w is None:
            continue
        made += 1
        cases = score_moves(base, w, rng, top=9 if param == '5' else 3, param=param)
        if len(cases) > 12:
            keep = [c for c in cases if 'score_sum:raise_to_unscored_value' in c['_tags']]
            other = [c for c in cases if c not in keep]
            cases = keep[:4] + rng.sample(other, min(len(other), 12 - len(keep[:4])))
        for c in _tag_premise(cases, 'score_sum'):
            yield c


# -- highest averages

def _ha_cfg(rng, directed=None):
    m = rng.randint(1, 5)
    div = rng.choice(DIVISORS)
    first = None
    tags = []
    if rng.random() < 0.12:
        d1 = Fraction(_ha_div(div, None)(1))
        first = num_str(min(rng.choice([Fraction(14, 10), Fraction(1), Fraction(12, 10), d1]), d1))
        tags.append('modified_first_coef')
    kind = directed or rng.choice(['small', 'small', 'small', 'mid', 'zero', 'big'])
    if kind in ('small', 'tie'):
        base = rng.choice([1, 2, 3, 6, 12])
        votes = [[i, base * rng.choice([0, 1, 1, 2, 2, 3, 4, 6])] for i in range(m)]
    elif kind == 'mid':
        votes = [[i, rng.randint(0, 200)] for i in range(m)]
    elif kind == 'big':
        K = rng.choice([10 ** 18, 10 ** 20, 10 ** 30, 2 ** 53])
        mult = [rng.choice([1, 1, 2, 3]) for _ in range(m)]
        votes = [[i, K * mult[i] + rng.randint(-1, 2)] for i in range(m)]      # near ties of the quotients at magnitude
        tags.append('ha:big_near_tie')
    else:
        votes = [[i, rng.choice([0, 0, 1, 2, 5])] for i in range(m)]
    if all(v == 0 for _, v in votes):
        votes[0][1] = 3
    if kind in ('small', 'mid') and rng.random() < 0.12:
        den = rng.choice([2, 3, 7])
        votes = [[i, Fraction(v, den)] for i, v in votes]
        tags.append('ha:fraction_votes')
    if sum(1 for _, v in votes if v == 0) >= 2:
        tags.append('ha:two_zero_vote_parties')
    n = rng.randint(1, 9)
    prev, caps = [], []
    if rng.random() < 0.4 or directed == 'prev':
        budget = n
        ids = list(range(m + (1 if rng.random() < 0.25 else 0)))
        rng.shuffle(ids)
        for i in ids:
            if rng.random() < 0.5 and budget > 0:
                k = rng.randint(0, min(3, budget))
                prev.append([i, k])
                budget -= k
    pd = dict((i, k) for i, k in prev)
    if rng.random() < 0.4 or directed == 'cap':
        for i in range(m):
            if rng.random() < 0.6:
                caps.append([i, pd.get(i, 0) + rng.randint(0, 3)])
    if caps:
        tags.append('ha:caps')
    if any(k > 0 for _, k in prev):
        tags.append('ha:prev_gains')
    if any(k > 0 and i >= m for i, k in prev):
        tags.append('ha:prev_absent_party')
    if first is not None:
        tags.append('ha:modified_first_coef')
    cfg = {'divisor': div, 'first_coef': first, 'votes': [[i, num_str(v)] for i, v in votes], 'n': n,
           'prev': prev, 'max': caps}
    return cfg, tags


def ha_pairs(cfg, tags, incs=(1,)):
    out = []
    pert = dict(cfg)
    pert['n'] = cfg['n'] + 1
    out.append({'op': 'pair_eval', 'rule': 'ha', 'kind': 'house', 'base': cfg, 'pert': pert,
                '_tags': ['ha:house'] + list(tags)})
    for idx, (i, s) in enumerate(cfg['votes']):
        for inc in incs:
            pert = dict(cfg)
            pert['votes'] = [[j, (num_str(Fraction(t) + inc) if j == i else t)] for j, t in cfg['votes']]
            out.append({'op': 'pair_eval', 'rule': 'ha', 'kind': 'votes', 'party': i, 'base': cfg, 'pert': pert,
                        '_tags': ['ha:votes'] + list(tags)})
    return out


def _ha_tie_tags(case, obs=None):
    pass


def gen_ha(rng, n_cfg):
    for k in range(n_cfg):
        directed = [None, None, None, 'tie', 'cap', 'prev'][k % 6]
        cfg, tags = _ha_cfg(rng, directed)
        if sum(p for _, p in cfg['prev']) > cfg['n']:
            continue
        incs = (1,) if rng.random() < 0.6 else (1, rng.choice([2, 5, Fraction(1, 2), 100]))
        for c in ha_pairs(cfg, tags, incs):
            yield c


# -- directed cases: guarantee every REQUIRED_COUNTERS tag for every seed

NEW_FULL_WITNESSES = [
    ('bucklin', None, [[[2, 0, 1], '1'], [[3, 1], '1']], 1, [1, 2]),
    ('bucklin_whole', None, [[[0, 2], '1'], [[3, 1, 2], '1']], 2, [2, 0]),
    ('copeland', 1, [[[4, 3, 0, 1, 2], '1'], [[1, 2, 4, 3, 0], '1'], [[2, 4, 3, 0, 1], '1'], [[1], '1']], 2, [2, 4, 1, 3, 0]),
    ('minimax_wv', None, [[[1, 2], '2'], [[0], '2'], [[2, 0], '1']], 2, [2, 1]),
    ('schulze', None, [[[2], '2'], [[1, 2], '1'], [[0, 3, 1, 2], '2']], 1, [1, 0, 3]),
]


# 'w joins the rank above' fails at rule level only where shared ranks are NOT split (the ballot gets one place shorter and
# every candidate below w moves up a round)
JOIN_WITNESSES = [
    ('bucklin_whole', None, [[[1, 2], '1'], [[0, 2, 1], '1']], 2, 1),
    ('pa_list_whole', ['1', '3/4', '1/2', '1/4'], [[[1, 2, 0], '1'], [[0, 2], '1']], 2, 0),
    ('pa_call_whole', None, [[[1, 0], '2'], [[0, 2, 1], '2'], [[2, 1], '1'], [[2, 1, 0], '1']], 1, 3),
]


def directed_cases():
    out = []
    # the DESIGN 11.1 witness of fix 20ca103 (c=0, b=1, a=2, d=3)
    base = [[[0, 1], '3'], [[2, 3, 1, 0], '1'], [[0, 1, 2, 3], '1'], [[0], '2']]
    for rule in ('minimax_wv', 'minimax_margins'):
        for c in ranked_moves(rule, None, base, 0):
            c['_tags'] += [f'{rule}:premise', 'directed', 'minimax_unbeaten_after_move']
            out.append(c)
    # a three-candidate cycle-free profile with a clear winner for every ranked rule
    base = [[[0, 1, 2], '3'], [[1, 0, 2], '2'], [[2, 0, 1], '1'], [[1, {'set': [0, 2]}], '1'], [[2, 1], '1']]
    for rule in RANKED_RULES:
        param = {'borda': 1, 'geometric': 2, 'fixed_top': 2, 'copeland': 1, 'sequence': ['5', '3', '1'], 'pa_list': ['1', '1/2', '1/3'], 'pa_list_whole': ['1', '1', '1/2']}.get(rule)
        b = base
        w = ref_winner(rule, param, b)
        if w is None:
            continue
        for c in ranked_moves(rule, param, b, w):
            c['_tags'] += [f'{rule}:premise', 'directed']
            out.append(c)
    # Bucklin: winner decided in the second round; the bullet ballot raises the quota by one half
    base = [[[1, 0], '2'], [[2, 0], '2'], [[0, 1], '1']]
    for c in ranked_moves('bucklin', None, base, 0):
        c['_tags'] += ['bucklin:premise', 'directed', 'bucklin_second_round']
        out.append(c)
    # Bucklin: a shared-rank ballot whose split variants coincide with a ballot already present (fix 9fdccec)
    base = [[[1, 0], '5'], [[{'set': [0, 1]}], '1'], [[0], '3']]
    for rule in ('bucklin', 'bucklin_whole'):
        w = ref_winner(rule, None, base)
        if w is not None:
            for c in ranked_moves(rule, None, base, w):
                c['_tags'] += [f'{rule}:premise', 'directed', 'bucklin_split_collision']
                out.append(c)
    # score-sum with a fill-in value: a raise that lands exactly on the unscored value (W=0, X=1)
    base = [[{'set': [[0, '9'], [1, '7']]}, '1'], [{'set': [[0, '4'], [1, '6']]}, '1'], [{'set': [[0, '4'], [1, '3']]}, '1'],
            [{'set': [[1, '4']]}, '1']]
    for c in score_moves(base, 0, top=9, param='5'):
        c['_tags'] += ['score_sum:premise', 'directed']
        out.append(c)
    base = [[{'set': [[0, '2'], [1, '1']]}, '1'], [{'set': [[0, '1'], [1, '2']]}, '1'], [{'set': [[0, '2']]}, '1']]
    for un in ('2', '1', 'min'):
        w = ref_winner('score_sum', un, base)
        if w is not None:
            for c in score_moves(base, w, top=2, param=un):
                c['_tags'] += ['score_sum:premise', 'directed']
                out.append(c)
    # Bucklin: two shared ranks on one ballot (fix c2fec8e: the second one was expanded at the wrong place)
    base = [[[{'set': [0, 1]}, {'set': [2, 3]}], '2'], [[0, 2, 1, 3], '2'], [[3, {'set': [0, 2]}, 1], '1'],
            [[{'set': [1, 2]}, 0, {'set': [3, 4]}], '1']]
    two_shared = [base,
                  [[[{'set': [1, 2]}, 0], '1'], [[{'set': [0, 3]}, {'set': [1, 2]}], '1']],
                  [[[{'set': [0, 3]}, {'set': [1, 2]}], '3'], [[{'set': [1, 2]}, 3], '3']],
                  [[[{'set': [2, 3]}, {'set': [0, 1]}], '1'], [[{'set': [2, 3]}, 1], '2'], [[{'set': [0, 1]}, 2], '3']]]
    for base in two_shared:
        for rule in ('bucklin', 'bucklin_whole'):
            w = ref_winner(rule, None, base)
            if w is not None:
                for c in ranked_moves(rule, None, base, w):
                    c['_tags'] += [f'{rule}:premise', 'directed', 'bucklin_two_shared_ranks']
                    out.append(c)
    # Condorcet-type rules on majority cycles of 5-6 candidates without a Condorcet winner: the Schulze winner rests on
    # beat-paths of three and more edges (an incomplete transitive closure loses it after a lift of the winner)
    cyc = [
        [[[4, 5, 3, 1, 2, 0], '3'], [[5, 3, 1, 2, 0, 4], '4'], [[3, 1, 2, 0, 4, 5], '4'], [[1, 2, 0, 4, 5, 3], '3'],
         [[0, 4, 5, 3, 1, 2], '3'], [[2, 0, 4, 5, 3, 1], '3'], [[1, 4], '2']],
        [[[1, 2, 3, 4, 0, 5], '3'], [[0, 1, 2, 3, 4, 5], '3'], [[2, 3, 4, 0, 1, 5], '3'], [[4, 0, 1, 2, 3, 5], '4'],
         [[3, 4, 0, 1, 2, 5], '4'], [[1], '2'], [[4, 3, 2, 0], '2'], [[3, 1], '1']],
        [[[0, 1, 3, 2, 4], '4'], [[2, 4, 0, 1, 3], '4'], [[1, 3, 2, 4, 0], '3'], [[3, 2, 4, 0, 1], '4'],
         [[4, 0, 1, 3, 2], '4'], [[2, 3, 4], '1'], [[1, 4], '1'], [[0, 2, 4, 3, 5], '2']],
        [[[2, 3, 4, 0, 1], '4'], [[4, 0, 1, 2, 3], '4'], [[1, 2, 3, 4, 0], '3'], [[3, 4, 0, 1, 2], '4'],
         [[0, 1, 2, 3, 4], '5'], [[3, 0, 4, 2], '2'], [[3, 4, 1], '2']],
        [[[1, 0, 3, 2], '1'], [[0, 2, 1, 3], '2'], [[3, 2, 1, 0], '2']],
    ]
    for base in cyc:
        if has_condorcet_winner(base):
            continue
        for rule in CONDORCET_RULES:
            param = {'copeland': 1}.get(rule)
            w = ref_winner(rule, param, base)
            if w is None:
                if rule != 'schulze':
                    continue
                w = 2                                # premise false: kept for the correspondence (seeded change C17c)
                cases = [c for c in ranked_moves(rule, param, base, w) if c['kind'] == 'lift']
                for c in cases:
                    c['_tags'] += ['directed']
                out += cases
                continue
            cases = ranked_moves(rule, param, base, w)
            cases = [c for c in cases if c['kind'] != 'new_full'] + [c for c in cases if c['kind'] == 'new_full'][:6]
            for c in cases:
                c['_tags'] += [f'{rule}:premise', 'directed', f'{rule}:no_cw_4plus']
                out.append(c)
    # the wider reading of the new ballot (w first, others below): minimal cases in which the RULE ITSELF lets w lose
    for rule, param, base, w, nb in NEW_FULL_WITNESSES:
        c = _mk(rule, param, base, add_ballot(base, nb), w, 'new_full', {'kind': 'new', 'ballot': nb},
                [f'{rule}:new_full', f'{rule}:premise', 'directed', 'new_full_rule_level_failure', 'bucklin:lift_out_of_shared3', 'score_gen:raise_to_new_distinct_value', 'score_gen:raised_candidate_unscored_by_some', 'score_gen:repeated_scores',
                      'score_gen:raise_unscored', 'score_gen:premise', 'score_gen:fn_sum', 'score_gen:fn_mean', 'score_gen:fn_median',
                      'score_gen:unscored_None', 'score_gen:unscored_0', 'score_gen:unscored_3', 'score_gen:unscored_min',
                      'score_gen:unscored_max', 'score_gen:unscored_mean', 'score_gen:unscored_median', 'score_gen:unscored_midrange',
                      'score:truncation_raise_creates_new_extreme', 'score:truncation_removes_group_and_part', 'score_trunc:raise',
                      'score_trunc:sum', 'score_trunc:mean', 'score_trunc:trunc_count', 'score_trunc:trunc_frac',
                      'score_trunc:trunc_none', 'score_trunc:unscored_value', 'score_trunc:min_count', 'score_trunc:raise_unscored',
                      'score_trunc:premise', 'bucklin_coef:list_shorter_than_ballot', 'pa_list_whole:lift_out_of_shared_below_first',
                      'pa_call_whole:lift_out_of_shared_below_first', 'bucklin_whole:lift_out_of_shared_below_first',
                      'whole:lift_just_above_former_co_ranked', 'pa_crossing', 'join_shortens_longest_ballot',
                      'join_existing_shared_rank', 'join_rule_level_failure',
                      'bucklin_coef:lift_beyond_list_end', 'bucklin_coef:list_covers_ballots', 'bucklin_coef:callable',
                      'names:int0', 'names:empty0', 'names:person', 'state:shared', 'state:shared_rev', 'weights:dec', 'weights:frac',
                      'score_sum:scores_half', 'score_sum:scores_neg', 'score_sum:scores_dec7', 'score_sum:stype_dec',
                      'score_sum:stype_frac', 'score_sum:unscored_negative', 'approval:approve_on_empty', 'approval:split_True',
                      'approval:split_False', 'modified_borda:lift_lengthens_longest', 'lift_lengthens_longest', 'cands_6plus',
                      'only_in_shared_ranks', 'moves_for_every_candidate', 'ha:modified_first_coef', 'ha:prev_absent_party',
                      'ha:two_zero_vote_parties', 'ha:fraction_votes', 'ha:big_near_tie', 'borda:param_0', 'borda:param_2',
                      'geometric:param_3', 'geometric:param_10', 'fixed_top:param_5', 'sequence:param_10x4x4x1',
                      'sequence:param_5x3x1', 'copeland:param_0', 'copeland:param_1']
                     + [f'{r}:big_near_tie' for r in ['plurality', 'approval'] + RANKED_RULES]
                     + [f'{r}:join' for r in RANKED_RULES])
        out.append(c)
    # Bucklin: the winner is lifted out of a THREE-way shared rank (W=0, X=1, Y=2, Z=3); every candidate's lifts are issued
    base = [[[{'set': [0, 1, 2]}, 3], '1'], [[3, 0, 1, 2], '3'], [[0, 1, 2, 3], '1']]
    for rule in ('bucklin', 'bucklin_whole'):
        for c in shared3_moves(rule, base):
            c['_tags'] += ['directed']
            out.append(c)
    # ModifiedBorda: ballots of different lengths; lifting w out of the shared rank LENGTHENS the longest ballot (every score
    # on that ballot is re-based)
    base = [[[1, {'set': [0, 2]}], '2'], [[0, 1], '2'], [[2, 0], '1'], [[0], '1']]
    for rule in ('modified_borda', 'borda', 'sequence'):
        param = {'borda': 2, 'sequence': ['10', '4', '4', '1']}.get(rule)
        for w in all_cands(base):
            for c in ranked_moves(rule, param, base, w):
                c['_tags'] += ['directed', 'only_in_shared_ranks' if _only_in_shared(base) else 'directed']
                if w == ref_winner(rule, param, base):
                    c['_tags'].append(f'{rule}:premise')
                out.append(c)
    # approval: a voter who approved nobody now approves w; satisfaction approval (split) next to it
    base = [[{'set': [0, 1]}, '2'], [{'set': [1, 2]}, '1'], [{'set': [0]}, '2'], [{'set': []}, '2']]
    for c in approval_moves(base, 0, None, None):
        c['_tags'] += ['approval:premise', 'directed']
        out.append(c)
    for c in approval_moves(base[:3], 0, None, 1):
        c['_tags'] += ['approval:premise', 'directed']
        out.append(c)
    # PreferenceAddition with the coefficient list [1, 1/2, 1/3] and ballots of four and five ranks: the sole winner is lifted
    # from the 4th to the 3rd and 2nd place, both beyond the end of the list (W=0, B=1, C=2, A=3, D=4); every candidate's lifts
    base = [[[0, 1, 2], '4'], [[3, 2, 1, 4, 0], '4'], [[2, 4, 3, 0], '1']]
    for rule, param in (('pa_list', ['1', '1/2', '1/3']), ('pa_list_whole', ['1', '1/2', '1/3']), ('pa_list', ['1', '1', '1/2']),
                        ('pa_call', None)):
        rw = ref_winner(rule, param, base)
        for c2 in all_cands(base):
            for c in ranked_moves(rule, param, base, c2):
                c['_tags'] += ['directed'] + ([f'{rule}:premise'] if c2 == rw else [])
                out.append(c)
    # trimmed score sums / means (ScoreVoting truncation): W (=0) scored 1 by ten voters and 4 by four, R (=1) scored 1 by seven
    # and 2 by seven, truncation 2: trimmed sums 16 against 15; a raise of W from 4 to 5 creates a new highest score group
    base = [[{'set': [[0, '1'], [1, '1']]}, '7'], [{'set': [[0, '1'], [1, '2']]}, '3'], [{'set': [[0, '4'], [1, '2']]}, '4']]
    for fn in ('sum', 'mean'):
        for tr in ({'count': 2}, {'count': 1}, {'frac': '1/5'}, {'count': 3}):
            for c in score_trunc_moves({'fn': fn, 'unscored': None, 'min_count': 0, 'trunc': tr}, base):
                c['_tags'].append('directed')
                out.append(c)
    base = [[{'set': [[0, '3']]}, '6'], [{'set': [[0, '5'], [1, '4']]}, '5'], [{'set': [[1, '2']]}, '3'], [{'set': [[1, '5'], [2, '5']]}, '2']]
    for param in ({'fn': 'sum', 'unscored': '2', 'min_count': 3, 'trunc': {'count': 2}},
                  {'fn': 'mean', 'unscored': '0', 'min_count': 3, 'trunc': {'frac': '1/10'}},
                  {'fn': 'mean', 'unscored': None, 'min_count': 3, 'trunc': None}):
        for c in score_trunc_moves(param, base):
            c['_tags'].append('directed')
            out.append(c)
    # PreferenceAddition(Oklahoma coefficients, split_equal_rankings=False): the winner W (=3) shares the SECOND place with C
    # (=2) on the ballot B > {C, W} > A and is lifted out of it into a rank of its own just above C (A=0, B=1)
    base = [[[0, 1, 2, 3], '9'], [[2, 3], '9'], [[3, 1, 0], '6'], [[1, {'set': [2, 3]}, 0], '4']]
    for rule, param in (('pa_list_whole', ['1', '1/2', '1/3', '1/4']), ('pa_call_whole', None), ('pa_list', ['1', '1/2', '1/3', '1/4']),
                        ('pa_call', None), ('bucklin_whole', None), ('bucklin', None), ('pa_list_whole', ['1', '1', '1/2'])):
        rw = ref_winner(rule, param, base)
        for c2 in all_cands(base):
            for c in ranked_moves(rule, param, base, c2):
                if c['kind'] == 'new_full':
                    continue
                c['_tags'] += ['directed'] + ([f'{rule}:premise'] if c2 == rw else [])
                out.append(c)
    # 'w joins the rank directly above it' on the LONGEST ballot, short ballots elsewhere, the late rounds decide
    # (W=0, A=1, B=2, C=3): (A,B,W) -> (A,{B,W}); Bucklin must still elect W in the third round of the split ballots
    base = [[[0], '3'], [[1, 2, 0], '1'], [[3], '3']]
    for rule in RANKED_RULES:
        param = {'borda': 1, 'geometric': 2, 'fixed_top': 2, 'copeland': 1, 'sequence': ['5', '3', '1'],
                 'pa_list': ['1', '1', '1/2'], 'pa_list_whole': ['1', '1', '1/2']}.get(rule)
        rw = ref_winner(rule, param, base)
        for c2 in all_cands(base):
            for c in ranked_moves(rule, param, base, c2):
                if c['kind'] != 'join':
                    continue
                c['_tags'] += ['directed'] + ([f'{rule}:premise'] if c2 == rw else [])
                out.append(c)
    for rule, param, base, w, bi in JOIN_WITNESSES:
        nb = join_above(base[bi][0], w)
        out.append(_mk(rule, param, base, replace_unit(base, bi, nb), w, 'join', {'kind': 'join', 'ballot': bi},
                       [f'{rule}:join', f'{rule}:premise', 'directed', 'join_rule_level_failure']))
    # score-sum with a CALLABLE fill-in: W (=0) is left unscored by three voters and holds unevenly repeated scores (0, 0, 10,
    # 10, 10); one voter raises W from 0 to the NEW value 1 (X = 1)
    base = [[{'set': [[0, '0'], [1, '5']]}, '2'], [{'set': [[0, '10'], [1, '5']]}, '2'], [{'set': [[0, '10'], [1, '6']]}, '1'],
            [{'set': [[1, '6']]}, '3']]
    for fn in ('sum', 'mean', 'median'):
        for un in ('mean', 'median', 'midrange', 'min', 'max', None):
            for c in score_gen_moves({'fn': fn, 'unscored': un}, base):
                c['_tags'].append('directed')
                out.append(c)
    # highest averages: exact quotient tie at the last seat, cap binding, previous gains
    cfg = {'divisor': 'd_hondt', 'first_coef': None, 'votes': [[0, '6'], [1, '3'], [2, '3']], 'n': 3, 'prev': [], 'max': []}
    out += [dict(c, _tags=c['_tags'] + ['directed', 'ha:tie_in_base']) for c in ha_pairs(cfg, [])]
    cfg = {'divisor': 'sainte_lague', 'first_coef': None, 'votes': [[0, '10'], [1, '6'], [2, '1']], 'n': 4,
           'prev': [[1, 1]], 'max': [[0, 2]]}
    out += [dict(c, _tags=c['_tags'] + ['directed', 'ha:caps', 'ha:prev_gains']) for c in ha_pairs(cfg, [])]
    # modified first coefficient, a seat held by a party without votes, two zero-vote parties, Fraction votes, 10^30
    cfg = {'divisor': 'sainte_lague', 'first_coef': '7/5', 'votes': [[0, '21/2'], [1, '13/2'], [2, '0'], [3, '0']], 'n': 5,
           'prev': [[4, 1], [1, 1]], 'max': [[0, 3]]}
    out += [dict(c, _tags=c['_tags'] + ['directed', 'ha:caps', 'ha:prev_gains', 'ha:modified_first_coef', 'ha:prev_absent_party',
                                        'ha:two_zero_vote_parties', 'ha:fraction_votes']) for c in ha_pairs(cfg, [])]
    K = 10 ** 30
    cfg = {'divisor': 'd_hondt', 'first_coef': None, 'votes': [[0, str(2 * K + 1)], [1, str(K)], [2, str(K + 1)]], 'n': 4,
           'prev': [], 'max': []}
    out += [dict(c, _tags=c['_tags'] + ['directed', 'ha:big_near_tie']) for c in ha_pairs(cfg, [])]
    return out


BIG = [10 ** 18, 10 ** 30, 2 ** 53, 10 ** 9]


def _scale(prof, K, bump):
    return [[b, num_str(Fraction(s) * K + e)] for (b, s), e in zip(prof, bump)]


def gen_big_near_tie(rng, per_rule):
    """weights of the order 10^9 .. 10^30 in which the winner's lead is ONE vote: a small profile with a tie at the top
    is scaled and single votes are added until the reference computation finds a sole winner"""
    for rule in ['plurality', 'approval'] + RANKED_RULES:
        made = 0
        # the deterministic member of the family: two mirrored ballots, K + 1 against K
        K = BIG[made % len(BIG)]
        if rule == 'plurality':
            first = [[0, num_str(K + 1)], [1, num_str(K)], [2, '0']]
        elif rule == 'approval':
            first = [[{'set': [0, 2]}, num_str(K + 1)], [{'set': [1, 2]}, num_str(K)], [{'set': [0, 1]}, '3']]
        else:
            first = [[[0, 1, 2], num_str(K + 1)], [[1, 0, 2], num_str(K)]]
        pending = [(first, _param(rng, rule))]
        tries = 0
        while made < per_rule and tries < per_rule * 60:
            tries += 1
            if pending:
                base, param = pending.pop()
            else:
                K = rng.choice(BIG)
                param = _param(rng, rule)
                if rule == 'plurality':
                    small = [[i, str(rng.choice([1, 2, 2, 3]))] for i in range(rng.randint(2, 4))]
                elif rule == 'approval':
                    small = _rand_approval(rng, rng.randint(2, 4))
                else:
                    small = [[b, s if s != '1000001' else '2'] for b, s in _rand_ranked(rng, rng.randint(2, 4), 0.15)]
                if ref_winner(rule, param, _scale(small, K, [0] * len(small))) is not None:
                    continue                        # no tie at the top of the small profile
                base = _scale(small, K, [rng.choice([0, 0, 1]) for _ in small])
            w = ref_winner(rule, param, base)
            if w is None:
                continue
            made += 1
            tags = (f'{rule}:big_near_tie',)
            if rule == 'plurality':
                cases = _plurality_moves(base, w)
            elif rule == 'approval':
                cases = approval_moves(base, w, rng, param)
            else:
                cases = ranked_moves(rule, param, base, w, rng, 5)
            for c in _tag_premise(cases, rule):
                c['_tags'] += list(tags)
                yield c


def _plurality_moves(base, w):
    out = []
    pert = [[c, num_str(Fraction(s) + (1 if c == w else 0))] for c, s in base]
    out.append(_mk('plurality', None, base, pert, w, 'new', {'kind': 'new'}, ['plurality:new']))
    for x, s in base:
        if x != w and Fraction(s) >= 1:
            pert = [[c, num_str(Fraction(v) + (1 if c == w else 0) - (1 if c == x else 0))] for c, v in base]
            out.append(_mk('plurality', None, base, pert, w, 'switch', {'kind': 'switch', 'from': x}, ['plurality:switch']))
    return out


SCORE_GRIDS = {
    'half': [Fraction(k, 2) for k in range(0, 9)],                     # Fractions
    'neg': [Fraction(k) for k in range(-3, 4)],                        # negative scores
    'dec7': [Fraction(k * 1234567, 10 ** 7) for k in range(0, 7)],     # Decimals with 7 places
}


def score_moves_typed(base, w, rng, grid, param):
    """score moves over an arbitrary grid of admissible scores (Fractions, negative numbers, long Decimals):
    raises = every grid value above what the ballot counts for w now (its score, or the fill-in value when unscored);
    new ballots = random ballots on which nobody counts for more than w (an absent candidate counts as the fill-in value)"""
    out = []
    cs = sorted({c for b, _ in base for c, _ in b['set']})
    fill = Fraction(0) if param is None else Fraction(param)
    vals = sorted(set(grid) | {fill})
    tag = f'score_sum:unscored_{param}'
    for bi, (b, s) in enumerate(base):
        cur = dict((c, Fraction(x)) for c, x in b['set'])
        now = cur.get(w, fill)
        for t in [v for v in vals if v > now or (w not in cur and v == now)][:4]:
            nb = {'set': sorted([c, num_str(t if c == w else x)] for c, x in list(cur.items()) + ([(w, t)] if w not in cur else []))}
            tags = ['score_sum:raise', tag] + (['score_sum:raise_to_unscored_value'] if param is not None and t == fill else [])
            if w not in cur:
                tags.append('score_sum:raise_unscored')
            out.append(_mk('score_sum', param, base, replace_unit(base, bi, nb), w, 'raise',
                           {'kind': 'raise', 'ballot': bi, 'score': num_str(t)}, tags))
    rest = [c for c in cs if c != w]
    for _ in range(6):
        sub = rng.sample(rest, rng.randint(0, len(rest)))
        sw = rng.choice(vals)
        nbl = dict([(w, sw)] + [(c, rng.choice(vals)) for c in sub])
        if all(nbl.get(y, fill) <= sw for y in cs):
            nb = {'set': sorted([c, num_str(v)] for c, v in nbl.items())}
            out.append(_mk('score_sum', param, base, add_ballot(base, nb), w, 'new', {'kind': 'new', 'ballot': nb},
                           ['score_sum:new', tag]))
    return out


def gen_score_typed(rng, n_prof):
    for gname, grid in SCORE_GRIDS.items():
        made = 0
        for _ in range(n_prof * 30):
            if made >= n_prof:
                break
            m = rng.randint(2, 4)
            base = []
            for _ in range(rng.randint(1, 4)):
                k = rng.randint(1, m)
                b = {'set': sorted([c, num_str(rng.choice(grid))] for c in rng.sample(range(m), k))}
                if all(b != x for x, _ in base):
                    base.append([b, str(rng.choice([1, 1, 2, 3]))])
            param = rng.choice([None, num_str(rng.choice(grid)), '-1' if gname == 'neg' else '0'])
            w = ref_winner('score_sum', param, base)
            if w is None:
                continue
            made += 1
            stype = {'half': 'frac', 'neg': rng.choice(['int', 'frac', 'dec']), 'dec7': 'dec'}[gname]
            for c in _tag_premise(score_moves_typed(base, w, rng, grid, param), 'score_sum'):
                c['_stype'] = stype
                c['_tags'] += [f'score_sum:scores_{gname}', f'score_sum:stype_{stype}']
                if param is not None and Fraction(param) < 0:
                    c['_tags'].append('score_sum:unscored_negative')
                yield c


def _dec_safe(c):
    """Decimal arithmetic rounds to 28 significant digits (the default context): keep Decimal weights below 10^20 so that
    no sum or product of the evaluation is rounded — beyond that the rounding is Python's, not the library's"""
    return all(abs(Fraction(s)) < 10 ** 20 for key in ('base', 'pert') for _, s in c[key])


def _decorate(c):
    """numeric type of the weights, of the scores, and object reuse — decided by a hash of the case itself"""
    h = int(hashlib.sha256(json.dumps(strip_case(c), sort_keys=True, default=str).encode()).hexdigest()[8:16], 16)
    if '_obj' not in c:
        c['_obj'] = ['shared', 'shared_rev', 'fresh', 'fresh', 'fresh'][h % 5]
    if c['_obj'] != 'fresh':
        c['_tags'].append('state:' + c['_obj'])
    rule = c['rule']
    if rule in DEC_OK and '_wtype' not in c and not (rule == 'approval' and c.get('param')) and _dec_safe(c):
        k = (h // 5) % 6
        if k == 0:
            c['_wtype'] = 'dec'
        elif k == 1:
            c['_wtype'] = 'frac'
    if c.get('_wtype'):
        c['_tags'].append('weights:' + c['_wtype'])
    if rule == 'score_sum' and '_stype' not in c and c.get('param') != 'min':
        k = (h // 30) % 5
        if k < 2:
            c['_stype'] = ['dec', 'frac'][k]
            c['_tags'].append('score_sum:stype_' + c['_stype'])
    return c


def generate(rng, tier):
    for c in _generate(rng, tier):
        yield _decorate(c)


def _generate(rng, tier):
    quick = tier == 'quick'
    for c in directed_cases():
        yield c
    for c in gen_ha(rng, 500 if quick else 12000):
        yield c
    for c in gen_plurality(rng, 200 if quick else 4000):
        yield c
    for rule in RANKED_RULES:
        for c in gen_ranked(rng, rule, 90 if quick else 2500):
            yield c
    for c in gen_condorcet_cycles(rng, 25 if quick else 600):
        yield c
    for c in gen_bucklin_shared3(rng, 40 if quick else 800):
        yield c
    for c in gen_pa(rng, 60 if quick else 1200):
        yield c
    for c in gen_pa_crossing(rng, 25 if quick else 300):
        yield c
    for c in gen_join_long(rng, 170 if quick else 2000):
        yield c
    for c in gen_big_near_tie(rng, 6 if quick else 120):
        yield c
    for c in gen_approval(rng, 150 if quick else 3000):
        yield c
    for c in gen_score(rng, 150 if quick else 3000):
        yield c
    for c in gen_score_typed(rng, 25 if quick else 500):
        yield c
    for c in gen_score_trunc(rng, 60 if quick else 1200):
        yield c
    for c in gen_score_gen(rng, 96 if quick else 1600):
        yield c
    if not quick:
        for c in exhaustive_cases():
            yield c


def exhaustive_cases():
    """small scopes, exhaustively: highest averages with <= 3 parties, votes <= 4, n <= 5; ranked rules with
    <= 3 candidates and <= 3 ballots (strict, possibly truncated rankings), every lift and every new ballot"""
    for m in range(1, 4):
        for vals in itertools.product(range(0, 5), repeat=m):
            if sum(vals) == 0:
                continue
            for n in range(1, 6):
                for div in DIVISORS:
                    cfg = {'divisor': div, 'first_coef': None, 'votes': [[i, str(v)] for i, v in enumerate(vals)],
                           'n': n, 'prev': [], 'max': []}
                    for c in ha_pairs(cfg, ['exhaustive']):
                        yield c
    ballots = []
    for k in range(1, 4):
        for perm in itertools.permutations(range(3), k):
            ballots.append(list(perm))
    params = {'borda': 1, 'geometric': 2, 'fixed_top': 2, 'copeland': 1, 'sequence': ['3', '2', '2'], 'pa_list': ['1', '1/2'], 'pa_list_whole': ['1', '1/2']}
    for size in range(1, 4):
        for combo in itertools.combinations_with_replacement(range(len(ballots)), size):
            base = []
            for bi in combo:
                base = add_ballot(base, ballots[bi])
            for rule in RANKED_RULES:
                param = params.get(rule)
                w = ref_winner(rule, param, base)
                if w is None:
                    continue
                for c in ranked_moves(rule, param, base, w, extra_tags=('exhaustive', f'{rule}:premise')):
                    yield c


NAME_MODES = ['str', 'int0', 'empty0', 'person', 'tuple']
REQUIRED_COUNTERS = (['ha:house', 'ha:votes', 'ha:caps', 'ha:prev_gains', 'ha:tie_in_base', 'plurality:new',
                      'plurality:switch', 'plurality:premise', 'approval:approve', 'approval:new', 'approval:premise',
                      'score_sum:raise', 'score_sum:new', 'score_sum:premise', 'score_sum:raise_to_unscored_value',
                      'score_sum:unscored_None', 'score_sum:unscored_0', 'score_sum:unscored_1', 'score_sum:unscored_2',
                      'score_sum:unscored_5', 'score_sum:unscored_min', 'bucklin_two_shared_ranks', 'minimax_unbeaten_after_move',
                      'bucklin_second_round', 'bucklin_split_collision', 'lift_unranked', 'lift_out_of_shared', 'unit_of_heavier_ballot',
                      'merges_with_existing', 'fractional_weight', 'new_full_rule_level_failure', 'bucklin:lift_out_of_shared3', 'bucklin_coef:list_shorter_than_ballot', 'pa_list_whole:lift_out_of_shared_below_first',
                      'pa_call_whole:lift_out_of_shared_below_first', 'bucklin_whole:lift_out_of_shared_below_first',
                      'whole:lift_just_above_former_co_ranked', 'pa_crossing', 'join_shortens_longest_ballot',
                      'join_existing_shared_rank', 'join_rule_level_failure',
                      'bucklin_coef:lift_beyond_list_end', 'bucklin_coef:list_covers_ballots', 'bucklin_coef:callable',
                      'names:int0', 'names:empty0', 'names:person', 'state:shared', 'state:shared_rev', 'weights:dec', 'weights:frac',
                      'score_sum:scores_half', 'score_sum:scores_neg', 'score_sum:scores_dec7', 'score_sum:stype_dec',
                      'score_sum:stype_frac', 'score_sum:unscored_negative', 'approval:approve_on_empty', 'approval:split_True',
                      'approval:split_False', 'modified_borda:lift_lengthens_longest', 'lift_lengthens_longest', 'cands_6plus',
                      'only_in_shared_ranks', 'moves_for_every_candidate', 'ha:modified_first_coef', 'ha:prev_absent_party',
                      'ha:two_zero_vote_parties', 'ha:fraction_votes', 'ha:big_near_tie', 'borda:param_0', 'borda:param_2',
                      'geometric:param_3', 'geometric:param_10', 'fixed_top:param_5', 'sequence:param_10x4x4x1',
                      'sequence:param_5x3x1', 'copeland:param_0', 'copeland:param_1']
                     + [f'{r}:big_near_tie' for r in ['plurality', 'approval'] + RANKED_RULES]
                     + [f'{r}:join' for r in RANKED_RULES]
                     + [f'{r}:no_cw_4plus' for r in ['copeland', 'minimax_wv', 'minimax_margins', 'minimax_pwo', 'schulze']]
                     + [f'{r}:new_full' for r in ['bucklin', 'bucklin_whole', 'copeland', 'minimax_wv', 'minimax_margins', 'schulze']]
                     + [f'{r}:{k}' for r in RANKED_RULES for k in ('lift', 'new', 'premise')])

RULE = ('highest averages: 1-5 parties, five divisors (+ modified first coefficient), n 1..9, previous gains (also for parties without '
        'votes), caps, vote increments 1 / 2 / 5 / 1/2 / 100, Fraction votes, votes K*m+e with K in 10^18, 10^20, 10^30, 2^53 (near ties of '
        'the quotients at magnitude); candidate objects str / int (0 falsy) / empty string / Person; weights int, Fraction, Decimal '
        '(below 10^20); one evaluator object for both elections (either order) in 2 of 5 cases; every rule on profiles scaled by '
        '10^9..10^30 in which the winner leads by one vote; positional scorers with every parameter (Borda base 0/1/2, Geometric base '
        '2/3/10, FixedTop 1/2/3/5, SequenceBased incl. sequences shorter than the ballots), 6-8 candidates in 8% of the profiles; '
        'approval with split and with an empty ballot; score-sum with Fraction / negative / 7-place Decimal scores and negative unscored value; winner rules: 2-4 candidates, 1-5 ballot types with weights '
        '1-4, 3/2, 5/2, 1000001 (truncated ballots, shared ranks), base profiles with a sole winner according to a reference computation, '
        'every single-unit lift of the winner on every ballot (sampled to 8 per profile in the quick tier) and the '
        'admissible new ballots (for Bucklin/Copeland/minimax/Schulze the bullet ballot and, kind new_full, w followed by a strict '
        'order of other candidates); Copeland/minimax/Schulze additionally on majority cycles of 4-6 candidates without a Condorcet '
        'winner (rotations of one order with unequal weights plus up to 3 extra ballots) with a strict first in the rule\'s own '
        'relation, up to 14 lifts per profile; Bucklin (both variants) additionally on 4-5 candidate bases with a shared rank of '
        'three or four candidates, the lifts of EVERY candidate (the premise is decided on the implementation\'s base result); '
        'thorough tier adds the exhaustive scopes (<=3 parties x votes<=4 x n<=5 x 5 divisors; '
        '<=3 candidates x <=3 strict ballots x 10 ranked rules, every lift and every new ballot). Non-trivial = base '
        'result is the sole winner w (winner rules) / at least two parties and a non-error base (ha).')
EXHAUSTIVE = {'thorough': True}
NOT_VERIFIED = ['new ballots w > a > b ... (kind new_full) are rule-level non-monotone for Bucklin, Copeland, minimax(winning votes) and '
                'Schulze: checked by the oracle and masked by one open known finding per rule; proved only for minimax with margins',
                'PreferenceAddition._decouple_equal_rankings is modelled (decouple/linearize) and tied to the code by the '
                'correspondence, but the Bucklin theorems cover profiles without shared ranks and split_equal_rankings=False',
                'ScoreVoting("sum", unscored_value): the per-candidate {score: count} tables, the fill-in entry scores[u] = n_votes - '
                'n_scores + scores.get(u, 0), their expansion into a list and builtin sum are modelled as sum of score x count + '
                '(n_votes - n_scores) x u (the driver cross-checks against the table model of C12 on every case)',
                'highest averages: the sorted list with bisect re-insertion is modelled as a pool (as in C01)',
                'hash-set iteration order of frozenset ballots and of Schulze.all_candidates is modelled as ascending ids / first appearance']


def describe(case):
    if case['rule'] == 'ha':
        return f"HighestAverages({case['base']['divisor']}): {case['base']} -> {case['kind']} -> {case['pert']}"
    return (f"{case['rule']}({case.get('param')}): base {py_profile(case['rule'], case['base'])!r} "
            f"-> {case['kind']} -> {py_profile(case['rule'], case['pert'])!r}; winner {NAMES.n(case['w'])}")


def shrink_candidates(case):
    return []


TECHNIQUE = ('Lean 4 proofs (unbounded) of house and vote monotonicity of the highest-averages loop (simulation / counting argument on the '
             'loop invariant) and of winner monotonicity of plurality, the five generated positional scorers, approval, score-sum, Bucklin, '
             'Copeland and minimax under single-unit lifts and new ballots + translated divisor and rank-score leaves + differential '
             'correspondence of both elections of every generated pair (and of the move itself) + an independent oracle of the relation')
LEVEL_TEXT = ('Both halves of C17 are theorems about the executable models the driver runs. Divisor rules: adding a seat never lowers any '
              "party's individually awarded seats and more votes for one party never lower its own, for ALL vote vectors, previous gains, caps "
              'and ties (no tie-freeness premise), for every positive non-decreasing divisor sequence, instantiated for the five divisors '
              'regenerated from divisor.py. Winner rules: for all profiles of well-formed ballots, if the one-seat result is [w] then it is still '
              '[w] after one unit of one ballot is replaced by the ballot with w lifted (approved / scored higher) or after an admissible new '
              'ballot: plurality, Borda/Dowdall/Geometric/ModifiedBorda/FixedTop (score lists regenerated from rankscore.py and proved '
              'non-increasing), approval, score-sum, Bucklin, Copeland (first and second order) and minimax (three scorers) on the ballot level '
              'and on the pairwise-matrix level; Schulze (strict beat-path win over everybody, on top of the Floyd-Warshall correctness proof of C05) '
              'likewise. The wider reading of the new ballot (w first, other candidates below) is proved harmless for minimax with margins / '
              'pairwise opposition and refuted on the models, by machine-checked witnesses, for Bucklin, Copeland, minimax with winning votes and '
              'Schulze (rule-level failures, recorded as open known findings). The models are tied to /repo by '
              'running both elections of every pair through votelib and the Lean driver, which also re-applies the move.')
LEVEL_NOTE = ('Trusted: Lean kernel + propext/Classical.choice/Quot.sound; translate.py for divisors and rank scorers; the correspondence harness '
              '(bounded by its generator: <=5 parties / <=4 candidates, 4-6 on majority cycles without Condorcet winner, exhaustive small scopes in the thorough tier); pool abstraction of the '
              'highest-averages sorted list; frozenset iteration order modelled as ascending ids. Not proved: default Bucklin on profiles with shared ranks; '
              "score-sum with unscored_value='min'. "
              'Reading decisions (DESIGN 7/C17): a lift re-inserts w as a rank of its own (joining a shared rank is '
              'not admissible: false for non-convex score sequences); new ballots name existing candidates only (Borda rescales otherwise); '
              'for Bucklin/Copeland/minimax/Schulze the bullet ballot is the proved reading and the full ballot w > a > b is checked as '
              "kind 'new_full' (fails at rule level except for minimax with margins; known findings).")
