"""C19 helper: for every class carrying to_dict and every constructor parameter with a default, a witness
(constructor spec with the parameter set, input seed) on which the outcome differs from the same object built with
the parameter left at its default.  A `to_dict` that silently drops such a parameter reloads the default, and the
outcome comparison of class_rt on exactly this witness notices it.

The table c19_sensitivity.json is data derived from the current library by `python c19_sensitivity.py --rebuild`
(deterministic); every check run replays the witnesses as class_rt cases and re-measures whether each still
distinguishes (tags class_sensitive / sens_lost)."""
import os
import sys
import json
import random
import inspect

HERE = os.path.dirname(os.path.abspath(__file__))
TABLE = os.path.join(HERE, 'c19_sensitivity.json')
N_INPUTS = 8


def params_with_default(cls):
    """constructor parameters that may be omitted (hence silently reset by a lossy to_dict)"""
    out = []
    try:
        sig = inspect.signature(cls.__init__)
    except (TypeError, ValueError):
        return out
    for name, p in sig.parameters.items():
        if name == 'self' or p.kind in (p.VAR_POSITIONAL, p.VAR_KEYWORD):
            continue
        if p.default is not inspect.Parameter.empty:
            out.append(name)
    return out


def all_params(cls_name, KL, rng, tries=60):
    """parameters the generator ever sets for the class (covers **kwargs-style constructors)"""
    seen = set()
    for _ in range(tries):
        seen.update(KL.gen_spec(rng, cls_name, depth=2)['args'])
    return seen


def without(spec, param):
    s = json.loads(json.dumps(spec))
    del s['args'][param]
    return s


def distinguishes(KL, spec, param, seed):
    try:
        a = KL.outcomes(KL.build(spec), seed, N_INPUTS)
        b = KL.outcomes(KL.build(without(spec, param)), seed, N_INPUTS)
    except Exception:
        return False
    return a != b


def _gen(KL, rng, cls_name, avoid):
    depth = rng.choice([1, 2, 2, 3])
    return KL.gen_spec(rng, cls_name, depth=depth, avoid=KL.AVOIDABLE) if avoid else KL.gen_spec(rng, cls_name, depth=depth)


def find(KL, specs_per_param=60, seeds=range(8), log=None):
    found, missing = [], []
    classes = KL.discover()
    for cls_name in sorted(KL.covered()):
        rng = random.Random('sens:' + cls_name)
        optional = set(params_with_default(classes[cls_name]))
        generated = all_params(cls_name, KL, rng)
        hazardous = sum(1 for _ in range(20) if KL.spec_hazards(KL.gen_spec(rng, cls_name, depth=2))) > 10
        # a parameter the generator sets but the signature does not name comes through *args / **kwargs
        sig_names = set(inspect.signature(classes[cls_name].__init__).parameters)
        candidates = sorted((optional & generated) | (generated - sig_names))
        never_set = sorted(optional - generated)
        for p in never_set:
            missing.append({'cls': cls_name, 'param': p, 'why': 'the generator never sets it'})
        for p in candidates:
            hit = None
            n_specs = 0
            for round_no in range(specs_per_param * 40):
                if hit or n_specs >= specs_per_param * (1 if round_no < specs_per_param * 6 else 5):
                    break
                big = round_no >= specs_per_param * 6          # second, larger pass for the stubborn ones
                spec = _gen(KL, rng, cls_name, hazardous)
                if p not in spec['args'] or not KL.is_deterministic(spec) or KL.spec_hazards(spec):
                    continue
                try:
                    KL.build(without(spec, p))
                except Exception:
                    continue            # not omissible in this combination
                n_specs += 1
                for seed in (range(24) if big else seeds):
                    if distinguishes(KL, spec, p, seed):
                        hit = {'cls': cls_name, 'param': p, 'spec': spec, 'seed': seed}
                        break
            if hit:
                found.append(hit)
            else:
                missing.append({'cls': cls_name, 'param': p, 'why': f'no distinguishing input in {n_specs} specs x {len(list(seeds))} seeds'})
            if log:
                log(cls_name, p, bool(hit))
    return found, missing


# ------------------------------------------------------------------------------------------------------------------
# hand-made witnesses for parameters the random search cannot reach with the generic inputs of c19_classes.outcomes():
# they need input shapes that outcomes() does not produce (approval votes nested by constituency, nested seat counts,
# max_seats).  `inputs` names a function below that evaluates the object on such inputs.

def _O(cls, **a):
    return {'t': 'obj', 'cls': cls, 'args': a}


_E = 'votelib.evaluate.'
_A2S = _O('votelib.convert.ApprovalToSimpleVotes')
_PLUR = _O(_E + 'core.PreConverted', converter=_A2S, evaluator=_O(_E + 'core.Plurality'))
MANUAL = [
    {'cls': 'votelib.candidate.Coalition', 'param': 'affiliations', 'seed': 0, 'spec': {'t': 'obj', 'cls': 'votelib.candidate.Coalition', 'args': {'parties': {'t': 'list', 'v': [{'t': 'obj', 'cls': 'votelib.candidate.PoliticalParty', 'args': {'name': {'t': 'str', 'v': 'Greens'}, 'number': {'t': 'int', 'v': 28}, 'withdrawn': {'t': 'bool', 'v': True}}}, {'t': 'obj', 'cls': 'votelib.candidate.PoliticalParty', 'args': {'name': {'t': 'str', 'v': 'A'}, 'number': {'t': 'int', 'v': 20}}}, {'t': 'obj', 'cls': 'votelib.candidate.PoliticalParty', 'args': {'name': {'t': 'str', 'v': 'X-1'}, 'number': {'t': 'int', 'v': 11}}}]}, 'name': {'t': 'str', 'v': 'Émile Zola'}, 'number': {'t': 'int', 'v': 30}, 'affiliations': {'t': 'list', 'v': [{'t': 'obj', 'cls': 'votelib.candidate.PoliticalParty', 'args': {'name': {'t': 'str', 'v': 'Aff'}}}]}}}},
    {'cls': 'votelib.candidate.Coalition', 'param': 'lead', 'seed': 0, 'spec': {'t': 'obj', 'cls': 'votelib.candidate.Coalition', 'args': {'parties': {'t': 'list', 'v': [{'t': 'obj', 'cls': 'votelib.candidate.PoliticalParty', 'args': {'name': {'t': 'str', 'v': 'Greens'}, 'number': {'t': 'int', 'v': 28}, 'withdrawn': {'t': 'bool', 'v': True}}}, {'t': 'obj', 'cls': 'votelib.candidate.PoliticalParty', 'args': {'name': {'t': 'str', 'v': 'A'}, 'number': {'t': 'int', 'v': 20}}}, {'t': 'obj', 'cls': 'votelib.candidate.PoliticalParty', 'args': {'name': {'t': 'str', 'v': 'X-1'}, 'number': {'t': 'int', 'v': 11}}}]}, 'name': {'t': 'str', 'v': 'Émile Zola'}, 'number': {'t': 'int', 'v': 30}, 'lead': {'t': 'obj', 'cls': 'votelib.candidate.Person', 'args': {'name': {'t': 'str', 'v': 'Lea Der'}}}}}},
    {'cls': _E + 'core.ByConstituency', 'param': 'subsetter', 'seed': 0, 'inputs': 'nested_approval',
     'spec': _O(_E + 'core.ByConstituency', evaluator=_PLUR, preselector=_PLUR, subsetter=_O('votelib.vote.ApprovalSubsetter'))},
    {'cls': _E + 'core.ByParty', 'param': 'subsetter', 'seed': 0, 'inputs': 'nested_approval',
     'spec': _O(_E + 'core.ByParty', overall_evaluator=_O(_E + 'core.PreConverted', converter=_A2S, evaluator=_O(_E + 'proportional.HighestAverages')),
                allocator=_O(_E + 'proportional.HighestAverages'), subsetter=_O('votelib.vote.ApprovalSubsetter'))},
    {'cls': _E + 'core.UnusedVotesDistributor', 'param': 'depth', 'seed': 0, 'inputs': 'nested_seats',
     'spec': _O(_E + 'core.UnusedVotesDistributor',
                rounds={'t': 'list', 'v': [
                    _O(_E + 'core.ByConstituency', evaluator=_O(_E + 'proportional.QuotaDistributor', quota_function={'t': 'str', 'v': 'imperiali'},
                                                                on_overaward={'t': 'str', 'v': 'subtract'})),
                    _O(_E + 'core.RemovedApportionment', evaluator=_O(_E + 'core.ByParty', overall_evaluator=_O(
                        _E + 'proportional.LargestRemainder', quota_function={'t': 'str', 'v': 'droop'})))]},
                quota_functions={'t': 'list', 'v': [{'t': 'callable', 'v': 'votelib.component.quota.imperiali'}]},
                depth={'t': 'int', 'v': 2})},
    {'cls': _E + 'sequential.TransferableVoteDistributor', 'param': 'mandatory_quota', 'seed': 0, 'inputs': 'ranked_max_seats',
     'spec': _O(_E + 'sequential.TransferableVoteDistributor', mandatory_quota={'t': 'bool', 'v': True})},
]


def custom_outcomes(KL, name, obj):
    """canonical outcomes of `obj` on the hand-made inputs `name`"""
    fs = frozenset
    if name == 'nested_approval':
        votes = [({'X': {fs('AB'): 5, fs('B'): 3, fs('C'): 4}, 'Y': {fs('A'): 2, fs('BC'): 6, fs('AC'): 1}}, n) for n in (2, 3)]
        return [KL._try(lambda v=v, n=n: obj.evaluate(v, n)) for v, n in votes]
    if name == 'nested_seats':
        sv = {'N': {'A': 50, 'B': 30, 'C': 20}, 'S': {'A': 10, 'B': 40, 'C': 25}}
        return [KL._try(lambda: obj.evaluate(sv, {'N': 3, 'S': 2})), KL._try(lambda: obj.evaluate(sv, {'N': 1, 'S': 4}))]
    if name == 'ranked_max_seats':
        cap = {'A': 1, 'B': 1, 'C': 1}
        return [KL._try(lambda: obj.evaluate({('A',): 6, ('B',): 2, ('C',): 1}, 2, max_seats=dict(cap))),
                KL._try(lambda: obj.evaluate({('A', 'B'): 5, ('B',): 1, ('C', 'B'): 2}, 2, max_seats=dict(cap)))]
    if name == 'property_kind':       # parties whose property 'kind' is a str, an int, None, a bool, a tuple, or missing
        import votelib.candidate as vc
        kinds = [('Minor', 'minority', 40), ('Duo', 2, 80), ('Anon', None, 70), ('Flag', True, 75), ('Pair', ('x', 1), 65), ('Other', 'x', 60)]
        votes = {vc.PoliticalParty('Big'): 500, vc.PoliticalParty('Mid'): 300}
        for nm, kind, n in kinds:
            votes[vc.PoliticalParty(nm, properties={'kind': kind})] = n
        return [KL._try(lambda n=n: obj.evaluate(dict(votes), n)) for n in (10, 7)] + [KL._try(lambda: obj.evaluate(dict(votes)))]
    raise ValueError(name)


def witness_distinguishes(KL, w):
    if not KL.is_deterministic(without(w['spec'], w['param'])):
        return True        # the default is "unseeded random": any fixed seed differs from it by definition
    if 'inputs' not in w:
        return distinguishes(KL, w['spec'], w['param'], w['seed'])
    try:
        a = custom_outcomes(KL, w['inputs'], KL.build(w['spec']))
        b = custom_outcomes(KL, w['inputs'], KL.build(without(w['spec'], w['param'])))
    except Exception:
        return False
    return a != b


def load():
    if not os.path.exists(TABLE):
        return {'found': [], 'missing': []}
    t = json.load(open(TABLE))
    have = {(w['cls'], w['param']) for w in t['found']}
    t['found'] = t['found'] + [w for w in MANUAL if (w['cls'], w['param']) not in have]
    t['missing'] = [m for m in t['missing'] if (m['cls'], m['param']) not in {(w['cls'], w['param']) for w in MANUAL}]
    return t


if __name__ == '__main__':
    sys.path.insert(0, os.path.dirname(HERE))
    sys.path.insert(0, os.environ.get('VOTELIB_REPO', '/repo'))
    import props.c19_classes as KL
    found, missing = find(KL, log=(lambda c, p, ok: print(('ok   ' if ok else 'MISS ') + c + '.' + p, flush=True)))
    if '--rebuild' in sys.argv:
        json.dump({'found': found, 'missing': missing}, open(TABLE, 'w'), indent=0)
    print(len(found), 'witnesses;', len(missing), 'without')
    for m in missing:
        print('  ', m['cls'], m['param'], '-', m['why'])
