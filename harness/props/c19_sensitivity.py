"""C19 helper: for every class carrying to_dict and every constructor parameter with a default, a witness
(constructor spec with the parameter set, input seed) on which the outcome differs from the same object built with
the parameter left at its default.  A `to_dict` that silently drops such a parameter reloads the default, and the
outcome comparison of class_rt on exactly this witness notices it.

The table c19_sensitivity.json is data derived from the current library by `python c19_sensitivity.py --rebuild`
(deterministic); every check run replays the witnesses as class_rt cases and re-measures whether each still
distinguishes (tags class_sensitive / sens_lost)."""
import os
import sys
import json
import random
import inspect

HERE = os.path.dirname(os.path.abspath(__file__))
TABLE = os.path.join(HERE, 'c19_sensitivity.json')
N_INPUTS = 8


def params_with_default(cls):
    """constructor parameters that may be omitted (hence silently reset by a lossy to_dict)"""
    out = []
    try:
        sig = inspect.signature(cls.__init__)
    except (TypeError, ValueError):
        return out
    for name, p in sig.parameters.items():
        if name == 'self' or p.kind in (p.VAR_POSITIONAL, p.VAR_KEYWORD):
            continue
        if p.default is not inspect.Parameter.empty:
            out.append(name)
    return out


def all_params(cls_name, KL, rng, tries=60):
    """parameters the generator ever sets for the class (covers **kwargs-style constructors)"""
    seen = set()
    for _ in range(tries):
        seen.update(KL.gen_spec(rng, cls_name, depth=2)['args'])
    return seen


def without(spec, param):
    s = json.loads(json.dumps(spec))
    del s['args'][param]
    return s


def distinguishes(KL, spec, param, seed):
    try:
        a = KL.outcomes(KL.build(spec), seed, N_INPUTS)
        b = KL.outcomes(KL.build(without(spec, param)), seed, N_INPUTS)
    except Exception:
        return False
    return a != b


def _gen(KL, rng, cls_name, avoid):
    depth = rng.choice([1, 2, 2, 3])
    return KL.gen_spec(rng, cls_name, depth=depth, avoid=KL.AVOIDABLE) if avoid else KL.gen_spec(rng, cls_name, depth=depth)


def find(KL, specs_per_param=60, seeds=range(8), log=None):
    found, missing = [], []
    classes = KL.discover()
    for cls_name in sorted(KL.covered()):
        rng = random.Random('sens:' + cls_name)
        optional = set(params_with_default(classes[cls_name]))
        generated = all_params(cls_name, KL, rng)
        hazardous = sum(1 for _ in range(20) if KL.spec_hazards(KL.gen_spec(rng, cls_name, depth=2))) > 10
        # a parameter the generator sets but the signature does not name comes through *args / **kwargs
        sig_names = set(inspect.signature(classes[cls_name].__init__).parameters)
        candidates = sorted((optional & generated) | (generated - sig_names))
        never_set = sorted(optional - generated)
        for p in never_set:
            missing.append({'cls': cls_name, 'param': p, 'why': 'the generator never sets it'})
        for p in candidates:
            hit = None
            n_specs = 0
            for round_no in range(specs_per_param * 40):
                if hit or n_specs >= specs_per_param * (1 if round_no < specs_per_param * 6 else 5):
                    break
                big = round_no >= specs_per_param * 6          # second, larger pass for the stubborn ones
                spec = _gen(KL, rng, cls_name, hazardous)
                if p not in spec['args'] or not KL.is_deterministic(spec) or KL.spec_hazards(spec):
                    continue
                try:
                    KL.build(without(spec, p))
                except Exception:
                    continue            # not omissible in this combination
                n_specs += 1
                for seed in (range(24) if big else seeds):
                    if distinguishes(KL, spec, p, seed):
                        hit = {'cls': cls_name, 'param': p, 'spec': spec, 'seed': seed}
                        break
            if hit:
                found.append(hit)
            else:
                missing.append({'cls': cls_name, 'param': p, 'why': f'no distinguishing input in {n_specs} specs x {len(list(seeds))} seeds'})
            if log:
                log(cls_name, p, bool(hit))
    return found, missing


def load():
    if not os.path.exists(TABLE):
        return {'found': [], 'missing': []}
    return json.load(open(TABLE))


if __name__ == '__main__':
    sys.path.insert(0, os.path.dirname(HERE))
    sys.path.insert(0, os.environ.get('VOTELIB_REPO', '/repo'))
    import props.c19_classes as KL
    found, missing = find(KL, log=(lambda c, p, ok: print(('ok   ' if ok else 'MISS ') + c + '.' + p, flush=True)))
    if '--rebuild' in sys.argv:
        json.dump({'found': found, 'missing': missing}, open(TABLE, 'w'), indent=0)
    print(len(found), 'witnesses;', len(missing), 'without')
    for m in missing:
        print('  ', m['cls'], m['param'], '-', m['why'])
