"""C04 — transferable vote seats quota-sized solid coalitions; result shape; exact Gregory count."""
import itertools
from fractions import Fraction
from common import *   # noqa
from props.stvlib import *   # noqa

ID = 'C04'
NAMESPACE = 'VL.C04'
LEAN_MODULES = ['VotelibProofs.Props.C04']
GEN_MODULES = ['Quota']
REQUIRED = ['pscCheck_sound_complete', 'unsupported_coalition_trivial', 'droop_at_least_half', 'hare_at_least_half',
            'majority_first_choice_wins', 'mutual_majority', 'gregory_sub_bound', 'hare_sub_bound', 'psc_general',
            'droop_exceeds', 'hare_exceeds', 'psc_droop', 'psc_check_passes', 'result_shape', 'droop_positive', 'hare_positive', 'full_list_or_refusal',
            'no_infinite_loop', 'shared_rank_coalition_seated']
UNPROVED = []
NAME_MODES = ['str', 'int0', 'empty0', 'person', 'tuple']
REQUIRED_COUNTERS = ['coalition_k_ge_1_and_larger', 'refusal', 'hare', 'shared_ranks', 'majority_winner', 'psc_false',
                     'multi_seat', 'hare_quota', 'impl_outcome_checked', 'fraction_weights',
                     # generator audit (harness/GENERATOR_CHECKLIST.md)
                     'big_on_quota', 'big_below_quota', 'big_above_quota', 'big_near_tie', 'big_coalition', 'decimal_weights',
                     'decimal_long', 'zero_total', 'shared_only_candidate', 'shared_rank_3', 'shared_rank_4plus', 'four_plus_seats',
                     'exhausted_several_quotas', 'quota_callable', 'quota_constant', 'quota_none', 'transferer_by_name',
                     'retainer_plurality', 'step_-2', 'accept_equal_false', 'mandatory_quota', 'sens_accept_equal',
                     'sens_mandatory_quota', 'sens_eliminate_step', 'warmup_refusal', 'warmup_larger', 'warmup_other_n', 'warmup_big',
                     'reference_count_compared', 'hare_fractional_quota_close_exclusion', 'hare_fractional_quota_exclusion_tie',
                     # checklist items 10-12
                     'three_elected_one_count', 'two_on_quota_exactly', 'two_on_quota_exactly_not_accepted', 'hare_3way_remainder2',
                     'step2_tie_inside_eliminated', 'step2_tie_at_boundary', 'two_over_awarded', 'quota_below_one',
                     'fewer_votes_than_seats', 'n_seats_zero', 'cross_selector_options',
                     'hare_shared_first_coalition_on_quota', 'deep_only_candidate_last_ballot_short']
RULE = ('(audited against harness/GENERATOR_CHECKLIST.md) ranked profiles over 1-6 candidates, 1-10 ballot types, with and without shared ranks, truncated ballots, weights from a '
        'tie-forcing small set / Fractions / integers up to 10^20, all n_seats 1..#candidates, quota droop / hare, Gregory and '
        'Hare(seed) transfer (Hare with the integer droop quota), TransferableVoteSelector.evaluate; every outcome of the '
        'implementation is additionally passed through the verified PSC checker (psc_check), as are synthetic outcomes that '
        'violate PSC; directed Hare-quota profiles with a fractional quota, a surplus and a later exclusion decided by less than one '
        'vote or an exact tie (found with the reference count); every Gregory outcome is compared with an independent exact '
        'weighted-inclusive-Gregory count written in the harness; thorough tier: exhaustive 3-candidate profiles of 3 ballot types (strict, and with shared ranks), weights 1..3. '
        'Non-trivial = at least two candidates and a result that is not an error; distinct by canonical request.')
NOT_VERIFIED = ['Decimal (and float) vote counts: the STV classes raise TypeError in every configuration (Fraction(Decimal, ...) in the '
                'quota functions / Decimal // float without a quota); generated as a pinned refusal, whatever is returned instead is compared',
                'a retainer other than Plurality(), a non-negative eliminate_step once nobody is left (IndexError instead of '
                'VotingSystemError): outside the quantifier, accepted as equivalent outcomes',
                'random module: Hare draws are recorded and replayed to the model (DrawOK contract checked on both sides)',
                'iteration order of frozensets (shared ranks) as observed in the harness process',
                'PSC is proved for the selector form (max_seats = 1); in addition every model and implementation outcome is run through '
                'the verified checker pscCheck']
EXHAUSTIVE = {'thorough': False}
_CACHE = {}


def _bad_clause(msg):
    return ('float_in_exact_path' if msg.startswith('float in') else 'object_changed_in_place' if msg.startswith('aliasing')
            else 'draw_contract')


def _tag(case, *tags):
    ts = case.setdefault('_tags', [])
    for t in tags:
        if t not in ts:
            ts.append(t)


# ------------------------------------------------------------------------------------------------
# the property in Python (independent of the model)

def prefix_sets(b):
    """candidate sets of the rank prefixes of a ballot (non-empty), with the prefix length"""
    out = []
    cur = []
    for j, it in enumerate(b):
        for c in (it if isinstance(it, list) else [it]):
            if c not in cur:
                cur.append(c)
        if cur:
            out.append((j + 1, frozenset(cur)))
    return out


def solid_for(b, S):
    return any(ps == S for _, ps in prefix_sets(b))


def psc_violations(votes, q, elected):
    """[(S, support, k, elected members, shared rank inside a supporting prefix?)] for every violated coalition"""
    out = []
    seen = set()
    for b, _ in votes:
        for _, S in prefix_sets(b):
            if S in seen:
                continue
            seen.add(S)
            sup = Fraction(0)
            shared_inside = False
            for b2, w2 in votes:
                for j, ps in prefix_sets(b2):
                    if ps == S:
                        sup += Fraction(w2)
                        if Fraction(w2) != 0 and any(isinstance(it, list) and len(it) > 1 for it in b2[:j]):
                            shared_inside = True
                        break
            k = sup // q
            got = len(S & set(elected))
            if got < min(k, len(S)):
                out.append((sorted(S), sup, int(k), got, shared_inside))
    return out


class _Refusal(Exception):
    pass


def reference_gregory(votes, n, q):
    """Independent exact weighted-inclusive-Gregory count, written from the textbook rules with Fractions (nothing of votelib):
    the quota q is fixed on all votes cast; when as many candidates continue as seats are open they are all elected; otherwise
    everybody at or above the quota is elected together, every paper of theirs keeps the share (total - q) / total of its value
    and moves to the highest rank of its ballot that still has continuing candidates, divided equally among them; if nobody has
    the quota the single lowest candidate is excluded and its papers move on at full value; an exclusion tie is a refusal.
    votes: [(ballot, Fraction)], ballot = list of ranks (id | list of ids).  Returns (elected set, diagnostics) or raises _Refusal.
    diagnostics: 'surplus' (an election left a positive surplus), 'margin' (smallest gap lowest / second lowest at an exclusion
    that follows such an election)."""
    cands = profile_cands([[b, w] for b, w in votes])
    cont = list(cands)
    piles = {c: {} for c in cands}          # candidate -> {ballot index: value}

    def place(i, w, live):
        for it in votes[i][0]:
            members = [c for c in (it if isinstance(it, list) else [it]) if c in live]
            if members:
                for c in members:
                    piles[c][i] = piles[c].get(i, Fraction(0)) + w / len(members)
                return
    for i, (b, w) in enumerate(votes):
        place(i, Fraction(w), cont)
    elected = []
    diag = {'surplus': False, 'margin': None}
    while len(elected) < n:
        open_seats = n - len(elected)
        if len(cont) < open_seats:
            raise _Refusal('fewer candidates than seats')
        if len(cont) == open_seats:
            elected += cont
            break
        tot = {c: sum(piles[c].values(), Fraction(0)) for c in cont}
        winners = [c for c in cont if q is not None and tot[c] >= q]
        if winners:
            if len(winners) > open_seats:
                raise _Refusal('more candidates on the quota than seats')
            moved = []
            for c in winners:
                keep = (tot[c] - q) / tot[c]
                if tot[c] > q:
                    diag['surplus'] = True
                moved += [(i, w * keep) for i, w in piles[c].items()]
                del piles[c]
            cont = [c for c in cont if c not in winners]
            elected += winners
            for i, w in moved:
                place(i, w, cont)
        else:
            low = min(tot.values())
            lowest = [c for c in cont if tot[c] == low]
            if diag['surplus']:
                rest = sorted(tot.values())
                gap = rest[1] - rest[0]
                diag['margin'] = gap if diag['margin'] is None else min(diag['margin'], gap)
            if len(lowest) > 1:
                raise _Refusal('exclusion tie')
            c = lowest[0]
            moved = list(piles[c].items())
            del piles[c]
            cont = [x for x in cont if x != c]
            for i, w in moved:
                place(i, w, cont)
    return set(elected), diag


def _reference_applies(case):
    """the configurations for which the statement promises agreement with the exact Gregory count"""
    return (case['op'] == 'stv_eval_psc' and case['method'] == 'gregory' and case.get('quota') in ('droop', 'hare')
            and case.get('step', -1) == -1 and not case.get('mandatory') and case.get('accept_equal', True)
            and case.get('wtype') != 'decimal' and 1 <= case['n'] <= len(profile_cands(case['votes'])))


def _first_pref_totals(votes):
    tot = {}
    for b, w in votes:
        if b and not isinstance(b[0], list):
            tot[b[0]] = tot.get(b[0], Fraction(0)) + Fraction(w)
    return tot


# ------------------------------------------------------------------------------------------------
# implementation side

def _quota_used(case, votes):
    """textbook value of the configured quota (harness/props/stvlib.REF_QUOTAS), not taken from votelib"""
    return ref_quota(case, sum(Fraction(v) for v in votes.values()), case['n'])


def impl(case):
    try:
        with hard_guard():
            return _impl(case)
    except HarnessTimeout as e:
        if case['op'] == 'psc_check':
            return None
        _CACHE[case_key(case)] = []
        return {'result': {'err': 'CaseExceedsTimeBudget'}, 'quota': None, 'psc': None, '_msg': str(e), '_bad_draws': [], '_quotas': []}


def _impl(case):
    key = case_key(case)
    if case['op'] == 'psc_check':
        votes = [(b, Fraction(w)) for b, w in case['votes']]
        ok = not psc_violations(votes, Fraction(case['q']), case['elected'])
        _tag(case, 'psc_true' if ok else 'psc_false')
        return ok
    votes = py_votes(case)
    n = case['n']
    res, counts, draws, bad, msg = record_run(case, lambda d, s: s.evaluate(votes, n), args={'votes': votes})
    result = res if isinstance(res, dict) else [NAMES.i(c) for c in res]
    quotas = [rec['quota'] for rec in counts if rec.get('quota') is not None]
    q = Fraction(quotas[-1]) if quotas else _quota_used(case, votes)
    psc = None
    if isinstance(result, list) and q is not None and q > 0:
        psc = not psc_violations([(b, Fraction(w)) for b, w in case['votes']], q, result)
    _CACHE[key] = draws
    # counters
    for b, _ in case['votes']:
        for it in b:
            if isinstance(it, list) and len(it) == 3:
                _tag(case, 'shared_rank_3')
            if isinstance(it, list) and len(it) >= 4:
                _tag(case, 'shared_rank_4plus')
    alone = {it for b, _ in case['votes'] for it in b if not isinstance(it, list)}
    if any(c not in alone for c in profile_cands(case['votes'])):
        _tag(case, 'shared_only_candidate')
    if n >= 4:
        _tag(case, 'four_plus_seats')
    if case.get('wtype') == 'decimal':
        _tag(case, 'decimal_weights')
        if any(Fraction(w).denominator > 10 ** 6 for _, w in case['votes']):
            _tag(case, 'decimal_long')
    if case['votes'] and sum(Fraction(w) for _, w in case['votes']) == 0:
        _tag(case, 'zero_total')
    qf = case.get('quota')
    _tag(case, 'quota_none' if qf is None else 'quota_constant' if quota_is_const(qf)
         else 'quota_callable' if case.get('quota_form') == 'callable' else 'quota_name')
    if case.get('transferer_form') == 'name':
        _tag(case, 'transferer_by_name')
    if case.get('retainer'):
        _tag(case, 'retainer_plurality')
    if case.get('step', -1) == -2:
        _tag(case, 'step_-2')
    if not case.get('accept_equal', True):
        _tag(case, 'accept_equal_false')
    if case.get('mandatory'):
        _tag(case, 'mandatory_quota')
    if case.get('warmup'):
        _tag(case, 'warmup_' + case.get('_warm_kind', 'x'))
    if n == 0:
        _tag(case, 'n_seats_zero')
    if deep_only_after_last(case['votes']):
        _tag(case, 'deep_only_candidate_last_ballot_short')
    if case['votes'] and 0 < sum(Fraction(w) for _, w in case['votes']) < n:
        _tag(case, 'fewer_votes_than_seats')
    if any(d.get('c') is not None and d.get('_k', 0) >= 3 and Fraction(d.get('_n', '0')) >= 2 for d in draws):
        _tag(case, 'hare_3way_remainder2')
    for rec in counts:
        if 'err' in rec or rec['shortcut']:
            continue
        qv = Fraction(rec['quota']) if rec.get('quota') is not None else None
        tin = {h: sum((Fraction(w) for _, w in pile), Fraction(0)) for h, pile in rec['alloc_in']}
        if qv is not None and 0 < qv < 1:
            _tag(case, 'quota_below_one')
        if len(rec['elected']) >= 3:
            _tag(case, 'three_elected_one_count')
        if qv is not None and sum(1 for c, k in rec['elected'] if tin.get(c) == k * qv) >= 2:
            _tag(case, 'two_on_quota_exactly')
        if qv is not None and qv > 0 and rec['elected']:
            n_rem = n - sum(k for _, k in rec['prev'])
            if sum(1 for h, t in tin.items() if h is not None and t >= qv) - n_rem >= 2 and n_rem >= 1:
                _tag(case, 'two_over_awarded')
        if case.get('step', -1) == -2 and not rec['elected'] and len(rec['eliminated']) == 2 \
                and tin.get(rec['eliminated'][0]) == tin.get(rec['eliminated'][1]):
            _tag(case, 'step2_tie_inside_eliminated')
    for rec in counts:
        if 'err' in rec or rec.get('quota') is None:
            continue
        exh = sum((Fraction(w) for h, pile in rec['alloc_in'] if h is None for _, w in pile), Fraction(0))
        if Fraction(rec['quota']) > 0 and exh >= 2 * Fraction(rec['quota']):
            _tag(case, 'exhausted_several_quotas')
    if case['method'] == 'hare':
        _tag(case, 'hare')
    if case.get('quota') == 'hare':
        _tag(case, 'hare_quota')
    if n >= 2:
        _tag(case, 'multi_seat')
    if any(has_shared(b) for b, _ in case['votes']):
        _tag(case, 'shared_ranks')
    if any(Fraction(w).denominator != 1 for _, w in case['votes']):
        _tag(case, 'fraction_weights')
    if isinstance(result, dict) and result.get('err') == 'NotImplementedError':
        _tag(case, 'refusal')
    if q is not None and q > 0 and isinstance(result, list):
        seen = set()
        for b, _ in case['votes']:
            for _, S in prefix_sets(b):
                if S not in seen:
                    seen.add(S)
                    sup = sum((Fraction(w2) for b2, w2 in case['votes'] if solid_for(b2, S)), Fraction(0))
                    if 1 <= sup // q < len(S):
                        _tag(case, 'coalition_k_ge_1_and_larger')
    V = sum(Fraction(w) for _, w in case['votes'])
    if n == 1 and any(t > V / 2 for t in _first_pref_totals(case['votes']).values()):
        _tag(case, 'majority_winner')
    return {'result': result, 'quota': qstr(q), 'psc': psc, '_msg': msg, '_bad_draws': bad,
            '_quotas': sorted({json.dumps(rec.get('quota')) for rec in counts if 'err' not in rec and not rec['shortcut']}
                              | {json.dumps(rec.get('quota_seen')) for rec in counts if rec.get('quota_computed')})}


def oracle(case, obs):
    if case['op'] == 'psc_check':
        return []
    out = []
    if obs['_bad_draws']:
        out.append((_bad_clause(obs['_bad_draws'][0]), obs['_bad_draws'][0]))
    res = obs['result']
    cands = profile_cands(case['votes'])
    n = case['n']
    default_opts = (case.get('step', -1) == -1 and not case.get('mandatory') and case.get('accept_equal', True))
    # the quota in force is the textbook value of the configured quota (computed here, not taken from votelib)
    want_q = ref_quota(case, sum((Fraction(w) for _, w in case['votes']), Fraction(0)), n)
    for got in obs.get('_quotas', []):
        got = json.loads(got)
        if (None if got is None else Fraction(got)) != want_q:
            out.append(('quota_value', f'quota {got} used, the configured quota is {want_q}'))
            break
    if _reference_applies(case):
        # "with fractional (Gregory) transfers it coincides with an independently computed weighted-inclusive-Gregory count,
        #  unresolved elimination or surplus ties surfacing as an explicit refusal"
        _tag(case, 'reference_count_compared')
        try:
            ref, _ = reference_gregory([(b, Fraction(w)) for b, w in case['votes']], n, want_q)
            ref_desc = sorted(ref)
        except _Refusal as r:
            ref, ref_desc = None, f'refusal ({r})'
        if isinstance(res, list):
            if ref is None or set(res) != ref:
                out.append(('differs_from_exact_gregory_count', f'elected {sorted(res)}, the exact count gives {ref_desc}'))
        elif isinstance(res, dict) and res.get('err') == 'NotImplementedError' and ref is not None:
            out.append(('differs_from_exact_gregory_count', f'refused, the exact count elects {ref_desc}'))
    if isinstance(res, dict) and budget_clause(res.get('err')):
        out.append((budget_clause(res['err']), str(obs.get('_msg'))))
        return out
    if isinstance(res, dict):
        e = res.get('err')
        if e == 'NotImplementedError':
            return out          # declared refusal (unresolved tie)
        if e == 'TypeError' and case.get('wtype') == 'decimal':
            return out          # Decimal vote counts are not supported by the STV classes in any configuration
        if e == 'VotingSystemError':
            # the property promises n winners only "whenever that many stand"; with mandatory_quota or a step of -2 the count may
            # legitimately run out of candidates (options outside the quantifier of C04)
            if 1 <= n <= len(cands) and case.get('step', -1) == -1 and not case.get('mandatory'):
                out.append(('infinite_loop', f"VotingSystemError: {obs.get('_msg')}"))
        else:
            out.append(('unexpected_error', f"{e}: {obs.get('_msg')}"))
        return out
    if 1 <= n <= len(cands):
        if len(res) != n or len(set(res)) != len(res) or any(c not in cands for c in res):
            out.append(('result_shape', f'{res} for {n} seats among {len(cands)} candidates'))
    V = sum(Fraction(w) for _, w in case['votes'])
    # the majority clause needs a quota of at least half the votes (true of droop / hare / hagenbach_bischoff, the quotas of the
    # quantifier); a smaller constant quota lets several candidates qualify for the one seat
    if n == 1 and (want_q is None or want_q >= V / 2):
        for c, t in _first_pref_totals(case['votes']).items():
            if t > V / 2 and res != [c]:
                out.append(('majority_first_choice', f'{c} is first on {t} of {V} ballots, elected {res}'))
    psc_applies = (default_opts or (case.get('mandatory') and case.get('step', -1) == -1 and case.get('accept_equal', True))) \
        and case.get('quota') in ('droop', 'hare')
    if obs['quota'] is not None and Fraction(obs['quota']) <= 0:
        out.append(('quota_not_positive', f'quota {obs["quota"]}'))
    elif obs['quota'] is not None and psc_applies:
        for S, sup, k, got, shared_inside in psc_violations([(b, Fraction(w)) for b, w in case['votes']], Fraction(obs['quota']), res):
            code = 'psc_coalition_with_shared_rank' if shared_inside else 'psc'
            out.append((code, f'coalition {S} is solidly supported by {sup} = {k} quota(s) of {obs["quota"]}, only {got} elected in {res}'))
            break
    return out


def nontrivial(case, obs):
    if case['op'] == 'psc_check':
        return True
    return len(profile_cands(case['votes'])) >= 2 and isinstance(obs['result'], list)


# ------------------------------------------------------------------------------------------------
# model side

def model_line(case):
    if case['op'] == 'psc_check':
        return {'op': 'psc_check', 'votes': [[case_to_model_ballot(b), w] for b, w in case['votes']], 'q': case['q'],
                'elected': case['elected']}
    key = case_key(case)
    if key not in _CACHE:
        impl(case)
    line = {'op': 'stv_eval_psc', 'n': case['n'], 'form': 'selector', 'prev': [], 'max': [], 'draws': _CACHE[key],
            'votes': [[case_to_model_ballot(b), w] for b, w in case['votes']]}
    line.update(cfg_line(case))
    return line


def compare(case, iobs, mobs):
    if case['op'] == 'psc_check':
        return None if iobs == mobs else f'python checker {iobs}, verified checker {mobs}'
    if not isinstance(mobs, dict):
        return f'model answered {mobs}'
    if case.get('wtype') == 'decimal' and iobs['result'] == {'err': 'TypeError'}:
        _tag(case, 'decimal_rejected')
        return None
    if canon(iobs['result']) != canon(mobs.get('result')):
        return f'result impl={iobs["result"]} model={mobs.get("result")}'
    if (iobs['quota'] is None) != (mobs.get('quota') is None) or (
            iobs['quota'] is not None and Fraction(iobs['quota']) != Fraction(mobs['quota'])):
        return f'quota impl={iobs["quota"]} model={mobs.get("quota")}'
    if isinstance(iobs['result'], list) and iobs['psc'] != mobs.get('psc'):
        return f'psc verdict: python {iobs["psc"]}, verified checker {mobs.get("psc")}'
    return None


# ------------------------------------------------------------------------------------------------
# generator

def _case(rng, votes, n, method='gregory', quota='droop', seed=0, tags=(), **opts):
    c = {'op': 'stv_eval_psc', 'votes': votes, 'n': n, 'form': 'selector', 'method': method, 'seed': seed, 'quota': quota,
         'accept_equal': True, 'mandatory': False, 'step': -1, '_tags': list(tags)}
    c.update(opts)
    if method == 'hare':
        if c['quota'] in ('hare', 'hagenbach_bischoff'):
            c['quota'] = 'droop'
        c['votes'] = [[b, num_str(int(Fraction(w)))] for b, w in votes]
        if c.get('warmup'):
            c['warmup'] = {'votes': [[b, num_str(int(Fraction(w)))] for b, w in c['warmup']['votes']], 'n': c['warmup']['n']}
    return c


def _checked(case):
    """the case, followed by the verified-checker run on the implementation's own outcome"""
    yield case
    obs = impl(case)
    if isinstance(obs['result'], list) and obs['quota'] is not None and Fraction(obs['quota']) > 0:
        yield {'op': 'psc_check', 'votes': case['votes'], 'q': obs['quota'], 'elected': obs['result'],
               '_tags': ['impl_outcome_checked']}


def _coalition_profile(rng, m, strict=True):
    """a solid coalition S holding k >= 1 quotas, larger than k, plus outsiders"""
    size = rng.randint(2, max(2, m - 1))
    S = list(range(size))
    rest = list(range(size, m))
    votes = {}
    for _ in range(rng.randint(2, 5)):
        p = S[:]
        rng.shuffle(p)
        o = rest[:]
        rng.shuffle(o)
        o = o[:rng.randint(0, len(o))]
        b = p + o
        votes[json.dumps(b)] = (b, rng.choice([2, 3, 4, 5, 6, 8]))
    for _ in range(rng.randint(1, 4)):
        o = rest[:] + (S[:] if rng.random() < 0.3 else [])
        rng.shuffle(o)
        b = o[:rng.randint(1, len(o))] if o else [S[0]]
        votes[json.dumps(b)] = (b, rng.choice([1, 2, 3, 4, 5, 7]))
    return [[b, num_str(w)] for b, w in votes.values()]


def _directed(rng):
    r = rng.randint
    # majority first choice (single seat), droop and hare quota, integer and fractional weights
    yield from _checked(_case(rng, [[[0, 1], num_str(6 + r(0, 3))], [[1, 2], '3'], [[2], '2']], 1, quota='droop', tags=['directed']))
    yield from _checked(_case(rng, [[[0], '8/5'], [[1, 0], '7/10'], [[2, 1], '7/10']], 1, quota=rng.choice(['droop', 'hare']), tags=['directed']))
    # coalition with k >= 1 quotas and more members than quotas
    yield from _checked(_case(rng, _coalition_profile(rng, 5), 2, quota='droop', tags=['directed']))
    yield from _checked(_case(rng, [[[0, 1, 2], '4'], [[1, 0, 2], '3'], [[2, 3], '5'], [[3], '6'], [[4, 3], '2']], 2, quota='droop', tags=['directed']))
    yield from _checked(_case(rng, _coalition_profile(rng, 4), 2, quota='hare', tags=['directed']))
    # refusal: tie for elimination
    t = r(1, 3)
    yield from _checked(_case(rng, [[[0], num_str(t)], [[1], num_str(t)], [[2], num_str(2 * t)]], 1, tags=['directed']))
    # Hare transfer
    yield from _checked(_case(rng, [[[0, 1], '9'], [[0, 2], num_str(4 + r(0, 2))], [[1], '3'], [[2], '3']], 2, method='hare', seed=r(0, 9), tags=['directed']))
    # shared ranks (outside any coalition prefix that matters)
    yield from _checked(_case(rng, [[[0, [1, 2]], num_str(5 + r(0, 2))], [[1], '3'], [[2, 1], '2'], [[3], '1']], 2, tags=['directed']))
    # a coalition whose supporters share a rank inside it (repaired by 4eda093: ranked_next used to pass over the co-ranked candidate)
    x = r(0, 2)
    yield from _checked(_case(rng, [[[[0, 1], 2], num_str(10 + x)], [[2], num_str(6 + x)], [[0], '1']], 1,
                              quota=rng.choice(['droop', 'hare']), tags=['directed', 'shared_rank_coalition']))
    # fraction weights, hare quota
    yield from _checked(_case(rng, [[[0, 1], '7/2'], [[1, 2], '5/3'], [[2], '9/4'], [[1], '1/2']], r(1, 2), quota='hare', tags=['directed']))
    # synthetic outcomes violating PSC, for the two checkers
    yield {'op': 'psc_check', 'votes': [[[0, 1, 2], '6'], [[1, 0], '1'], [[2], '3'], [[3, 2], '2']], 'q': '4', 'elected': [2, 3], '_tags': ['directed']}
    yield {'op': 'psc_check', 'votes': [[[0, 1, 2], '6'], [[1, 0], '1'], [[2], '3'], [[3, 2], '2']], 'q': '4', 'elected': [0, 3], '_tags': ['directed']}


def _audit_directed(rng):
    """shapes of harness/GENERATOR_CHECKLIST.md, constructed so that every counter is hit on every seed"""
    r = rng.randint
    # 2. magnitude: candidate 0 exactly on / one below / one above the integer Droop quota at 10^15 .. 10^30
    for delta, tag in ((0, 'big_on_quota'), (-1, 'big_below_quota'), (1, 'big_above_quota')):
        votes, q, V = big_boundary_profile(rng, 2, delta)
        yield from _checked(_case(rng, votes, 2, tags=['directed', tag]))
    votes, q, V = big_boundary_profile(rng, 2, 0)
    yield _case(rng, votes, 2, tags=['directed', 'big_on_quota', 'sens_accept_equal'], accept_equal=False)
    yield from _checked(_case(rng, near_tie_big_profile(rng), 1, tags=['directed', 'big_near_tie']))
    # a coalition {0,1} holding exactly one quota (and exactly one vote less) at that magnitude, 2 seats
    for delta in (0, -1):
        e = rng.choice([15, 18, 24, 30])
        q = 10 ** e + r(1, 999)
        V = 3 * (q - 1) + r(0, 2)
        a = q // 2 + r(1, 9)
        b = q + delta - a
        rest = V - a - b
        votes = [[[0, 1, 2], str(a)], [[1, 0, 3], str(b)], [[2, 3], str(rest // 2)], [[3], str(rest - rest // 2 - 3)], [[4, 3], '3']]
        yield from _checked(_case(rng, votes, 2, tags=['directed', 'big_coalition']))
    # 1. numeric types
    yield _case(rng, decimal_profile(rng), 1, quota=None, tags=['directed'], wtype='decimal')
    yield _case(rng, decimal_profile(rng, long=True), 2, tags=['directed'], wtype='decimal')
    yield _case(rng, [[[0, 1], '0'], [[1], '0'], [[2, 0], '0']], r(1, 2), tags=['directed'])
    for eq in (True, False):
        yield from _checked(_case(rng, [[[0, 1], '4'], [[1], '3'], [[2], '3'], [[3, 2], '1']], 2, tags=['directed', 'sens_accept_equal'],
                                  accept_equal=eq))
    # 5. structure
    sv = shared_only_profile(rng)
    yield from _checked(_case(rng, sv, 4, tags=['directed']))
    yield from _checked(_case(rng, sv, 5, quota='hare', tags=['directed']))
    yield from _checked(_case(rng, [[[[0, 1, 2, 3], 4], num_str(8 + r(0, 3))], [[[1, 2, 4]], '5'], [[4, [0, 3]], '3'], [[2], '2']],
                              r(2, 4), tags=['directed']))
    yield from _checked(_case(rng, exhausted_quota_profile(rng), 4, tags=['directed']))
    yield from _checked(_case(rng, exhausted_quota_profile(rng), 4, method='hare', tags=['directed']))
    # 7. constructor options in non-default form, each with an input on which it matters
    yield from _checked(_case(rng, _coalition_profile(rng, 5), 2, tags=['directed'], quota_form='callable'))
    yield _case(rng, _coalition_profile(rng, 4), 2, quota=None, tags=['directed'])
    yield _case(rng, [[[0], num_str(5 + r(0, 1))], [[1], '4'], [[2, 0], '3']], 2, quota='const:3', tags=['directed'])
    yield from _checked(_case(rng, _coalition_profile(rng, 5), 2, tags=['directed'], transferer_form='name'))
    yield from _checked(_case(rng, [[[0, 1], '9'], [[0, 2], '5'], [[1], '3'], [[2], '3']], 2, method='hare', tags=['directed'],
                              transferer_form='name'))
    yield from _checked(_case(rng, _coalition_profile(rng, 5), 2, tags=['directed'], retainer='plurality'))
    for st in (-1, -2):
        yield _case(rng, [[[0], '9'], [[1, 2], '4'], [[2, 1], '3'], [[3, 2], '5']], 1, tags=['directed', 'sens_eliminate_step'], step=st)
    for mq in (False, True):
        yield _case(rng, [[[0], '5'], [[1], '2'], [[2], '1']], 2, tags=['directed', 'sens_mandatory_quota'], mandatory=mq)
    # coalitions expressed through shared first ranks, exactly on the quota, odd pile sizes, under Hare with several seeds (and Gregory)
    for seed in (0, 1, rng.randint(2, 9), rng.randint(10, 99)):
        hv, S = hare_shared_coalition_profile(rng)
        yield from _checked(_case(rng, hv, 2, method='hare', seed=seed, tags=['directed', 'hare_shared_first_coalition_on_quota']))
    hv, S = hare_shared_coalition_profile(rng)
    yield from _checked(_case(rng, hv, 2, tags=['directed']))
    # a candidate named only at ranks deeper than the ballot listed last reaches
    yield from _checked(_case(rng, deep_only_profile(rng), 3, tags=['directed']))
    yield from _checked(_case(rng, deep_only_profile(rng), 3, method='hare', seed=rng.randint(0, 9), tags=['directed']))
    # 10. multiplicity of the rare events
    for votes, n_, opts, tags in multiplicity_cases(rng):
        keep = [t for t in tags if t in ('two_on_quota_exactly_not_accepted', 'step2_tie_at_boundary')]
        o = dict(opts)
        yield from _checked(_case(rng, votes, n_, method=o.pop('method', 'gregory'), quota=o.pop('quota', 'droop'),
                                  seed=o.pop('seed', 0), tags=['directed'] + keep, **o))
    # 6. state between calls
    import random as _random
    for kind in ('refusal', 'larger', 'other_n', 'big'):
        c = _case(rng, _coalition_profile(rng, 4), 2, tags=['directed'])
        rr = _random.Random(rng.randint(0, 2 ** 30))
        k2, w = None, None
        while k2 != kind:
            k2, w = warmup_variants(rr, c['votes'], c['n'])
        c['warmup'] = w
        c['_warm_kind'] = kind
        yield from _checked(c)


def _close_exclusion_cases(rng, want=10, budget=4000):
    """Hare quota that is a proper fraction, an election with a surplus, and a later exclusion decided by less than one vote or by
    an exact tie - found by running the reference count on random small profiles (bounded search), plus two fixed profiles"""
    fixed = [
        # 2 seats, quota 51/2: the exact count elects {1, 3}
        ([[[3], '12'], [[1], '11'], [[2, 3], '9'], [[1, 2, 3], '5'], [[1, 2], '14']], 2, 'hare_fractional_quota_close_exclusion'),
        # 3 seats, quota 46/3: the exact count refuses on an exclusion tie between 0 and 3
        ([[[0], '4'], [[1, 0], '11'], [[4, 1], '11'], [[3, 1], '8'], [[4, 0], '12']], 3, 'hare_fractional_quota_exclusion_tie'),
    ]
    for votes, n, tag in fixed:
        perm = list(range(5))
        rng.shuffle(perm)
        v2 = [[[perm[c] for c in b], w] for b, w in votes]
        rng.shuffle(v2)
        for vv in (votes, v2):
            yield _case(rng, vv, n, quota='hare', tags=['directed', tag])
    found = 0
    for _ in range(budget):
        if found >= want:
            break
        m = rng.choice([4, 5, 5, 6])
        votes = rand_profile(rng, m, rng.randint(4, 7), 0.0, rng.choice(['mid', 'mid', 'small']), False, empty_p=0)
        cands = profile_cands(votes)
        if len(cands) < 4:
            continue
        n = rng.randint(2, min(3, len(cands) - 2))
        V = sum(Fraction(w) for _, w in votes)
        q = V / n
        if q.denominator == 1:
            continue
        try:
            _, diag = reference_gregory([(b, Fraction(w)) for b, w in votes], n, q)
            tie = False
        except _Refusal as r:
            # re-run to learn whether a surplus preceded the tie
            diag, tie = {'surplus': True, 'margin': Fraction(0)}, 'tie' in str(r)
            if not tie:
                continue
        if diag['surplus'] and diag['margin'] is not None and diag['margin'] < 1:
            found += 1
            yield _case(rng, votes, n, quota='hare', tags=['directed', 'hare_fractional_quota_exclusion_tie' if tie
                                                           else 'hare_fractional_quota_close_exclusion'])


def _random_case(rng):
    m = rng.choice([2, 3, 3, 4, 4, 5, 6])
    method = 'gregory' if rng.random() < 0.75 else 'hare'
    shared_p = rng.choice([0, 0, 0, 0.2])
    fractions = method == 'gregory' and rng.random() < 0.25
    weights = rng.choice(['small', 'small', 'mid', 'big'] if method == 'gregory' else ['small', 'mid'])
    if rng.random() < 0.3:
        votes = _coalition_profile(rng, max(m, 3))
    else:
        votes = rand_profile(rng, m, rng.randint(1, 10), shared_p, weights, fractions, empty_p=0.01)
    cands = profile_cands(votes)
    if not cands:
        votes = votes + [[[0], '1']]
        cands = [0]
    n = rng.randint(1, max(1, len(cands)))
    opts = {}
    x = rng.random()
    if x < 0.08:
        kind, w = warmup_variants(rng, votes, n)
        if kind != 'big' or method != 'hare':
            opts['warmup'] = w
            opts['_warm_kind'] = kind
    elif x < 0.12:
        opts['quota_form'] = 'callable'
    elif x < 0.16:
        opts['transferer_form'] = 'name'
    elif x < 0.20:
        opts['retainer'] = 'plurality'
    elif x < 0.24:
        opts['accept_equal'] = False
    elif x < 0.27:
        opts['mandatory'] = True
    elif x < 0.30:
        opts['step'] = -2
    quota = rng.choice(['droop', 'droop', 'hare'])
    if 0.30 <= x < 0.33 and method == 'gregory':
        quota = 'const:' + num_str(Fraction(rng.randint(2, 9), rng.choice([1, 1, 2])))
    elif 0.33 <= x < 0.35:
        quota = None
    return _case(rng, votes, n, method=method, quota=quota, seed=rng.randint(0, 9), **opts)


def generate(rng, tier):
    for c in _directed(rng):
        yield c
    for _ in range(12 if tier == 'quick' else 60):      # each directed shape at least a dozen times per run (checklist item 9)
        for c in _audit_directed(rng):
            yield c
    for _ in range(2 if tier == 'quick' else 10):
        # 11. mandatory_quota x accept_quota_equal x every quota form (the distributor form is crossed in C03)
        for votes, n_, opts in cross_option_cases(rng, distributor=False):
            o = dict(opts)
            o.pop('form')
            yield _case(rng, votes, n_, method=o.pop('method'), quota=o.pop('quota'), tags=['directed', 'cross_selector_options'], **o)
    yield from _close_exclusion_cases(rng, want=(30 if tier == 'quick' else 300), budget=(6000 if tier == 'quick' else 60000))
    N = 1800 if tier == "quick" else 30000
    for _ in range(N):
        c = _random_case(rng)
        if rng.random() < 0.5:
            yield from _checked(c)
        else:
            yield c
        if rng.random() < 0.25:
            cands = profile_cands(c['votes'])
            if cands:
                k = rng.randint(0, len(cands))
                yield {'op': 'psc_check', 'votes': c['votes'], 'q': num_str(Fraction(rng.randint(1, 12), rng.choice([1, 1, 2, 3]))),
                       'elected': rng.sample(cands, k), '_tags': ['synthetic_outcome']}
    if tier == 'thorough':
        rankings = []
        for p in itertools.permutations(range(3)):
            for k in (1, 2, 3):
                if list(p[:k]) not in rankings:
                    rankings.append(list(p[:k]))
        for combo in itertools.combinations(rankings, 3):
            for ws in itertools.product([1, 2, 3], repeat=3):
                for n in (1, 2):
                    yield {'op': 'stv_eval_psc', 'votes': [[b, str(w)] for b, w in zip(combo, ws)], 'n': n, 'form': 'selector',
                           'method': 'gregory', 'seed': 0, 'quota': 'droop', 'accept_equal': True, 'mandatory': False, 'step': -1,
                           '_tags': ['exhaustive']}
        yield from _exhaustive_shared()


def _exhaustive_shared():
    """3 candidates, every set of 3 ballot types with at least one shared rank, weights 1..3, one seat"""
    strict = []
    for p in itertools.permutations(range(3)):
        for k in (1, 2, 3):
            if list(p[:k]) not in strict:
                strict.append(list(p[:k]))
    shared = [[[0, 1, 2]]]
    for a, b in ((0, 1), (0, 2), (1, 2)):
        c = 3 - a - b
        shared += [[[a, b]], [[a, b], c], [c, [a, b]]]
    types = strict + shared
    for combo in itertools.combinations(range(len(types)), 3):
        if all(i < len(strict) for i in combo):
            continue
        for ws in itertools.product([1, 2, 3], repeat=3):
            yield {'op': 'stv_eval_psc', 'votes': [[types[i], str(w)] for i, w in zip(combo, ws)], 'n': 1, 'form': 'selector',
                   'method': 'gregory', 'seed': 0, 'quota': 'droop', 'accept_equal': True, 'mandatory': False, 'step': -1,
                   '_tags': ['exhaustive_shared']}


def shrink_candidates(case):
    if case['op'] != 'stv_eval_psc':
        return
    vs = case['votes']
    for i in range(len(vs)):
        if len(vs) > 1:
            c = dict(case)
            c['votes'] = vs[:i] + vs[i + 1:]
            yield c
    for i, (b, w) in enumerate(vs):
        if len(b) > 1:
            c = dict(case)
            c['votes'] = vs[:i] + [[b[:-1], w]] + vs[i + 1:]
            if len({json.dumps(x[0]) for x in c['votes']}) == len(c['votes']):
                yield c
        f = Fraction(w)
        if f.denominator == 1 and f > 1:
            c = dict(case)
            c['votes'] = vs[:i] + [[b, num_str(int(f) // 2)]] + vs[i + 1:]
            yield c
    if case['n'] > 1:
        c = dict(case)
        c['n'] = case['n'] - 1
        yield c
    for k, v in (('quota', 'droop'), ('method', 'gregory')):
        if case.get(k) != v:
            c = dict(case)
            c[k] = v
            yield c


def describe(case):
    if case['op'] == 'psc_check':
        return f"psc_check(votes={case['votes']}, q={case['q']}, elected={case['elected']})"
    return describe_case(case)


TECHNIQUE = ('Lean 4 proofs about the executable STV model (majority winner, result shape, verified PSC checker) + differential '
             'correspondence of the model with votelib; the verified checker is applied to every outcome')
LEVEL_TEXT = ('TransferableVoteSelector.evaluate is the Lean model of C03 run to completion (the independently computed weighted-inclusive-'
              'Gregory count of the statement). Proved for all profiles - shared ranks anywhere, also inside a coalition - all seat '
              'numbers and both transferers (Gregory; Hare under the draw contract): proportionality for solid coalitions for every '
              'candidate set S and every k (k quotas of solid support => at least min(k,|S|) members of S in every returned list; Droop '
              'and Hare quota, eliminate_step -1, accept_quota_equal), hence every outcome passes the verified checker; majority first '
              'choice and mutual majority for one seat; every returned list has exactly n distinct candidates; with Gregory transfer the '
              'evaluation returns such a list or refuses with NotImplementedError whenever 1 <= n <= #candidates (no infinite loop, no '
              'other outcome); the decidable checker pscCheck is sound and complete for the statement quantified over all candidate '
              'subsets and all k, and is applied to every model and implementation outcome.')
LEVEL_NOTE = ('Trusted: Lean kernel + propext/Classical.choice/Quot.sound; translate.py for the quota functions; the correspondence '
              'harness (<= 6 candidates, <= 10 ballot types); random module replaced by recorded draws; frozenset iteration order. '
              'Nothing of the statement is left unproved for the selector form; the distributor form (max_seats > 1) is covered by the correspondence only.')
