"""C19 helper: the value algebra `PVal` of the persist.py dict codec on the Python side.

PVal protocol encoding (shared with lean/VotelibDriver/C19.lean):
  atoms   {"a":"none"} {"a":"bool","v":true} {"a":"int","v":"12"} {"a":"float","v":"0.5"} {"a":"str","v":"x"}
  {"t":"frac","v":"7/5"} {"t":"dec","v":"0.05"} {"t":"list"|"tuple"|"fset"|"set","v":[...]}
  {"t":"dict","k":[...],"v":[...]} {"t":"obj","cls":"votelib.candidate.Person","p":[[param, val],...]}
  {"t":"callable","n":"votelib.component.quota.droop","self":true[, "mk": <closure recipe>]}
  {"t":"ncallable","tag":"partial"|"constant"} {"t":"opaque","tag":"object"|"complex"}
J (dict form) encoding: null, bool, {"i":"12"}, {"f":"0.5"}, "str", [..], {"d":[[k, v],...]}
"""
import json
import functools
from fractions import Fraction
from decimal import Decimal

OBJ_CLASSES = {
    'votelib.candidate.Person': ['name', 'number', 'membership', 'candidacy_for', 'properties', 'withdrawn'],
    'votelib.candidate.PoliticalParty': ['name', 'number', 'affiliations', 'lead', 'properties', 'withdrawn'],
    'votelib.candidate.NoneOfTheAbove': ['name'],
    'votelib.evaluate.threshold.AbsoluteThreshold': ['threshold', 'accept_equal'],
}
NAMED_CALLABLES = ['votelib.component.quota.droop', 'votelib.component.quota.hare', 'votelib.component.divisor.d_hondt',
                   'votelib.component.divisor.sainte_lague', 'statistics.mean', 'statistics.median_low', 'builtins.max',
                   'votelib.component.pairwin_scorer.winning_votes',
                   'votelib.component.quota.imperiali', 'votelib.component.divisor.imperiali']     # one __name__, two registries
RESERVED = ('type', 'class', 'callable')


def _get_object(name):
    import importlib
    mod, attr = name.rsplit('.', 1)
    return getattr(importlib.import_module(mod), attr)


def _closure(recipe):
    """callables whose dotted name does not resolve to themselves"""
    import votelib.component.divisor as vd
    kind = recipe['kind']
    if kind == 'modified_first_coef':
        return vd.modified_first_coef(vd.d_hondt, Fraction(recipe.get('coef', '7/5')))
    if kind == 'lambda':
        return lambda *a: 1
    if kind == 'local_def':
        def d_hondt(order):         # same __name__ as a real divisor but a different module / object
            return order + 1
        d_hondt.__module__ = 'votelib.component.divisor'
        return d_hondt
    raise ValueError(kind)


def closure_name(recipe):
    f = _closure(recipe)
    return f.__module__ + '.' + f.__name__


# ------------------------------------------------------------------------------------------------ PVal -> Python
def py_of_pval(p):
    if 'a' in p:
        a = p['a']
        if a == 'none':
            return None
        if a == 'bool':
            return bool(p['v'])
        if a == 'int':
            return int(p['v'])
        if a == 'float':
            return float(p['v'])
        if a == 'str':
            return p['v']
        raise ValueError(a)
    t = p['t']
    if t == 'frac':
        return Fraction(p['v'])
    if t == 'dec':
        return Decimal(p['v'])
    if t == 'list':
        return [py_of_pval(x) for x in p['v']]
    if t == 'tuple':
        return tuple(py_of_pval(x) for x in p['v'])
    if t == 'fset':
        return frozenset(py_of_pval(x) for x in p['v'])
    if t == 'set':
        return set(py_of_pval(x) for x in p['v'])
    if t == 'dict':
        return {py_of_pval(k): py_of_pval(v) for k, v in zip(p['k'], p['v'])}
    if t == 'obj':
        cls = _get_object(p['cls'])
        return cls(**{k: py_of_pval(v) for k, v in p['p']})
    if t == 'callable':
        if p['self']:
            return _get_object(p['n'])
        return _closure(p['mk'])
    if t == 'ncallable':
        import votelib.component.quota as vq
        if p['tag'] == 'partial':
            return functools.partial(vq.droop, 10)
        if p['tag'] == 'constant':
            return vq.constant(5)
        raise ValueError(p['tag'])
    if t == 'opaque':
        return object() if p['tag'] == 'object' else 1j
    raise ValueError(t)


# ------------------------------------------------------------------------------------------------ Python -> PVal
def pval_of_py(x):
    import votelib.persist as P
    if x is None:
        return {'a': 'none'}
    if isinstance(x, bool):
        return {'a': 'bool', 'v': x}
    if isinstance(x, int):
        return {'a': 'int', 'v': str(x)}
    if isinstance(x, float):
        return {'a': 'float', 'v': repr(x)}
    if isinstance(x, str):
        return {'a': 'str', 'v': x}
    if isinstance(x, Fraction):
        return {'t': 'frac', 'v': _fs(x)}
    if isinstance(x, Decimal):
        return {'t': 'dec', 'v': str(x)}
    if isinstance(x, type):
        return {'t': 'opaque', 'tag': 'class:' + x.__name__}
    if hasattr(x, 'to_dict'):
        cls = type(x).__module__ + '.' + type(x).__name__
        names = OBJ_CLASSES.get(cls)
        if names is None:
            names = [k for k in x.to_dict() if k != 'class']
        return {'t': 'obj', 'cls': cls, 'p': [[k, pval_of_py(getattr(x, k))] for k in names]}
    if isinstance(x, list):
        return {'t': 'list', 'v': [pval_of_py(v) for v in x]}
    if isinstance(x, tuple):
        return {'t': 'tuple', 'v': [pval_of_py(v) for v in x]}
    if isinstance(x, frozenset):
        return {'t': 'fset', 'v': [pval_of_py(v) for v in x]}
    if isinstance(x, set):
        return {'t': 'set', 'v': [pval_of_py(v) for v in x]}
    if isinstance(x, dict):
        return {'t': 'dict', 'k': [pval_of_py(k) for k in x.keys()], 'v': [pval_of_py(v) for v in x.values()]}
    if callable(x):
        if not hasattr(x, '__name__'):
            return {'t': 'ncallable', 'tag': type(x).__name__}
        n = x.__module__ + '.' + x.__name__
        try:
            ok = P.get_object(n) is x
        except Exception:
            ok = False
        return {'t': 'callable', 'n': n, 'self': ok}
    return {'t': 'opaque', 'tag': type(x).__name__}


def _fs(f):
    return str(f.numerator) if f.denominator == 1 else f'{f.numerator}/{f.denominator}'


def canon_pval(p):
    """frozensets / sets are compared order-free; harness-only keys dropped"""
    if 'a' in p:
        return p
    t = p['t']
    if t in ('list', 'tuple'):
        return {'t': t, 'v': [canon_pval(x) for x in p['v']]}
    if t in ('fset', 'set'):
        return {'t': t, 'v': sorted((canon_pval(x) for x in p['v']), key=lambda z: json.dumps(z, sort_keys=True))}
    if t == 'dict':
        return {'t': t, 'k': [canon_pval(x) for x in p['k']], 'v': [canon_pval(x) for x in p['v']]}
    if t == 'obj':
        return {'t': t, 'cls': p['cls'], 'p': [[k, canon_pval(v)] for k, v in p['p']]}
    if t == 'callable':
        return {'t': t, 'n': p['n'], 'self': p['self']}
    return {k: v for k, v in p.items() if k != 'mk'}


# ------------------------------------------------------------------------------------------------ J encodings
def j_of_py(x):
    """to_dict output -> tagged J (a tuple inside it is what JSON text makes of it: a list)"""
    if x is None or isinstance(x, bool):
        return x
    if isinstance(x, int):
        return {'i': str(x)}
    if isinstance(x, float):
        return {'f': repr(x)}
    if isinstance(x, str):
        return x
    if isinstance(x, (list, tuple)):
        return [j_of_py(v) for v in x]
    if isinstance(x, dict):
        # a key that is not a string is not JSON-shaped (a defect of the writer if it occurs): kept visible, and printable
        return {'d': [[k if isinstance(k, str) else {'nonstr_key': repr(k)}, j_of_py(v)] for k, v in x.items()]}
    raise TypeError(f'not JSON-shaped: {type(x).__name__}')


def py_of_j(j):
    if j is None or isinstance(j, (bool, str)):
        return j
    if isinstance(j, list):
        return [py_of_j(v) for v in j]
    if 'i' in j:
        return int(j['i'])
    if 'f' in j:
        return float(j['f'])
    return {k: py_of_j(v) for k, v in j['d']}


def canon_j(j):
    """the value list of a frozenset node is order-free"""
    if isinstance(j, list):
        return [canon_j(v) for v in j]
    if isinstance(j, dict) and 'd' in j:
        fields = [[k, canon_j(v)] for k, v in j['d']]
        if fields and fields[0] in (['type', 'frozenset'], ['type', 'set']):
            fields = [[k, sorted(v, key=lambda z: json.dumps(z, sort_keys=True)) if k == 'value' and isinstance(v, list) else v]
                      for k, v in fields]
        return {'d': fields}
    return j


def idents_in_j(j, out):
    """every string sitting under a reserved key"""
    if isinstance(j, list):
        for v in j:
            idents_in_j(v, out)
    elif isinstance(j, dict) and 'd' in j:
        for k, v in j['d']:
            if k in RESERVED and isinstance(v, str):
                out.add(v)
            idents_in_j(v, out)


def env_for(names):
    """name resolution of the running interpreter for the given dotted names (the model's `Env`)"""
    import inspect
    import votelib.persist as P
    env = {'classes': [], 'callables': [], 'others': []}
    for n in sorted(names):
        if not P.is_scoped_identifier(n):
            continue
        try:
            o = P.get_object(n)
        except (AttributeError, ImportError):
            continue
        except Exception:
            continue
        if inspect.isclass(o) and hasattr(o, 'to_dict') and not hasattr(o, 'from_dict'):
            env['classes'].append(n)
        elif callable(o) and not inspect.isclass(o) and getattr(o, '__name__', None) is not None \
                and (o.__module__ + '.' + o.__name__) == n:
            env['callables'].append(n)
        else:
            env['others'].append(n)
    return env


def strings_in_pval(p, out):
    if 'a' in p:
        if p['a'] == 'str':
            out.add(p['v'])
        return
    t = p['t']
    if t in ('list', 'tuple', 'fset', 'set'):
        for x in p['v']:
            strings_in_pval(x, out)
    elif t == 'dict':
        for x in p['k'] + p['v']:
            strings_in_pval(x, out)
    elif t == 'obj':
        out.add(p['cls'])
        for _, v in p['p']:
            strings_in_pval(v, out)
    elif t == 'callable':
        out.add(p['n'])


# ------------------------------------------------------------------------------------------------ predicates (oracle side)
def is_ident(s):
    return isinstance(s, str) and not s.startswith('.') and all(c.isidentifier() for c in s.split('.'))


def hashable_p(p):
    if 'a' in p:
        return True
    t = p['t']
    if t in ('list', 'set', 'dict'):
        return False
    if t == 'tuple':
        return all(hashable_p(x) for x in p['v'])
    return True


def serializable_p(p):
    """nothing inside is an object the dict form has no spelling for"""
    if 'a' in p:
        return True
    t = p['t']
    if t in ('frac', 'dec'):
        return True
    if t in ('list', 'tuple', 'fset', 'set'):
        return all(serializable_p(x) for x in p['v'])
    if t == 'dict':
        return all(serializable_p(x) for x in p['k'] + p['v'])
    if t == 'obj':
        return all(serializable_p(v) for _, v in p['p'])
    if t == 'callable':
        return bool(p['self'])
    return False


def hazards_p(p, out):
    """features the dict form was ambiguous about before 722783a (plain sets, reserved keys with identifier values);
    kept as coverage tags — they are no hazards any more"""
    if 'a' in p:
        return
    t = p['t']
    if t == 'set':
        out.add('bare_set')
    if t in ('list', 'tuple', 'fset', 'set'):
        for x in p['v']:
            hazards_p(x, out)
    elif t == 'dict':
        if all('a' in k and k['a'] == 'str' for k in p['k']):
            for k, v in zip(p['k'], p['v']):
                if k['v'] in RESERVED and 'a' in v and v['a'] == 'str' and is_ident(v['v']):
                    out.add('reserved_key')
        for x in p['k'] + p['v']:
            hazards_p(x, out)
    elif t == 'obj':
        for k, v in p['p']:
            if k == 'type' and 'a' in v and v['a'] == 'str' and is_ident(v['v']):
                out.add('reserved_key')
            hazards_p(v, out)


# ------------------------------------------------------------------------------------------------ generator
STRS = ['', 'a', 'droop', 'x y', 'Émile Ÿ', 'type', 'votelib.evaluate.core.Plurality', 'not an ident!', '.hidden', 'a.b', '"q"', '#', '漢字', 'A' * 40]
INTS = [0, 1, -1, 2, 7, 42, -13, 10 ** 30 + 7, -(10 ** 25), 10 ** 9, 2 ** 53 - 1, 2 ** 53, 2 ** 53 + 1, 10 ** 18, 10 ** 400]
FLOATS = ['0.5', '-2.25', '1e+100', '3.0', 'inf', 'nan', '1.4', '0.1', '0.0', '-0.0', '1.0', '9007199254740992.0', '5e-324']
FRACS = ['1/3', '7/5', '-2/7', '5', '123456789/1000000007', '0', '1', '333333333333/1000000000000', '333333333334/1000000000000']
DECS = ['0.05', '1.50', '2', '-3.75', '1E+2', '0.000', '12345678901234567890.123456789', '0', '1', '1.0', '1.4', '0.1234567', '1E-30']


class Gen:
    def __init__(self, rng):
        self.rng = rng
        self.n_obj = 0

    def atom(self, hashable_only=False):
        r = self.rng
        k = r.choice(['none', 'bool', 'int', 'int', 'float', 'str', 'str'])
        if k == 'none':
            return {'a': 'none'}
        if k == 'bool':
            return {'a': 'bool', 'v': r.random() < 0.5}
        if k == 'int':
            return {'a': 'int', 'v': str(r.choice(INTS))}
        if k == 'float':
            return {'a': 'float', 'v': repr(float(r.choice(FLOATS[:4] if hashable_only else FLOATS)))}
        return {'a': 'str', 'v': r.choice(STRS)}

    def num(self):
        r = self.rng
        if r.random() < 0.5:
            return {'t': 'frac', 'v': _fs(Fraction(r.choice(FRACS)))}
        return {'t': 'dec', 'v': str(Decimal(r.choice(DECS)))}

    def callable_(self):
        return {'t': 'callable', 'n': self.rng.choice(NAMED_CALLABLES), 'self': True}

    def obj(self, depth):
        r = self.rng
        self.n_obj += 1
        cls = r.choice(list(OBJ_CLASSES))
        uniq = f'{r.choice(["Ann", "Bob", "J. Smith", "Ünï"])} {self.n_obj}'
        if cls == 'votelib.candidate.Person':
            ps = [['name', {'a': 'str', 'v': uniq}],
                  ['number', {'a': 'int', 'v': str(r.randint(1, 9))} if r.random() < 0.5 else {'a': 'none'}],
                  ['membership', self.obj_of('votelib.candidate.PoliticalParty', depth - 1) if depth > 1 and r.random() < 0.3 else {'a': 'none'}],
                  ['candidacy_for', {'a': 'none'}],
                  ['properties', self.dict_(depth - 1, str_keys=True) if depth > 0 else {'t': 'dict', 'k': [], 'v': []}],
                  ['withdrawn', {'a': 'bool', 'v': r.random() < 0.3}]]
        elif cls == 'votelib.candidate.PoliticalParty':
            ps = self.party_params(depth, uniq)
        elif cls == 'votelib.candidate.NoneOfTheAbove':
            ps = [['name', {'a': 'str', 'v': uniq}]]
        else:
            ps = [['threshold', self.num()], ['accept_equal', {'a': 'bool', 'v': r.random() < 0.5}]]
        return {'t': 'obj', 'cls': cls, 'p': ps}

    def party_params(self, depth, uniq):
        r = self.rng
        return [['name', {'a': 'str', 'v': uniq}],
                ['number', {'a': 'int', 'v': str(r.randint(1, 9))} if r.random() < 0.5 else {'a': 'none'}],
                ['affiliations', {'t': 'list', 'v': [self.obj_of('votelib.candidate.PoliticalParty', depth - 1)]} if depth > 1 and r.random() < 0.3 else {'a': 'none'}],
                ['lead', {'a': 'none'}],
                ['properties', self.dict_(depth - 1, str_keys=True) if depth > 0 else {'t': 'dict', 'k': [], 'v': []}],
                ['withdrawn', {'a': 'bool', 'v': r.random() < 0.3}]]

    def obj_of(self, cls, depth):
        self.n_obj += 1
        return {'t': 'obj', 'cls': cls, 'p': self.party_params(depth, f'Party {self.n_obj}')}

    def hashable(self, depth):
        r = self.rng
        k = r.choice(['atom', 'atom', 'num', 'tuple', 'fset', 'callable', 'obj']) if depth > 0 else r.choice(['atom', 'num'])
        if k == 'atom':
            return self.atom(hashable_only=True)
        if k == 'num':
            return self.num()
        if k == 'tuple':
            return {'t': 'tuple', 'v': [self.hashable(depth - 1) for _ in range(r.randint(0, 3))]}
        if k == 'fset':
            return {'t': 'fset', 'v': self.distinct([self.hashable(depth - 1) for _ in range(r.randint(0, 3))])}
        if k == 'callable':
            return self.callable_()
        return self.obj(depth - 1)

    def distinct(self, ps):
        """drop elements that are equal to an earlier one for Python (1 == True == 1.0 == Fraction(1)) or for PVal"""
        seen_py, seen_p, out = {}, set(), []
        for p in ps:
            key = json.dumps(canon_pval(p), sort_keys=True)
            try:
                v = py_of_pval(p)
                if v != v:          # NaN never equals itself: keep it out of keys
                    continue
                if v in seen_py or key in seen_p:
                    continue
                seen_py[v] = 1
            except TypeError:
                continue
            seen_p.add(key)
            out.append(p)
        return out

    def dict_(self, depth, str_keys=None, reserved=False):
        r = self.rng
        n = r.randint(0, 4)
        if str_keys is None:
            str_keys = r.random() < 0.5
        if str_keys:
            pool = [s for s in STRS if s not in RESERVED] + ['k1', 'k2', 'k3']
            ks = r.sample(pool, min(n, len(pool)))
            keys = [{'a': 'str', 'v': k} for k in ks]
        else:
            keys = self.distinct([self.hashable(max(depth - 1, 0)) for _ in range(max(n, 1))])
            if keys and all('a' in k and k['a'] == 'str' for k in keys):
                keys = self.distinct(keys + [{'a': 'int', 'v': '5'}])
        vals = [self.value(depth - 1) for _ in keys]
        if reserved and str_keys:
            rk = r.choice(RESERVED)
            keys.insert(r.randint(0, len(keys)), {'a': 'str', 'v': rk})
            vals.insert(len(vals), {'a': 'str', 'v': r.choice(['independent', 'dict', 'votelib.evaluate.core.Plurality', 'len',
                                                              'votelib.component.quota.droop', 'tuple', 'not an ident!', 'Fraction'])})
            # keep key/value alignment: the reserved key's value is the one appended last
            i = [k['v'] for k in keys].index(rk)
            vals.insert(i, vals.pop())
        return {'t': 'dict', 'k': keys, 'v': vals}

    def value(self, depth, allow_bad=False):
        r = self.rng
        if depth <= 0:
            return r.choice([self.atom, self.atom, self.num, self.callable_])()
        k = r.choice(['atom', 'num', 'list', 'tuple', 'fset', 'dict', 'dict', 'obj', 'callable'])
        if k == 'atom':
            return self.atom()
        if k == 'num':
            return self.num()
        if k == 'list':
            return {'t': 'list', 'v': [self.value(depth - 1, allow_bad) for _ in range(r.randint(0, 3))]}
        if k == 'tuple':
            return {'t': 'tuple', 'v': [self.value(depth - 1, allow_bad) for _ in range(r.randint(0, 3))]}
        if k == 'fset':
            return {'t': 'fset', 'v': self.distinct([self.hashable(depth - 1) for _ in range(r.randint(0, 4))])}
        if k == 'dict':
            return self.dict_(depth)
        if k == 'obj':
            return self.obj(depth)
        return self.callable_()

    def bad_leaf(self):
        r = self.rng
        k = r.choice(['closure', 'closure', 'lambda', 'local_def', 'partial', 'constant', 'object', 'complex'])
        if k == 'closure':
            mk = {'kind': 'modified_first_coef', 'coef': r.choice(['7/5', '142/100'])}
            return {'t': 'callable', 'n': closure_name(mk), 'self': False, 'mk': mk}
        if k in ('lambda', 'local_def'):
            mk = {'kind': k}
            return {'t': 'callable', 'n': closure_name(mk), 'self': False, 'mk': mk}
        if k in ('partial', 'constant'):
            return {'t': 'ncallable', 'tag': k}
        return {'t': 'opaque', 'tag': k}

    def wrap(self, leaf, depth):
        """put `leaf` somewhere inside a random container tree"""
        r = self.rng
        cur = leaf
        for _ in range(r.randint(0, depth)):
            k = r.choice(['list', 'tuple', 'dict_val', 'sdict_val', 'obj'])
            sib = [self.value(1) for _ in range(r.randint(0, 2))]
            if k == 'list':
                items = sib + [cur]
                r.shuffle(items)
                cur = {'t': 'list', 'v': items}
            elif k == 'tuple':
                items = sib + [cur]
                r.shuffle(items)
                cur = {'t': 'tuple', 'v': items}
            elif k == 'dict_val':
                cur = {'t': 'dict', 'k': [{'a': 'int', 'v': '1'}, {'a': 'str', 'v': 'z'}], 'v': [cur, self.value(0)]}
            elif k == 'sdict_val':
                cur = {'t': 'dict', 'k': [{'a': 'str', 'v': 'p'}, {'a': 'str', 'v': 'q'}], 'v': [self.value(0), cur]}
            else:
                self.n_obj += 1
                cur = {'t': 'obj', 'cls': 'votelib.candidate.Person', 'p': [
                    ['name', {'a': 'str', 'v': f'W {self.n_obj}'}], ['number', {'a': 'none'}], ['membership', {'a': 'none'}],
                    ['candidacy_for', {'a': 'none'}],
                    ['properties', {'t': 'dict', 'k': [{'a': 'str', 'v': 'payload'}], 'v': [cur]}],
                    ['withdrawn', {'a': 'bool', 'v': False}]]}
        return cur


def depth_p(p):
    if 'a' in p:
        return 0
    t = p['t']
    if t in ('list', 'tuple', 'fset', 'set'):
        return 1 + max([depth_p(x) for x in p['v']] + [0])
    if t == 'dict':
        return 1 + max([depth_p(x) for x in p['k'] + p['v']] + [0])
    if t == 'obj':
        return 1 + max([depth_p(v) for _, v in p['p']] + [0])
    return 0


def kinds_p(p, out):
    if 'a' in p:
        out.add('atom_' + p['a'])
        return
    t = p['t']
    out.add(t)
    if t in ('list', 'tuple', 'fset', 'set'):
        for x in p['v']:
            kinds_p(x, out)
    elif t == 'dict':
        out.add('sdict' if all('a' in k and k['a'] == 'str' for k in p['k']) else 'gdict')
        for x in p['k'] + p['v']:
            kinds_p(x, out)
    elif t == 'obj':
        for _, v in p['p']:
            kinds_p(v, out)


def iteration_order(p):
    """the same value with the children of every bare set listed in Python's iteration order (what the writer sees)"""
    if 'a' in p:
        return p
    t = p['t']
    if t == 'set':
        kids = [iteration_order(x) for x in p['v']]
        by_val = {}
        for k in kids:
            by_val.setdefault(py_of_pval(k), k)
        return {'t': 'set', 'v': [by_val[v] for v in set(py_of_pval(k) for k in kids)]}
    if t in ('list', 'tuple', 'fset'):
        return {'t': t, 'v': [iteration_order(x) for x in p['v']]}
    if t == 'dict':
        return {'t': t, 'k': [iteration_order(x) for x in p['k']], 'v': [iteration_order(x) for x in p['v']]}
    if t == 'obj':
        return {'t': t, 'cls': p['cls'], 'p': [[k, iteration_order(v)] for k, v in p['p']]}
    return p


def same_typed(a, b):
    """equality that tells 1 from True from 1.0 from Fraction(1) from Decimal('1') (Python's == does not), recursively"""
    if type(a) is not type(b):
        return False
    if isinstance(a, dict):
        return list(a.keys()) == list(b.keys()) and all(type(x) is type(y) for x, y in zip(a, b)) \
            and all(same_typed(a[k], b[k]) for k in a)
    if isinstance(a, (list, tuple)):
        return len(a) == len(b) and all(same_typed(x, y) for x, y in zip(a, b))
    if isinstance(a, float) and a != a:
        return b != b
    return a == b


ONES = [{'a': 'int', 'v': '1'}, {'a': 'bool', 'v': True}, {'a': 'float', 'v': '1.0'}, {'t': 'frac', 'v': '1'}, {'t': 'dec', 'v': '1'},
        {'t': 'dec', 'v': '1.0'}, {'t': 'dec', 'v': '1.00'}]
ZEROS = [{'a': 'int', 'v': '0'}, {'a': 'bool', 'v': False}, {'a': 'float', 'v': '0.0'}, {'a': 'float', 'v': '-0.0'}, {'t': 'frac', 'v': '0'},
         {'t': 'dec', 'v': '0'}, {'t': 'dec', 'v': '0.0'}, {'a': 'none'}, {'a': 'str', 'v': ''}]


def directed_values():
    """(tag, value): equal values of different types side by side; one callable name in two registries, both orders; wide"""
    import itertools
    qi = {'t': 'callable', 'n': 'votelib.component.quota.imperiali', 'self': True}
    di = {'t': 'callable', 'n': 'votelib.component.divisor.imperiali', 'self': True}
    for pool, name in ((ONES, 'ones'), (ZEROS, 'zeros')):
        for perm in (pool, list(reversed(pool)), pool[2:] + pool[:2]):
            yield 'codec_equal_values_different_types', {'t': 'list', 'v': perm}
            yield 'codec_equal_values_different_types', {'t': 'tuple', 'v': perm}
            yield 'codec_equal_values_different_types', {'t': 'dict', 'k': [{'a': 'str', 'v': f'k{i}'} for i in range(len(perm))], 'v': perm}
            yield 'codec_equal_values_different_types', {'t': 'dict', 'k': [{'t': 'tuple', 'v': [{'a': 'int', 'v': str(i)}]} for i in range(len(perm))],
                                                         'v': perm}
        for a, b in itertools.permutations(pool[:5], 2):
            yield 'codec_equal_values_different_types', {'t': 'obj', 'cls': 'votelib.evaluate.threshold.AbsoluteThreshold',
                                                         'p': [['threshold', a], ['accept_equal', b]]}
    for pair in ([qi, di], [di, qi], [qi, di, qi], [di, di, qi]):
        yield 'codec_same_name_two_registries', {'t': 'list', 'v': pair}
        yield 'codec_same_name_two_registries', {'t': 'dict', 'k': [{'a': 'str', 'v': f'f{i}'} for i in range(len(pair))], 'v': pair}
        if pair[0] is not pair[1]:
            yield 'codec_same_name_two_registries', {'t': 'fset', 'v': pair[:2]}
            yield 'codec_same_name_two_registries', {'t': 'dict', 'k': pair[:2], 'v': pair[:2][::-1]}
        yield 'codec_same_name_two_registries', {'t': 'obj', 'cls': 'votelib.evaluate.threshold.AbsoluteThreshold',
                                                 'p': [['threshold', {'t': 'tuple', 'v': pair}], ['accept_equal', {'t': 'list', 'v': pair[::-1]}]]}
    # mappings whose keys mix types: str with int / None / bool / tuple / Fraction, int with None, ... — the typed form is needed as soon
    # as ONE key is not a string (seeded change C19l: any(...) for all(...))
    S = lambda v: {'a': 'str', 'v': v}                                       # noqa: E731
    I = lambda v: {'a': 'int', 'v': str(v)}                                  # noqa: E731
    none, true = {'a': 'none'}, {'a': 'bool', 'v': True}
    tup = {'t': 'tuple', 'v': [S('x'), I(1)]}
    fr = {'t': 'frac', 'v': '1/2'}
    thr = {'t': 'obj', 'cls': 'votelib.evaluate.threshold.RelativeThreshold', 'p': [['threshold', {'t': 'frac', 'v': '1/10'}], ['accept_equal', {'a': 'bool', 'v': True}]]}
    for keys in ([S('minority'), I(2)], [I(2), S('minority')], [S('minority'), none], [none, S('a'), S('b')], [S('a'), true], [S('a'), tup],
                 [S('a'), fr], [I(1), none], [I(0), true, none], [S('2'), I(2)], [S('null'), none], [S('a'), I(1), none, tup, fr],
                 [S('a'), S('b'), S('c'), I(3)], [tup, S('x')]):
        vals = [thr if i % 2 else none for i in range(len(keys))]
        d = {'t': 'dict', 'k': keys, 'v': vals}
        yield 'codec_mixed_keys', d
        yield 'codec_mixed_keys', {'t': 'list', 'v': [d]}
        yield 'codec_mixed_keys', {'t': 'dict', 'k': [S('inner')], 'v': [d]}
        yield 'codec_mixed_keys', {'t': 'obj', 'cls': 'votelib.evaluate.threshold.PropertyBracketer',
                                   'p': [['property', S('kind')], ['evaluators', d], ['default', thr]]}
    yield 'codec_wide', {'t': 'list', 'v': [{'a': 'int', 'v': str(i * i)} for i in range(300)]}
    yield 'codec_wide', {'t': 'dict', 'k': [{'a': 'str', 'v': f'key{i}'} for i in range(80)], 'v': [{'t': 'frac', 'v': _fs(Fraction(i, 7))} for i in range(80)]}
    yield 'codec_wide', {'t': 'dict', 'k': [{'a': 'int', 'v': str(i)} for i in range(80)], 'v': [{'t': 'dec', 'v': f'{i}.5'} for i in range(80)]}
    yield 'codec_wide', {'t': 'fset', 'v': [{'a': 'int', 'v': str(i)} for i in range(2, 120)]}
