"""C20 — vote validators accept exactly the ballots their rules describe.

Ops
  validate   {'op':'validate', 'val':<validator cfg>, 'vote':<Obj>}            -> 'ok' | {'err': class}
  eliminate  {'op':'eliminate','val':<validator cfg>, 'votes':[[<Obj>,'n'],..]} -> [[<Obj>,'n'],..] | {'err': class}

Obj encoding (the grammar of Python values as the validators see them)
  {'s':i} str | {'c':kind,'id':i} candidate object | {'n':'p/q'[, 'F'|'D'|'fl'|'bo':1]} int / Fraction / Decimal / float / bool | None |
  {'o':i} other hashable object | {'t':[..]} tuple | {'l':[..]} list | {'f':[..]} frozenset | {'m':[..]} set |
  {'d':[[keys],[values]]} dict
Validator cfg
  {'vt':'simple','nom':N} | {'vt':'approval','count':B,'nom':N} | {'vt':'ranked','total':B,'rank':BM|None,'nom':N} |
  {'vt':'enum','n':B,'sum':BM,'nom':N,'levels':[Obj]} | {'vt':'range','n':B,'sum':BM,'nom':N,'range':B}
  B = [lo,hi] (None or 'p/q' or 'T:p/q' with T in F,D,f,b = handed over as Fraction / Decimal / float / bool); BM = {'all':B} | {'by':[[key,B],..]}; N = {'k':'basic'|'person'|'party', flags}

The real Python objects are built from the encoding (`Pool.build`); the line sent to the Lean model is re-encoded
from the real objects (`Pool.encode`) so that sets travel in the iteration order the validator will see.
The oracle (`rule`) is the declarative rule of the property text on the encoding; it never looks at the code.
"""
import json
import itertools
import collections
import collections.abc
from fractions import Fraction
from decimal import Decimal
from common import *   # noqa

ID = 'C20'
NAMESPACE = 'VL.C20'
LEAN_MODULES = ['VotelibProofs.Props.C20']
GEN_MODULES = []
REQUIRED = [
    'nominate_ok_iff_admits', 'nominate_rejects_with_candidateError',
    'bounds_inclusive', 'bounds_inclusive_ends', 'bounds_one_sided', 'bounds_check_iff_within',
    'bounds_crossing_rejects_all', 'bounds_none_accepts_all', 'boundMap_get_default', 'boundMap_empty',
    'validate_iff_valid_simple', 'validate_iff_valid_approval', 'validate_iff_valid_ranked',
    'ranked_mutable_set_rank_rejected',
    'validateScoreBase_iff', 'validate_iff_valid_enumscore', 'validate_iff_valid_range', 'validate_iff_valid_key',
    'rejections_are_library_errors_simple', 'rejections_are_library_errors_approval',
    'rejections_are_library_errors_ranked', 'scoreBase_no_typeError',
    'rejections_are_library_errors_enumscore', 'rejections_are_library_errors_range',
    'nonnumeric_score_under_bound_is_voteError', 'validator_no_typeError',
    'eliminator_removes_exactly_rejected', 'eliminator_never_raises', 'eliminator_keeps_counts',
    'approval_candidateError_iff', 'approval_voteError_iff',
    'valid_approval_perm', 'validScoreBase_perm', 'valid_enumscore_perm', 'valid_range_perm', 'accept_order_independent',
    'valid_ranked_perm', 'accept_ranked_order_independent', 'ranked_default_names', 'approval_names',
]
UNPROVED = []
REQUIRED_COUNTERS = [
    'vt:simple', 'vt:approval', 'vt:ranked', 'vt:enum', 'vt:range', 'op:eliminate',
    'valid', 'invalid', 'lower_bound_hit', 'upper_bound_hit', 'just_below', 'just_above', 'crossing_bounds',
    'equal_bounds', 'rank_dict', 'sum_dict', 'shared_rank', 'duplicate', 'dup_across_shared_rank', 'not_admitted',
    'nom:basic', 'nom:person', 'nom:party', 'blank', 'coalition', 'wrong_container', 'nested_candidate',
    'empty_ballot', 'level_miss', 'score_out_of_range', 'sum_boundary', 'nonnumeric_score', 'malformed_stream',
    'elim_some_removed', 'elim_all_kept', 'via_checker_objects', 'via_plain_dicts', 'op:shape',
    'score_decimal_on_sum_bound', 'score_fraction_on_sum_bound', 'score_bigint_sum_bound', 'score_huge_int',
    'score_sum_one_off', 'elim_exact_sum', 'empty_name_candidate',
    # generator audit (harness/GENERATOR_CHECKLIST.md)
    'bound_zero', 'bound_negative', 'bound_fraction', 'bound_decimal', 'bound_float', 'bound_float_nondyadic', 'bound_bool',
    'dict_key_zero', 'dict_key_beyond_ballot', 'dict_key_far_beyond',
    'nomcfg:basic:-:True', 'nomcfg:basic:-:False', 'nomcfg:person:True:True', 'nomcfg:person:True:False',
    'nomcfg:person:False:True', 'nomcfg:person:False:False', 'nomcfg:party:True:True', 'nomcfg:party:True:False',
    'nomcfg:party:False:True', 'nomcfg:party:False:False', 'nom_flags_flipped', 'default_nominator',
    'falsy_name_object', 'coalition_one_member', 'coalition_nested_or_empty', 'str_party_candidacy', 'equal_looking_objects',
    'same_object_twice', 'name_clash_str_object',
    'unhashable_item', 'unhashable_ballot', 'unhashable_inner_item',
    'shared_rank_3plus', 'empty_shared_rank', 'rank_as_list', 'rank_as_set', 'rank_as_tuple', 'rank_as_dict',
    'score_dup_equal_score', 'score_dup_diff_score', 'hash_alike_scores', 'level_miss_hash_alike',
    'score_decimal_7plus', 'score_zero_fraction', 'score_zero_decimal', 'score_float', 'score_bool',
    'explicit_checkers_empty_dict', 'explicit_checkers_empty_defaultdict', 'explicit_checkers_single_key',
    'explicit_checkers_mapping', 'explicit_checkers_defaultdict_keys', 'explicit_checkers:rank', 'explicit_checkers:sum',
    'explicit_differs_from_default',
    'op:eliminate_seq', 'seq_first_profile_clean', 'seq_rejected_ballot_absent_later', 'seq_rejected_ballot_again',
    'seq_rejected_ballot_valid_later', 'seq_clean_profile_after_removal', 'seq_validator_state_changed',
    'shared_validator_object', 'shared_eliminator_object',
    'multi_duplicated:ranked', 'multi_duplicated:enum', 'multi_duplicated:range', 'multi_duplicated_objects',
    'multi_duplicated_str_and_object', 'multi_duplicated_object_kinds', 'multi_not_admitted:approval', 'multi_not_admitted:ranked',
    'multi_not_admitted:enum', 'multi_not_admitted:range', 'multi_not_admitted_objects', 'multi_ranks_out_of_bounds',
    'multi_bad_scores', 'multi_bad_scores_nonnumeric', 'multi_malformed_score_items',
    'elim:multi_duplicated:ranked', 'elim:multi_duplicated_objects', 'elim:multi_not_admitted_objects', 'elim_multi_defect',
    'levels_as:list', 'levels_as:tuple', 'levels_as:set', 'levels_as:frozenset', 'levels_as:dict_keys', 'levels_as:dict',
    'levels_as:generator', 'levels_as:range', 'levels_as:str', 'score_substring_of_levels', 'score_empty_string',
    'score_empty_string_vs_grades', 'score_other_type_than_levels', 'score_number_vs_grades', 'levels_caller_list_changed',
    'bounds_as_list', 'caller_collections_changed', 'caller_dict_changed',
    'op:validate_seq', 'seq_valid_after_invalid', 'other_validator_first', 'elim_mixed_kinds',
    'ballot_len_0', 'ballot_len_1', 'ballot_len_50plus',
]
RULE = ('ballots from the grammar (str, Person with/without party, PoliticalParty, Coalition, blank votes, int, Fraction, None, '
        'other object, tuple, list, frozenset, set, dict, nested to depth 3) in a mostly-valid stream (valid ballot for the '
        'configuration, bounds chosen relative to the ballot so that every inclusive boundary is hit from both sides, then one '
        'mutation in 45% of the cases) and a malformed stream (random objects); configurations: Simple/Approval/Ranked/EnumScore/'
        'Range x bounds None/one-sided/equal/crossing x per-rank and per-count bound dictionaries x Basic/Person/Party nominators '
        'with every flag combination, built through bound tuples / dictionaries and (20%) through explicit checker objects; op '
        'eliminate on dictionaries of 1-7 hashable ballots. Thorough tier adds the exhaustive scope: every object of depth <= 2 '
        'over six atoms (two strings, a Person, a blank vote, 1, None) with containers of at most two members x 64 configurations. '
        'Audit dimensions (harness/GENERATOR_CHECKLIST.md): bounds handed over as int / Fraction / Decimal / float (dyadic and 1.4-like) / '
        'bool, zero, negative, crossing; bound dictionaries with key 0 and keys beyond the ballot; all ten nominator flag combinations, '
        'flags set after construction, the default nominator; candidate objects with an empty name, one-member / nested / empty coalitions, '
        'equal-looking distinct objects, a string named like an object; unhashable values at every position; shared ranks of 3-4, empty '
        'shared ranks, ranks given as list / set / tuple / dict; a candidate scored twice with the same / an equal / another score; scores '
        'as Decimal (incl. 7+ digits), Fraction, float, bool, ints beyond 2**53 and 10**400, hash-alike scores; one validator object over '
        'a sequence of ballots (op validate_seq, optionally after a differently configured validator); the filter on dictionaries mixing '
        'all ballot kinds with counts of every exact type; ballots of 0, 1 and 50-64 choices. '
        'Non-trivial = a container ballot, a sequence or an eliminate call; distinct by canonical request.')
NOT_VERIFIED = [
    'numbers are modelled by their exact value (int, Fraction and Decimal are not distinguished; float and bool are outside the grammar; '
    'a ballot mixes ints with at most one of Fraction / Decimal / float, because Python cannot add a Decimal to a Fraction or a float; '
    'Decimals stay below the 28-digit context precision; float scores and float bounds are doubles taken at their exact value, and float '
    'scores only occur in ballots whose sums are exactly representable — binary rounding of float arithmetic is outside the property)',
    'a Python set is modelled as the list of its members in the iteration order observed on the real object (hash order)',
    'equality / hashing of Python values is modelled as structural equality of encodings (candidate objects by identity)',
    'candidate classes are modelled by kind (Person with/without candidacy_for, PoliticalParty, Coalition, BlankVoteOption); '
    'user-defined candidate classes and bool scores are outside the grammar',
    'the constructors (bound tuple / bound dict / explicit checker objects / explicit checker dicts) are modelled by their result, '
    'a lookup-with-default of bounds; all four routes are exercised by the correspondence',
    'the defaultdict of per-rank / per-count checkers is modelled as lookup-with-default',
    'the predicates Obj.hashable / Obj.wf used as theorem hypotheses are validated against hash() of the real objects (op shape)',
]
EXHAUSTIVE = {'thorough': True}
TECHNIQUE = ('Lean 4 proof that each validator model accepts exactly the declaratively valid ballots (all values of the grammar, all '
             'configurations) + differential correspondence of the model with votelib on generated and exhaustively enumerated ballots')
LEVEL_TEXT = ('The nominators, VoteMagnitudeChecker, the five validators and InvalidVoteEliminator are modelled check by check in Lean over '
              'an inductive grammar of Python values; acceptance is proved equivalent to a declarative validity predicate for every value '
              'and configuration, rejections are proved to be VoteError / CandidateError only, and the filter is proved to remove exactly '
              'the invalid ballots keeping order and counts; the six deviations found on the way were repaired in /repo (fixed findings).')
LEVEL_NOTE = ('Trusted: Lean kernel + propext/Classical.choice/Quot.sound; the correspondence harness (object builder/encoder, generator '
              'bounds: depth <= 3, <= 6 members) and the abstractions listed under modelled_not_verified.')

KINDS = ['person_party', 'person_indep', 'party', 'coalition', 'blank']
STRS = ['a', 'b', 'c', 'd', '', 'P0', 'x', 'y', 'good', 'bad', 'zz', 'None', 'ab', 'abc', 'abcd', 'bc', 'xy', 'ba']


def sname(i):
    return STRS[i] if i < len(STRS) else f's{i}'


# ------------------------------------------------------------------------------------------------
# building real Python objects from the encoding, and encoding real objects back

class Pool:
    """real objects of one case: the same (kind, id) is the same Python object"""
    def __init__(self):
        import votelib.candidate as vc
        self.vc = vc
        self.objs = {}
        self.back = {}
        self.party = vc.PoliticalParty('Support')

    def cand(self, kind, i):
        key = (kind, i)
        if key not in self.objs:
            vc = self.vc
            # ids vary the object within its kind: 0 plain; 1 a variant; 2 an object whose name is the empty string;
            # 3 a second object that looks exactly like id 0 (equal name, distinct identity); 4+ plain
            nm = {0: '0', 2: None, 3: '0'}.get(i, str(i))
            if kind == 'person_party':
                o = vc.Person('' if nm is None else 'P' + nm, candidacy_for='StrParty' if i == 1 else self.party)
            elif kind == 'person_indep':
                o = vc.Person('' if nm is None else 'I' + nm, membership=self.party if i == 1 else None)
            elif kind == 'party':
                o = vc.PoliticalParty('' if nm is None else ('P0' if i == 1 else 'Party' + nm))
            elif kind == 'coalition':
                if i == 1:
                    o = vc.Coalition([vc.PoliticalParty('M1a')])                       # a coalition of one
                elif i == 2:
                    o = vc.Coalition([vc.Coalition([vc.PoliticalParty('Na'), vc.PoliticalParty('Nb')]),
                                      vc.PoliticalParty('Nc')], name='')                # nested, empty name
                elif i == 4:
                    o = vc.Coalition([])                                                # no members: name ''
                else:
                    o = vc.Coalition([vc.PoliticalParty('M0a'), vc.PoliticalParty('M0b')])
            elif kind == 'blank':
                cls = vc.NoneOfTheAbove if i % 2 == 0 else vc.ReopenNominations
                o = cls('' if nm is None else ('nota' if i % 2 == 0 else 'ron') + nm)
            elif kind == 'other':
                o = vc.Constituency()
            else:
                raise ValueError(kind)
            self.objs[key] = o
            self.back[id(o)] = key
        return self.objs[key]

    def build(self, e):
        if e is None:
            return None
        if 's' in e:
            return sname(e['s'])
        if 'c' in e:
            return self.cand(e['c'], e['id'])
        if 'n' in e:
            f = Fraction(e['n'])
            if e.get('D') and to_decimal(f) is not None:
                return to_decimal(f)
            if e.get('fl') and Fraction(float(f)) == f:
                return float(f)                     # only doubles that carry the value exactly
            if e.get('bo') and f in (0, 1):
                return bool(f)
            return int(f) if f.denominator == 1 and not e.get('F') else f
        if 'o' in e:
            return self.cand('other', e['o'])
        if 't' in e:
            return tuple(self.build(x) for x in e['t'])
        if 'l' in e:
            return [self.build(x) for x in e['l']]
        if 'f' in e:
            return frozenset(self.build(x) for x in e['f'])
        if 'm' in e:
            return set(self.build(x) for x in e['m'])
        if 'd' in e:
            return dict(zip([self.build(x) for x in e['d'][0]], [self.build(x) for x in e['d'][1]]))
        raise ValueError(e)

    def encode(self, o, depth=0):
        """protocol encoding of a real object; sets at depth 0/1 in iteration order, deeper sets canonical"""
        if o is None:
            return None
        if isinstance(o, str):
            return {'s': STRS.index(o) if o in STRS else int(o[1:])}
        if isinstance(o, bool):
            return {'n': str(int(o))}
        if isinstance(o, float):
            return {'n': num_str(Fraction(o))}
        if isinstance(o, (int, Fraction, Decimal)):
            return {'n': num_str(o)}
        if isinstance(o, tuple):
            return {'t': [self.encode(x, depth + 1) for x in o]}
        if isinstance(o, list):
            return {'l': [self.encode(x, depth + 1) for x in o]}
        if isinstance(o, (frozenset, set)):
            xs = [self.encode(x, depth + 1) for x in o]
            if depth >= 2:
                xs.sort(key=ckey)
            return {'f' if isinstance(o, frozenset) else 'm': xs}
        if isinstance(o, dict):
            return {'d': [[self.encode(x, depth + 2) for x in o.keys()], [self.encode(x, depth + 2) for x in o.values()]]}
        kind, i = self.back[id(o)]
        if kind == 'other':
            return {'o': i}
        return {'c': kind, 'id': i}


def canon_obj(e):
    """canonical form of an encoding: numbers reduced, sets sorted and de-duplicated (Python set semantics)"""
    if e is None:
        return None
    if 'n' in e:
        return {'n': num_str(Fraction(e['n']))}
    for k in ('t', 'l'):
        if k in e:
            return {k: [canon_obj(x) for x in e[k]]}
    for k in ('f', 'm'):
        if k in e:
            xs = {}
            for x in e[k]:
                c = canon_obj(x)
                xs[json.dumps(c, sort_keys=True)] = c
            return {k: [xs[s] for s in sorted(xs)]}
    if 'd' in e:
        return {'d': [[canon_obj(x) for x in e['d'][0]], [canon_obj(x) for x in e['d'][1]]]}
    return {k: v for k, v in e.items() if k not in ('F', 'D', 'fl', 'bo')}


def ckey(e):
    return json.dumps(canon_obj(e), sort_keys=True)


def members(e):
    """distinct members of an encoded set, in first-occurrence order"""
    seen, out = set(), []
    for x in e:
        k = ckey(x)
        if k not in seen:
            seen.add(k)
            out.append(x)
    return out


def to_decimal(f):
    """the Decimal equal to a Fraction (None if it has no finite decimal expansion of at most 25 digits)"""
    d = Decimal(f.numerator) / Decimal(f.denominator)
    return d if Fraction(d) == f and len(d.as_tuple().digits) <= 25 else None


def bfrac(x):
    """exact value of a number string 'p/q', or 'T:p/q' with T the Python type it is handed over as:
    F Fraction, D Decimal, f float (the exact value of the double), b bool"""
    return Fraction(x[2:] if x[1:2] == ':' else x)


def py_num(x):
    """the Python number of a number string"""
    f = bfrac(x)
    t = x[0] if x[1:2] == ':' else ''
    if t == 'D' and to_decimal(f) is not None:
        return to_decimal(f)
    if t == 'F':
        return f
    if t == 'f' and Fraction(float(f)) == f:
        return float(f)
    if t == 'b' and f in (0, 1):
        return bool(f)
    return int(f) if f.denominator == 1 else f


def py_bounds(b):
    return (None if b[0] is None else py_num(b[0]), None if b[1] is None else py_num(b[1]))


def plain_bounds(b):
    return [None if x is None else num_str(bfrac(x)) for x in b]


def plain_val(val):
    """the configuration as the Lean model sees it: bounds as exact rationals"""
    out = {k: v for k, v in val.items() if k not in ('via', 'levels_as', 'alias', 'bounds_as')}
    for k in ('count', 'total', 'n', 'range'):
        if k in out:
            out[k] = plain_bounds(out[k])
    for k in ('rank', 'sum'):
        if out.get(k) is not None:
            bm = out[k]
            if 'all' in bm:
                out[k] = {'all': plain_bounds(bm['all'])}
            else:
                out[k] = {'by': [[kk, plain_bounds(b)] for kk, b in bm['by']]}
                if 'default' in bm:
                    out[k]['default'] = plain_bounds(bm['default'])
    return out


def py_boundmap(bm):
    if 'all' in bm:
        return py_bounds(bm['all'])
    return {k: py_bounds(b) for k, b in bm['by']}


def show_map(bounds_kw, checker_kw, bm):
    """constructor arguments of a bound map, as text"""
    if bm is None:
        return ''
    if not bm.get('form'):
        return f", {bounds_kw}={py_boundmap(bm)}"
    listed = '{' + ', '.join(f'{k}: VoteMagnitudeChecker({py_bounds(b)})' for k, b in bm['by']) + '}'
    m = {'plain': listed, 'proxy': f'MappingProxyType({listed})', 'custom': f'CustomMapping({listed})',
         'defaultdict': f"defaultdict(lambda: VoteMagnitudeChecker({py_bounds(bm.get('default', [None, None]))}), {listed})"}[bm['form']]
    return f", {checker_kw}={m}" + (f", {bounds_kw}=(7, 7)" if bm.get('junk') else '')


def mk_nominator(n):
    """n['flip']: the nominator is constructed with the opposite flags, which are then set to their final values
    (the flags are plain attributes read at validation time)"""
    import votelib.candidate as vc
    flip = bool(n.get('flip'))
    if n['k'] == 'basic':
        nom = vc.BasicNominator(allow_blank=n['blank'] != flip)
        nom.allow_blank = n['blank']
    elif n['k'] == 'person':
        nom = vc.PersonNominator(allow_independents=n['indep'] != flip, allow_blank=n['blank'] != flip)
        nom.allow_independents, nom.allow_blank = n['indep'], n['blank']
    elif n['k'] == 'party':
        nom = vc.PartyNominator(allow_coalitions=n['coal'] != flip, allow_blank=n['blank'] != flip)
        nom.allow_coalitions, nom.allow_blank = n['coal'], n['blank']
    else:
        raise ValueError(n)
    return nom


def mk_validator(val, pool):
    """the real validator of a configuration; collections handed to the constructor (score levels, bound lists, bound /
    checker dictionaries) are changed by the caller right after construction when val['alias'] is set: the validator must
    have taken its own copy"""
    after = []
    v = _mk_validator(val, pool, after)
    if val.get('alias'):
        for f in after:
            f()
    return v


def applicable_level_containers(levels):
    """the containers in which a list of score levels can be handed over"""
    kinds = ['list', 'tuple', 'generator', 'set', 'frozenset', 'dict_keys', 'dict']
    if levels and all(is_str(x) and len(sname(x['s'])) == 1 for x in levels) and len(set(x['s'] for x in levels)) == len(levels):
        kinds.append('str')
    nums = [Fraction(x['n']) for x in levels if is_num(x) and not any(k in x for k in ('F', 'D', 'fl', 'bo'))]
    if levels and len(nums) == len(levels) and all(f.denominator == 1 for f in nums) and nums == list(range(int(nums[0]), int(nums[0]) + len(nums))):
        kinds.append('range')
    return kinds


def levels_container(kind, lv, after):
    if kind == 'tuple':
        return tuple(lv)
    if kind == 'set':
        return set(lv)
    if kind == 'frozenset':
        return frozenset(lv)
    if kind == 'dict_keys':
        return dict.fromkeys(lv).keys()
    if kind == 'dict':
        return dict.fromkeys(lv)
    if kind == 'generator':
        return (x for x in lv)
    if kind == 'str':
        return ''.join(lv)
    if kind == 'range':
        return range(lv[0], lv[0] + len(lv))
    lv = list(lv)

    def change():           # the caller goes on using its list
        lv.clear()
        lv.append('never a level')
    after.append(change)
    return lv


def _mk_validator(val, pool, after):
    """the real validator of a configuration.  val['via'] == 'checkers': the scalar bounds are passed as explicit
    VoteMagnitudeChecker objects next to contradicting bound tuples (which must be ignored);
    val['via'] == 'plain_dicts': per-rank / per-count checkers are passed as explicit plain dictionaries."""
    import votelib.vote as vv
    vt = val['vt']
    via = val.get('via')
    junk = (7, 7)
    nomkw = {} if val['nom'].get('default') else {'nominator': mk_nominator(val['nom'])}   # default: BasicNominator()

    def bnd(b):
        """a bound pair as tuple, or (val['bounds_as'] == 'list') as a list the caller changes afterwards"""
        t = py_bounds(b)
        if val.get('bounds_as') != 'list':
            return t
        lst = list(t)

        def change():
            lst[0], lst[1] = 99, -99
        after.append(change)
        return lst

    def scalar(bounds_kw, checker_kw, b, name='count'):
        if via == 'checkers':
            return {bounds_kw: junk, checker_kw: vv.VoteMagnitudeChecker(bnd(b), name)}
        return {bounds_kw: bnd(b)}

    def mapping(bounds_kw, checker_kw, bm, name='count'):
        if bm is None:
            return {}
        if bm.get('form'):
            # an explicit mapping of checkers: plain dict, read-only proxy, custom Mapping, or defaultdict with a factory;
            # the bounds argument is either omitted (its default must not come into force) or contradicting junk
            listed = {k: vv.VoteMagnitudeChecker(py_bounds(b), name) for k, b in bm['by']}
            if bm['form'] != 'defaultdict':
                # the caller's dictionary changes afterwards (a defaultdict is kept as the store by design)
                after.append(lambda: (listed.clear(), listed.update({1: vv.VoteMagnitudeChecker((99, 99), name), 2: vv.VoteMagnitudeChecker((99, 99), name)})))
            if bm['form'] == 'plain':
                m = listed
            elif bm['form'] == 'proxy':
                import types
                m = types.MappingProxyType(listed)
            elif bm['form'] == 'custom':
                m = _CustomMapping(listed)
            else:
                dflt = py_bounds(bm.get('default', [None, None]))
                m = collections.defaultdict(lambda: vv.VoteMagnitudeChecker(dflt, name), listed)
            kw = {checker_kw: m}
            if bm.get('junk'):
                kw[bounds_kw] = junk
            return kw
        if via == 'plain_dicts' and 'by' in bm:
            return {bounds_kw: junk, checker_kw: {k: vv.VoteMagnitudeChecker(py_bounds(b), name) for k, b in bm['by']}}
        if 'all' in bm:
            return {bounds_kw: bnd(bm['all'])}
        d = {k: bnd(b) for k, b in bm['by']}
        after.append(lambda: (d.clear(), d.update({1: (99, 99), 2: (99, 99)})))      # the caller's bounds dictionary changes
        return {bounds_kw: d}

    if vt == 'simple':
        return vv.SimpleVoteValidator(**nomkw)
    if vt == 'approval':
        return vv.ApprovalVoteValidator(**nomkw, **scalar('vote_count_bounds', 'count_checker', val['count']))
    if vt == 'ranked':
        return vv.RankedVoteValidator(**nomkw, **scalar('total_vote_count_bounds', 'total_count_checker', val['total']),
                                      **mapping('rank_vote_count_bounds', 'rank_vote_count_checkers', val.get('rank')))
    kw = dict(scalar('allowed_scorings', 'n_scorings_checker', val['n']))
    kw.update(mapping('sum_bounds', 'sum_checkers', val['sum'], 'sum'))
    if vt == 'enum':
        lv = levels_container(val.get('levels_as', 'list'), [pool.build(x) for x in val['levels']], after)
        return vv.EnumScoreVoteValidator(lv, **nomkw, **kw)
    if vt == 'range':
        kw.update(scalar('range', 'range_checker', val['range'], 'range vote value'))
        return vv.RangeVoteValidator(**nomkw, **kw)
    raise ValueError(vt)


class _CustomMapping(collections.abc.Mapping):
    """a read-only Mapping that is no dict"""
    def __init__(self, d):
        self._d = dict(d)

    def __getitem__(self, k):
        return self._d[k]

    def __iter__(self):
        return iter(self._d)

    def __len__(self):
        return len(self._d)


def uses_plain_dicts(val):
    return val.get('via') == 'plain_dicts' and any(val.get(k) is not None and 'by' in val[k] for k in ('rank', 'sum'))


_LAST = [None, None]


# Long-lived validator + eliminator objects, one pair per configuration, used by the cases flagged `_shared` (about half of the
# calls of the recurring configurations): state that a validator, a checker store or the eliminator keeps between calls then
# shows up as an outcome that depends on earlier, unrelated ballots.  The model is a pure function of the case.
_SHARED = {}


def sharable(val):
    """configurations whose validator holds no per-case candidate objects"""
    return not any(x is not None and ('c' in x or 'o' in x) for lv in val.get('levels', []) for x, _ in walk(lv))


def get_objects(case, pool):
    """(validator, eliminator) of a case: the long-lived pair of its configuration, or a fresh pair"""
    import votelib.convert
    val = case['val']
    if case.get('_shared') and sharable(val):
        k = json.dumps(val, sort_keys=True)
        if k not in _SHARED:
            v = mk_validator(val, pool)
            _SHARED[k] = (v, votelib.convert.InvalidVoteEliminator(v))
        return _SHARED[k]
    v = mk_validator(val, pool)
    return v, votelib.convert.InvalidVoteEliminator(v)


def set_flags(nominator, n):
    """change the flags of a live nominator (validator state changed between two calls)"""
    if n['k'] == 'basic':
        nominator.allow_blank = n['blank']
    elif n['k'] == 'person':
        nominator.allow_independents, nominator.allow_blank = n['indep'], n['blank']
    else:
        nominator.allow_coalitions, nominator.allow_blank = n['coal'], n['blank']


def step_vals(val, steps):
    """the configuration in force at each call of a sequence: flags set on the live nominator stay until they are set again
    (a step whose flags are for another nominator kind sets nothing)"""
    out, cur = [], val
    for st in steps:
        if 'nom' in st and st['nom']['k'] == val['nom']['k']:
            cur = dict(val, nom=st['nom'])
        out.append(cur)
    return out


def _built(case):
    """(pool, validator, vote object or votes dict, eliminator) of a case; cached so that impl and model_line see the same
    objects"""
    key = case_key(case)
    if _LAST[0] == key:
        return _LAST[1]
    pool = Pool()
    validator, elim = get_objects(case, pool) if case['op'] != 'shape' else (None, None)
    if case['op'] == 'eliminate_seq':
        obj = []
        for st in case['steps']:
            d = {}
            for k, n in st['votes']:
                d[pool.build(k)] = py_num(n)
            obj.append(d)
    elif case['op'] in ('validate', 'shape'):
        obj = pool.build(case['vote'])
    elif case['op'] == 'validate_seq':
        obj = [pool.build(v) for v in case['votes']]
        if case.get('first'):
            # a differently configured validator of the same class is built and used first (class / module level state)
            other = mk_validator(case['first'], pool)
            for b in obj[:2]:
                try:
                    other.validate(b)
                except Exception:       # noqa
                    pass
    else:
        obj = {}
        for k, n in case['votes']:
            obj[pool.build(k)] = py_num(n)
    _LAST[0], _LAST[1] = key, (pool, validator, obj, elim)
    return _LAST[1]


def impl(case):
    import votelib.convert
    pool, validator, obj, elim = _built(case)
    if case['op'] == 'validate':
        def run():
            validator.validate(obj)
            return 'ok'
        return guarded(run)
    if case['op'] == 'validate_seq':
        def one(b):
            def run():
                validator.validate(b)
                return 'ok'
            return guarded(run)
        return [one(b) for b in obj]
    if case['op'] == 'shape':
        def run():
            try:
                hash(obj)
                h = True
            except TypeError:
                h = False
            return {'hashable': h, 'wf': True}       # every object that exists is well-formed
        return guarded(run)
    if case['op'] == 'eliminate':
        def run():
            out = elim.convert(obj)
            return [[pool.encode(k), num_str(v)] for k, v in out.items()]
        return guarded(run)
    if case['op'] == 'eliminate_seq':
        # ONE eliminator object (wrapping one validator object) filters the profiles one after the other
        outs = []
        for st, d in zip(case['steps'], obj):
            if 'nom' in st and st['nom']['k'] == case['val']['nom']['k']:
                set_flags(validator.nominator, st['nom'])
            before = dict(d)

            def run():
                out = elim.convert(d)
                return [[pool.encode(k), num_str(v)] for k, v in out.items()]
            r = guarded(run)
            if d != before:
                r = {'err': 'InputMutated'}
            outs.append(r)
        if any('nom' in st for st in case['steps']):
            set_flags(validator.nominator, case['val']['nom'])      # leave a long-lived validator as configured
        return outs
    raise ValueError(case['op'])


def model_line(case):
    if case['op'] == 'shape':
        pool, validator, obj, elim = _built(case)
        return {'op': 'shape', 'vote': pool.encode(obj)}
    # explicit plain-dict checkers are wrapped into a defaultdict by the constructors (84faad8): same model
    pool, validator, obj, elim = _built(case)
    val = plain_val(case['val'])
    if val['vt'] == 'ranked' and val.get('rank') is None:
        val['rank'] = {'all': ['1', '1']}          # the constructor's default
    if val['vt'] == 'enum':
        val['levels'] = [canon_obj(x) for x in val['levels']]
    if case['op'] == 'validate':
        return {'op': 'validate', 'val': val, 'vote': pool.encode(obj)}
    if case['op'] == 'validate_seq':
        return {'op': 'validate_seq', 'val': val, 'votes': [pool.encode(b) for b in obj]}
    if case['op'] == 'eliminate_seq':
        steps = []
        for sv0, d in zip(step_vals(case['val'], case['steps']), obj):
            sv = dict(val, nom=sv0['nom'])
            steps.append({'val': sv, 'votes': [[pool.encode(k), num_str(v)] for k, v in d.items()]})
        return {'op': 'eliminate_seq', 'steps': steps}
    return {'op': 'eliminate', 'val': val, 'votes': [[pool.encode(k), num_str(v)] for k, v in obj.items()]}


def compare(case, iobs, mobs):
    if case['op'] == 'eliminate_seq' and isinstance(iobs, list) and isinstance(mobs, list) and len(iobs) == len(mobs):
        for i, (a, b) in enumerate(zip(iobs, mobs)):
            if isinstance(a, list) and isinstance(b, list):
                if [[ckey(k), v] for k, v in a] != [[ckey(k), v] for k, v in b]:
                    return f'step {i}: impl={json.dumps(a)} model={json.dumps(b)}'
            elif a != b:
                return f'step {i}: impl={json.dumps(a)} model={json.dumps(b)}'
        return None
    if case['op'] == 'eliminate' and isinstance(iobs, list) and isinstance(mobs, list):
        a = [[ckey(k), v] for k, v in iobs]
        b = [[ckey(k), v] for k, v in mobs]
        return None if a == b else f'impl={json.dumps(iobs)} model={json.dumps(mobs)}'
    return None if iobs == mobs else f'impl={json.dumps(iobs)} model={json.dumps(mobs)}'


# ------------------------------------------------------------------------------------------------
# the declarative rule (oracle), written from the property text on the encoding

def is_str(e):
    return e is not None and 's' in e


def is_cand_obj(e):
    return e is not None and 'c' in e


def is_num(e):
    return e is not None and 'n' in e


def admits(nom, e):
    """the candidates a nominator admits (candidate.py docstrings)"""
    k = nom['k']
    if k == 'basic':      # any string or candidate object; blank votes only if allowed
        if is_str(e):
            return True
        return is_cand_obj(e) and (e['c'] != 'blank' or nom['blank'])
    if not is_cand_obj(e):
        return False
    if e['c'] == 'blank':
        return nom['blank']
    if k == 'person':     # physical persons; independents only if allowed
        return e['c'] == 'person_party' or (e['c'] == 'person_indep' and nom['indep'])
    if k == 'party':      # parties; coalitions only if allowed
        return e['c'] == 'party' or (e['c'] == 'coalition' and nom['coal'])
    raise ValueError(k)


def within(b, x):
    """inclusive bounds, None = unbounded"""
    lo, hi = b
    return (lo is None or bfrac(lo) <= x) and (hi is None or x <= bfrac(hi))


def active(b):
    return b[0] is not None or b[1] is not None


def bm_get(bm, key):
    """bounds in force for a key: a tuple applies to every key; a dictionary (of bounds or of explicit checkers) leaves
    unlisted keys unconstrained; an explicit defaultdict gives them its factory's checker ('default')"""
    if 'all' in bm:
        return bm['all']
    for k, b in bm['by']:
        if k == key:
            return b
    return bm.get('default', [None, None])


def rule(val, e):
    """reasons why ballot `e` is invalid under validator configuration `val` (empty list = valid)"""
    vt, nom = val['vt'], val['nom']
    why = set()
    if vt == 'simple':
        if not admits(nom, e):
            why.add('candidate')
        return sorted(why)
    if vt == 'approval':
        if e is None or 'f' not in e:
            return ['shape']
        cands = members(e['f'])
        if not all(admits(nom, c) for c in cands):
            why.add('candidate')
        if not within(val['count'], len(cands)):
            why.add('count')
        return sorted(why)
    if vt == 'ranked':
        if e is None or 't' not in e:
            return ['shape']
        rank_bm = val.get('rank') or {'all': ['1', '1']}
        named = []
        for i, r in enumerate(e['t']):
            if r is not None and ('f' in r or 'm' in r):
                if 'm' in r:
                    why.add('mutable_set_rank')     # a shared rank must be a frozen set
                here = members(r.get('f', r.get('m')))
            else:
                here = [r]
            if not within(bm_get(rank_bm, i + 1), len(here)):
                why.add('rank_count')
            named += here
        if not all(admits(nom, c) for c in named):
            why.add('candidate')
        if len(set(ckey(c) for c in named)) < len(named):
            why.add('duplicate')
        if not within(val['total'], len(named)):
            why.add('count')
        return sorted(why)
    if vt in ('enum', 'range'):
        if e is None or 'f' not in e:
            return ['shape']
        items = members(e['f'])
        if not all(it is not None and 't' in it and len(it['t']) == 2 for it in items):
            return ['shape']
        cands = [it['t'][0] for it in items]
        scores = [it['t'][1] for it in items]
        if not all(admits(nom, c) for c in cands):
            why.add('candidate')
        if len(set(ckey(c) for c in cands)) < len(cands):
            why.add('duplicate')
        if not within(val['n'], len(items)):
            why.add('count')
        sb = bm_get(val['sum'], len(items))
        if active(sb):
            if not all(is_num(s) for s in scores) or not within(sb, sum(Fraction(s['n']) for s in scores)):
                why.add('score_sum')
        if vt == 'enum':
            levels = set(ckey(x) for x in val['levels'])
            if not all(ckey(s) in levels for s in scores):
                why.add('level')
        else:
            if active(val['range']) and not all(is_num(s) and within(val['range'], Fraction(s['n'])) for s in scores):
                why.add('score')
        return sorted(why)
    raise ValueError(vt)


def hashable_enc(e):
    if e is None:
        return True
    if 't' in e:
        return all(hashable_enc(x) for x in e['t'])
    return not ('l' in e or 'm' in e or 'd' in e)


def type_error_class(val, e):
    """input class of a leaked TypeError (for matching known findings)"""
    vt = val['vt']
    if vt in ('enum', 'range') and e is not None and 'f' in e:
        items = members(e['f'])
        if all(it is not None and 't' in it and len(it['t']) == 2 for it in items):
            scores = [it['t'][1] for it in items]
            nonnum = any(not is_num(s) for s in scores)
            if nonnum and active(bm_get(val['sum'], len(items))):
                return 'nonnumeric_score_with_sum_bound'
            if nonnum and vt == 'range' and active(val['range']):
                return 'nonnumeric_score_with_range_bound'
    if vt == 'ranked' and e is not None and 't' in e:
        if any(not (r is not None and ('f' in r or 'm' in r)) and not hashable_enc(r) for r in e['t']):
            return 'unhashable_rank_item'
    return 'unclassified'


LIBRARY_ERRORS = ('VoteError', 'CandidateError')


def oracle(case, obs):
    if case['op'] == 'shape':
        return []
    val = case['val']
    out = []

    def one(vote, ob, where=''):
        why = rule(val, vote)
        if ob == 'ok':
            if why:
                out.append(('accepts_invalid:' + '+'.join(why), f'ballot{where} accepted although {why}'))
        elif ob.get('err') not in LIBRARY_ERRORS:
            # the validator did not reject the ballot, it crashed
            cls = ('explicit_checker_dict' if (ob.get('err') == 'KeyError' and uses_plain_dicts(val))
                   else type_error_class(val, vote))
            out.append((f"raises:{ob.get('err')}:{cls}", f'ballot{where} not reported as a VoteError / CandidateError'
                        + ('' if why else ' (and the ballot is valid)')))
        elif not why:
            out.append(('rejects_valid', f'valid ballot{where} rejected with {ob}'))

    if case['op'] == 'validate':
        one(case['vote'], obs)
        return out
    if case['op'] == 'validate_seq':
        if not isinstance(obs, list) or len(obs) != len(case['votes']):
            return [('sequence_shape', str(obs))]
        for i, (v, ob) in enumerate(zip(case['votes'], obs)):
            one(v, ob, f' #{i} of the sequence')
        return out
    def elim(v, votes, ob, where=''):
        counts = {}
        for k, n in votes:
            counts[ckey(k)] = num_str(bfrac(n))          # later duplicates overwrite (dict semantics)
        verdicts = {ckey(k): rule(v, k) for k, n in votes}
        expected = {k: n for k, n in counts.items() if not verdicts[k]}
        if isinstance(ob, dict):
            out.append((f"eliminator_raises:{ob.get('err')}", f'the filter raised{where} instead of removing the rejected ballots'))
            return
        got = {ckey(k): n for k, n in ob}
        if len(got) != len(ob):
            out.append(('eliminator_duplicate_key', f'a ballot occurs twice in the output{where}'))
        for k in got:
            if k not in counts:
                out.append(('eliminator_invented', f'a ballot of the output is not in the input{where}'))
            elif k not in expected:
                out.append(('eliminator_kept_invalid:' + '+'.join(verdicts[k]), f'kept {k}{where}'))
            elif got[k] != expected[k]:
                out.append(('eliminator_count_changed', f'{k}: {expected[k]} -> {got[k]}{where}'))
        for k in expected:
            if k not in got:
                out.append(('eliminator_removed_valid', f'removed {k}{where}'))

    if case['op'] == 'eliminate':
        elim(val, case['votes'], obs)
        return out
    if case['op'] == 'eliminate_seq':
        if not isinstance(obs, list) or len(obs) != len(case['steps']):
            return [('sequence_shape', str(obs))]
        for i, (st, sv, ob) in enumerate(zip(case['steps'], step_vals(val, case['steps']), obs)):
            elim(sv, st['votes'], ob, f' at call #{i} of the same eliminator')
        return out
    raise ValueError(case['op'])


def nontrivial(case, obs):
    if case['op'] in ('eliminate', 'validate_seq', 'eliminate_seq'):
        return True
    if case['op'] == 'shape':
        return False
    e = case['vote']
    return e is not None and any(k in e for k in ('t', 'f', 'l', 'm', 'd'))


# ------------------------------------------------------------------------------------------------
# generators

def S(i):
    return {'s': i}


def Cd(kind, i=0):
    return {'c': kind, 'id': i}


def N(x, F=False, D=False, f=False, b=False):
    """a number; flags: handed over as Fraction / Decimal / float (exact doubles only) / bool"""
    e = {'n': num_str(Fraction(x))}
    for k, on in (('F', F), ('D', D), ('fl', f), ('bo', b)):
        if on:
            e[k] = 1
    return e


NOMS = ([{'k': 'basic', 'blank': b} for b in (True, False)]
        + [{'k': 'person', 'indep': i, 'blank': b} for i in (True, False) for b in (True, False)]
        + [{'k': 'party', 'coal': c, 'blank': b} for c in (True, False) for b in (True, False)])

ALL_CANDS = [S(i) for i in range(6)] + [Cd(k, i) for k in KINDS for i in range(4)] + [Cd('coalition', 4)]
NON_CANDS = [N(1), N(0), N(Fraction(1, 2)), None, {'o': 0}, {'t': [S(0), S(1)]}, {'t': []}, {'f': [S(0)]}, {'f': []},
             {'t': [S(0), N(1)]}, {'f': [{'t': [S(0), N(1)]}]}]
UNHASHABLE = [{'l': [S(0)]}, {'l': []}, {'m': [S(0), S(1)]}, {'d': [[S(0)], [N(1)]]}, {'t': [{'l': [S(1)]}]}]


def gen_nom(rng):
    nom = dict(rng.choice(NOMS))
    r = rng.random()
    if r < 0.15:
        nom['flip'] = True                   # flags set after construction
    elif r < 0.45 and nom == {'k': 'basic', 'blank': True}:
        nom['default'] = True                # the validator is built without a nominator argument
    return nom


def same_nom(a, b):
    keys = ('k', 'blank', 'indep', 'coal')
    return all(a.get(k) == b.get(k) for k in keys)


def retype_num(rng, x, shift=None):
    """the same bound handed over as another Python type (F Fraction, D Decimal, f float, b bool); `shift`: a non-dyadic
    float a little below (lower bound) / above (upper bound) the value, which leaves integer-valued quantities unaffected"""
    if x is None or x[1:2] == ':':
        return x
    f = Fraction(x)
    opts = ['F']
    if to_decimal(f) is not None:
        opts.append('D')
    if Fraction(float(f)) == f:
        opts.append('f')
    if f in (0, 1):
        opts += ['b', 'b']
    if shift is not None and abs(f) < 10 ** 6:
        opts += ['shift']
    t = rng.choice(opts)
    if t == 'shift':
        g = Fraction(float(f) + shift)
        return 'f:' + num_str(g)
    return f'{t}:{num_str(f)}'


def retype_bounds(rng, val):
    val = dict(val)
    for k in ('count', 'total', 'n', 'range'):
        if k in val and rng.random() < 0.5:
            cnt = k != 'range'
            val[k] = [retype_num(rng, val[k][0], -0.6 if cnt else None), retype_num(rng, val[k][1], 0.4 if cnt else None)]
    for k in ('rank', 'sum'):
        bm = val.get(k)
        if bm is not None and rng.random() < 0.5:
            cnt = k == 'rank'
            def rt(b):
                return [retype_num(rng, b[0], -0.6 if cnt else None), retype_num(rng, b[1], 0.4 if cnt else None)]
            if 'all' in bm:
                val[k] = {'all': rt(bm['all'])}
            else:
                nb = dict(bm, by=[[kk, rt(b)] for kk, b in bm['by']])
                if 'default' in bm:
                    nb['default'] = rt(bm['default'])
                val[k] = nb
    return val


def admitted(nom):
    return [c for c in ALL_CANDS if admits(nom, c)]


def not_admitted(nom, hashable_only=True):
    xs = [c for c in ALL_CANDS if not admits(nom, c)] + NON_CANDS
    if not hashable_only:
        xs = xs + UNHASHABLE
    return xs


def rel_bounds(rng, c, tags, integer=True):
    """bounds chosen relative to a measured value c so that boundaries are hit from both sides"""
    step = 1 if integer else rng.choice([1, Fraction(1, 2)])
    r = rng.random()
    def s(x):
        return None if x is None else num_str(Fraction(x))
    if r < 0.12:
        return [None, None]
    if r < 0.24:
        tags.append('lower_bound_hit'); return [s(c), None]
    if r < 0.36:
        tags.append('upper_bound_hit'); return [None, s(c)]
    if r < 0.48:
        tags.append('lower_bound_hit'); tags.append('upper_bound_hit'); tags.append('equal_bounds'); return [s(c), s(c)]
    if r < 0.55:
        tags.append('just_below'); return [s(c + step), rng.choice([None, s(c + 3)])]
    if r < 0.62:
        tags.append('just_above'); return [rng.choice([None, s(c - 3)]), s(c - step)]
    if r < 0.67:
        tags.append('crossing_bounds'); return [s(c + step), s(c)] if rng.random() < 0.5 else [s(c), s(c - step)]
    if r < 0.72:
        tags.append('equal_bounds'); k = c + rng.choice([-1, 1]) * step; return [s(k), s(k)]
    if r < 0.86:
        tags.append('lower_bound_hit'); return [s(c), s(c + rng.randint(0, 2))]
    tags.append('upper_bound_hit'); return [s(c - rng.randint(0, 2)), s(c)]


def pick_cands(rng, nom, k):
    pool = admitted(nom)
    rng.shuffle(pool)
    return pool[:k]


def gen_obj(rng, depth=0, hashable=False):
    """a random object of the grammar (malformed stream)"""
    r = rng.random()
    if depth >= 3 or r < 0.45:
        atoms = ALL_CANDS + [N(rng.randint(-2, 6)), N(Fraction(rng.randint(-3, 9), 2), F=True), None, {'o': rng.randint(0, 1)}]
        return rng.choice(atoms)
    kinds = ['t', 'f'] if hashable else ['t', 'f', 'l', 'm', 'd']
    k = rng.choice(kinds)
    n = rng.choice([0, 1, 1, 2, 2, 3])
    if k in ('f', 'm'):
        return {k: [gen_obj(rng, depth + 1, True) for _ in range(n)]}
    if k == 'd':
        return {'d': [[gen_obj(rng, depth + 1, True) for _ in range(n)], [gen_obj(rng, depth + 1, hashable) for _ in range(n)]]}
    return {k: [gen_obj(rng, depth + 1, hashable) for _ in range(n)]}


def fix_dict(e):
    """dict keys collapse in Python; keep keys/values aligned (harness builds dict(zip(...)))"""
    return e


def gen_simple(rng, tags, hashable=False, nom=None):
    nom = nom or gen_nom(rng)
    r = rng.random()
    if r < 0.6 and admitted(nom):
        vote = rng.choice(admitted(nom))
    elif r < 0.85:
        vote = rng.choice(not_admitted(nom, hashable))
        tags.append('not_admitted')
    else:
        vote = gen_obj(rng, 0, hashable)
        tags.append('malformed_stream')
    return {'vt': 'simple', 'nom': nom}, vote


def mutate_container(rng, e, key, tags, hashable):
    """wrong container type for a ballot / rank"""
    tags.append('wrong_container')
    xs = e[key]
    choices = ['t', 'f'] if hashable else ['t', 'f', 'l', 'm', 'd']
    choices = [c for c in choices if c != key]
    k = rng.choice(choices)
    if k == 'd':
        return {'d': [xs, [N(1) for _ in xs]]}
    return {k: xs}


def gen_approval(rng, tags, hashable=False, nom=None):
    nom = nom or gen_nom(rng)
    k = rng.choice([0, 1, 1, 2, 2, 3, 3, 4, 5])
    cands = pick_cands(rng, nom, k)
    vote = {'f': cands}
    if not cands:
        tags.append('empty_ballot')
    count = rel_bounds(rng, len(cands), tags)
    if rng.random() < 0.45:
        m = rng.random()
        if m < 0.35:
            vote = {'f': cands + [rng.choice(not_admitted(nom))]}
            tags.append('not_admitted')
        elif m < 0.55:
            vote = mutate_container(rng, vote, 'f', tags, hashable)
        elif m < 0.7 and cands:
            vote = {'f': [{'t': [c]} if rng.random() < 0.5 else {'f': [c]} for c in cands]}
            tags.append('nested_candidate')
        elif m < 0.8 and cands:
            vote = rng.choice(cands)                  # a simple vote in place of an approval vote
            tags.append('wrong_container')
        else:
            vote = {'f': cands + cands[:1]}          # repeated member collapses in a set: still valid
    return {'vt': 'approval', 'count': count, 'nom': nom}, vote


def gen_ranked(rng, tags, hashable=False, nom=None):
    nom = nom or gen_nom(rng)
    nranks = rng.choice([0, 1, 2, 2, 3, 3, 4, 5])
    sizes = [rng.choice([1, 1, 1, 1, 2, 2, 3, 0, 4]) for _ in range(nranks)]
    pool = pick_cands(rng, nom, 20)
    ranks, used = [], 0
    for sz in sizes:
        cs = pool[used:used + sz]
        used += len(cs)
        if len(cs) == 1 and sz == 1 and rng.random() < 0.8:
            ranks.append(cs[0])
        else:
            ranks.append({'f': cs})
            if len(cs) >= 2:
                tags.append('shared_rank')
    if not ranks:
        tags.append('empty_ballot')
    rsizes = [len(r['f']) if (r is not None and 'f' in r) else 1 for r in ranks]
    total = rel_bounds(rng, sum(rsizes), tags)
    r = rng.random()
    if r < 0.25:
        rank = None                                  # constructor default (1, 1)
    elif r < 0.6 or not ranks:
        sub = []
        rank = {'all': rel_bounds(rng, rng.choice(rsizes) if rsizes else 1, sub)}
        if max(rsizes, default=1) == min(rsizes, default=1):
            tags += sub
    else:
        tags.append('rank_dict')
        by = []
        for i in rng.sample(range(len(ranks) + 1), rng.randint(1, len(ranks))):
            sub = []
            by.append([i + 1, rel_bounds(rng, rsizes[i] if i < len(rsizes) else 1, sub)])
            tags += sub
        if rng.random() < 0.3:
            by.append([0, ['5', '5']])               # key that is no rank: never consulted
        if rng.random() < 0.3:
            by.append([rng.choice([len(ranks) + 2, 9, 60]), ['7', '7']])     # rank beyond the ballot: never consulted
        rank = {'by': by}
    if rng.random() < 0.45 and ranks:
        m = rng.random()
        i = rng.randrange(len(ranks))
        flat = [c for r_ in ranks for c in (r_['f'] if (r_ is not None and 'f' in r_) else [r_])]
        if m < 0.2 and flat:
            dup = rng.choice(flat)
            tags.append('duplicate')
            if rng.random() < 0.5:
                ranks.insert(rng.randint(0, len(ranks)), dup)
            else:
                j = rng.randrange(len(ranks))
                cur = ranks[j]['f'] if (ranks[j] is not None and 'f' in ranks[j]) else [ranks[j]]
                others = [c for c in flat if ckey(c) not in [ckey(x) for x in cur]]
                if others:
                    ranks[j] = {'f': cur + [rng.choice(others)]}
                    tags.append('dup_across_shared_rank')
                else:
                    ranks.append(dup)
        elif m < 0.4:
            bad = rng.choice(not_admitted(nom, hashable))
            tags.append('not_admitted')
            if ranks[i] is not None and 'f' in ranks[i] and hashable_enc(bad) and rng.random() < 0.6:
                ranks[i] = {'f': ranks[i]['f'] + [bad]}
            else:
                ranks[i] = bad
        elif m < 0.5:
            if ranks[i] is not None and 'f' in ranks[i]:
                ranks[i] = mutate_container(rng, ranks[i], 'f', tags, hashable)
            else:
                ranks[i] = {rng.choice(['t', 'f'] if hashable else ['t', 'l', 'm', 'f']): [ranks[i]]}
                tags.append('nested_candidate')
        elif m < 0.6:
            vote = mutate_container(rng, {'t': ranks}, 't', tags, hashable)
            return {'vt': 'ranked', 'total': total, 'rank': rank, 'nom': nom}, vote
        elif m < 0.7:
            ranks[i] = {'f': []}
        elif m < 0.8 and not hashable:
            cur = ranks[i]['f'] if (ranks[i] is not None and 'f' in ranks[i]) else [ranks[i]]
            ranks[i] = {'m': cur}
            tags.append('mutable_set_rank')
        else:
            ranks.pop(i)
    return {'vt': 'ranked', 'total': total, 'rank': rank, 'nom': nom}, {'t': ranks}


LEVEL_SETS = [[S(0), S(1), S(2), S(3)], [S(6), S(7)], [S(0), S(1), N(1)], [N(-2), N(0), N(5)], [N(0), N(1), N(2), N(3)], [N(-1), N(0), N(1)], [S(8), S(9)], [S(6), S(7), N(1)], [N(Fraction(1, 2)), N(1), N(5)],
              [None, N(1)], [], [{'t': []}, {'f': [S(1), S(0)]}, N(1), Cd('party', 0)]]


def gen_score(rng, tags, vt, hashable=False, nom=None):
    nom = nom or gen_nom(rng)
    n = rng.choice([0, 1, 1, 2, 2, 3, 3, 4])
    cands = pick_cands(rng, nom, n)
    fk = rng.choice(['F', 'D', 'f'])       # one non-int numeric type per ballot (Decimal / Fraction / float do not add exactly)
    if vt == 'enum':
        levels = rng.choice(LEVEL_SETS)
        scores = [rng.choice(levels) if levels else N(1) for _ in cands]
    else:
        levels = None
        kind = rng.random()
        scores = [N(rng.randint(-2, 6), **{fk: rng.random() < 0.2}) if kind < 0.7 else N(Fraction(rng.randint(-4, 12), 2), **{fk: True})
                  for _ in cands]
    if vt == 'range' and len(scores) >= 2 and rng.random() < 0.06:
        scores[0], scores[1] = N(-1), N(-2)            # hash(-1) == hash(-2)
    if vt == 'range' and len(scores) >= 2 and rng.random() < 0.04 and not any(x.get('fl') for x in scores if x is not None):
        scores[0], scores[1] = N(5), N(5 + 2 ** 61 - 1)   # equal hashes modulo 2**61 - 1
    if rng.random() < 0.08:
        scores = [N(Fraction(x['n']), b=True) if (is_num(x) and Fraction(x['n']) in (0, 1) and not x.get('F') and not x.get('D') and not x.get('fl'))
                  else x for x in scores]                 # bool scores
    items = [{'t': [c, s]} for c, s in zip(cands, scores)]
    if not items:
        tags.append('empty_ballot')
    nb = rel_bounds(rng, len(items), tags)
    numeric = all(is_num(s) for s in scores)
    total = sum((Fraction(s['n']) for s in scores if is_num(s)), Fraction(0))
    r = rng.random()
    sub = []
    if r < 0.3:
        sm = {'all': [None, None]}
    elif r < 0.7:
        sm = {'all': rel_bounds(rng, total, sub, integer=False)}
    else:
        tags.append('sum_dict')
        by = [[len(items), rel_bounds(rng, total, sub, integer=False)]] if rng.random() < 0.7 else []
        by += [[k, [None, '0']] for k in rng.sample([0, 1, 2, 3, 4, 5, 9, 60], 2) if k != len(items)]
        sm = {'by': by}
    if sub and numeric:
        tags.append('sum_boundary')
        tags += sub
    if not numeric and scores:
        tags.append('nonnumeric_score')
    val = {'vt': vt, 'n': nb, 'sum': sm, 'nom': nom}
    if vt == 'enum':
        val['levels'] = levels
    else:
        nums = [Fraction(s['n']) for s in scores if is_num(s)]
        sub = []
        val['range'] = rel_bounds(rng, rng.choice(nums) if nums else 0, sub, integer=False)
        if len(set(nums)) == 1:
            tags += sub
        if nums and any(not within(val['range'], x) for x in nums):
            tags.append('score_out_of_range')
    vote = {'f': items}
    if rng.random() < 0.45 and items:
        m = rng.random()
        i = rng.randrange(len(items))
        if m < 0.15:
            # the same candidate scored twice: with another score (a duplicate), with the identical score (the two
            # pairs are one member of the frozenset: no duplicate), or with an equal score of another numeric type
            r2 = rng.random()
            if r2 < 0.5:
                other = N(7) if vt == 'range' else rng.choice([N(7), S(10)])
                if ckey(other) != ckey(scores[i]):
                    tags.append('duplicate')
            elif r2 < 0.75 or not is_num(scores[i]):
                other = scores[i]
            else:
                other = N(Fraction(scores[i]['n']), F=not scores[i].get('F'))
            items.append({'t': [cands[i], other]})
        elif m < 0.3:
            items[i] = {'t': [rng.choice(not_admitted(nom)), scores[i]]}
            tags.append('not_admitted')
        elif m < 0.45:
            items[i] = rng.choice([{'t': [cands[i]]}, {'t': [cands[i], scores[i], scores[i]]}, cands[i], {'t': []},
                                   {'f': [cands[i], scores[i]]}])
            tags.append('wrong_container')
        elif m < 0.55:
            vote = mutate_container(rng, vote, 'f', tags, hashable)
        elif m < 0.7:
            bad = rng.choice([S(10), None, {'t': []}, {'f': []}, Cd('party', 0), {'f': [S(0), S(1)]}, {'f': [S(1), S(0)]}])
            items[i] = {'t': [cands[i], bad]}
            tags.append('nonnumeric_score')
            if vt == 'enum':
                tags.append('level_miss')
        elif m < 0.85:
            if vt == 'enum':
                numeric = [Fraction(x['n']) for x in levels if is_num(x) and Fraction(x['n']).denominator == 1]
                miss = N(99)
                onechar = [x for x in levels if is_str(x) and len(sname(x['s'])) == 1]
                if onechar and len(onechar) == len(levels) and rng.random() < 0.7:
                    # levels are one-character grades: scores that are concatenations / substrings of them, or empty
                    joined = ''.join(sname(x['s']) for x in levels)
                    subs = [S(i) for i in range(len(STRS)) if STRS[i] != '' and len(STRS[i]) > 1 and STRS[i] in joined]
                    miss = rng.choice(subs + [S(4), S(4), S(17), N(1)])
                elif levels and rng.random() < 0.25:
                    miss = S(0) if all(is_num(x) for x in levels) else N(1) if all(is_str(x) for x in levels) else S(4)
                    if any(ckey(miss) == ckey(x) for x in levels):
                        miss = N(99)
                if numeric and rng.random() < 0.5:
                    # a score that is no level but hashes like one: hash(-1) == hash(-2), hash(x) == hash(x + 2**61 - 1)
                    lv = rng.choice(numeric)
                    alike = Fraction(-1) if lv == -2 else lv + 2 ** 61 - 1
                    if alike not in numeric:
                        miss = N(alike)
                        tags.append('level_miss_hash_alike')
                items[i] = {'t': [cands[i], miss]}
                tags.append('level_miss')
            else:
                hi = val['range'][1]
                lo = val['range'][0]
                x = bfrac(hi) + 1 if hi is not None else (bfrac(lo) - 1 if lo is not None else Fraction(50))
                items[i] = {'t': [cands[i], N(x, **{fk: True})]}
                if hi is not None or lo is not None:
                    tags.append('score_out_of_range')
        else:
            items[i] = {'t': [{'t': [cands[i]]}, scores[i]]}
            tags.append('nested_candidate')
    return val, vote


def gen_any(rng, tags, hashable=False):
    vt = rng.choice(['simple', 'approval', 'ranked', 'ranked', 'enum', 'range'])
    if vt == 'simple':
        return gen_simple(rng, tags, hashable)
    if vt == 'approval':
        return gen_approval(rng, tags, hashable)
    if vt == 'ranked':
        return gen_ranked(rng, tags, hashable)
    return gen_score(rng, tags, vt, hashable)


def random_val(rng, vt):
    """a configuration chosen independently of any ballot (malformed stream)"""
    def b(integer=True):
        r = rng.random()
        if r < 0.3:
            return [None, None]
        x = rng.randint(0, 4)
        if r < 0.45:
            return [str(x), None]
        if r < 0.6:
            return [None, str(x)]
        if r < 0.75:
            return [str(x), str(x)]
        if r < 0.85:
            return [str(x + 1), str(x)]
        return [str(x), str(x + rng.randint(0, 3))]
    nom = gen_nom(rng)
    if vt == 'simple':
        return {'vt': vt, 'nom': nom}
    if vt == 'approval':
        return {'vt': vt, 'count': b(), 'nom': nom}
    if vt == 'ranked':
        rank = rng.choice([None, {'all': b()}, {'by': [[k, b()] for k in rng.sample(range(0, 5), 2)]}])
        return {'vt': vt, 'total': b(), 'rank': rank, 'nom': nom}
    sm = rng.choice([{'all': [None, None]}, {'all': b()}, {'by': [[k, b()] for k in rng.sample(range(0, 4), 2)]}])
    if vt == 'enum':
        return {'vt': vt, 'n': b(), 'sum': sm, 'nom': nom, 'levels': rng.choice(LEVEL_SETS)}
    return {'vt': vt, 'n': b(), 'sum': sm, 'nom': nom, 'range': b()}


def mk_case(val, vote, tags):
    return {'op': 'validate', 'val': val, 'vote': vote, '_tags': list(tags)}


def with_via(rng, val, tags):
    """sometimes build the validator through the alternative constructor arguments"""
    r = rng.random()
    if val['vt'] != 'simple' and r < 0.2:
        val = dict(val)
        val['via'] = 'checkers'
        tags.append('via_checker_objects')
    elif r < 0.26 and any(val.get(k) is not None and 'by' in val[k] for k in ('rank', 'sum')):
        val = dict(val)
        val['via'] = 'plain_dicts'
        tags.append('via_plain_dicts')
    return val


def with_containers(rng, val, tags):
    """hand the collections over in every container the constructors admit (score levels as list / tuple / set / frozenset /
    dict / dict keys / generator / range / str of one-character grades; bound pairs as lists), and let the caller change its
    own collection after construction"""
    val = dict(val)
    if val['vt'] == 'enum' and rng.random() < 0.75:
        val['levels_as'] = rng.choice(applicable_level_containers(val['levels']))
        if val['levels_as'] in ('str', 'range') or rng.random() < 0.5:
            pass
        kinds = applicable_level_containers(val['levels'])
        if 'str' in kinds and rng.random() < 0.5:
            val['levels_as'] = 'str'
        if 'range' in kinds and rng.random() < 0.4:
            val['levels_as'] = 'range'
    if val['vt'] != 'simple' and rng.random() < 0.25:
        val['bounds_as'] = 'list'
    if val['vt'] != 'simple' and rng.random() < 0.35:
        val['alias'] = True
    return val


def level_score_tags(val, e):
    tags = set()
    if val['vt'] != 'enum':
        return tags
    tags.add('levels_as:' + val.get('levels_as', 'list'))
    if val.get('alias') and val.get('levels_as', 'list') == 'list':
        tags.add('levels_caller_list_changed')
    levels = val['levels']
    if e is None or 'f' not in e:
        return tags
    scores = [it['t'][1] for it in e['f'] if it is not None and 't' in it and len(it['t']) == 2]
    lv = set(ckey(x) for x in levels)
    onechar = bool(levels) and all(is_str(x) and len(sname(x['s'])) == 1 for x in levels)
    joined = ''.join(sname(x['s']) for x in levels) if onechar else None
    for sc in scores:
        if ckey(sc) in lv:
            continue
        if is_str(sc) and sname(sc['s']) == '':
            tags.add('score_empty_string')
            if onechar:
                tags.add('score_empty_string_vs_grades')
        if onechar and is_str(sc) and len(sname(sc['s'])) > 1 and sname(sc['s']) in joined:
            tags.add('score_substring_of_levels')
        if levels and ((is_str(sc) and all(is_num(x) for x in levels)) or (is_num(sc) and all(is_str(x) for x in levels))):
            tags.add('score_other_type_than_levels')
            if onechar:
                tags.add('score_number_vs_grades')
    return tags


def with_maps(rng, val, tags):
    """hand the per-rank / per-count checkers over as an explicit mapping: empty or one-key plain dict, read-only / custom
    Mapping, defaultdict with a bounding factory (empty or with listed keys)"""
    key = 'rank' if val['vt'] == 'ranked' else 'sum' if val['vt'] in ('enum', 'range') else None
    if key is None or val.get('via') == 'plain_dicts':
        return val
    val = dict(val)
    bm = val.get(key)
    junk = rng.random() < 0.4
    if bm is None:
        # the constructor default (1, 1) must not come into force once a mapping is given
        nb = rng.choice([{'by': [], 'form': 'plain'}, {'by': [], 'form': 'custom'},
                         {'by': [], 'default': rng.choice([[None, '2'], ['2', '3'], ['1', '1']]), 'form': 'defaultdict'}])
    elif 'all' in bm:
        nb = {'by': [], 'default': bm['all'], 'form': 'defaultdict'}
    else:
        m = list(bm['by'])
        r = rng.random()
        if r < 0.25:
            m = m[:1]
        elif r < 0.4:
            m = []
        if rng.random() < 0.4:
            sub = []
            nb = {'by': m, 'default': rel_bounds(rng, rng.choice([1, 2, 3]), sub, integer=(key == 'rank')), 'form': 'defaultdict'}
        else:
            nb = {'by': m, 'form': rng.choice(['plain', 'plain', 'proxy', 'custom'])}
    if junk:
        nb['junk'] = True
    val[key] = nb
    tags.append('explicit_checker_mapping')
    return val


def differs_from_default(val, vote):
    """does the explicit mapping judge the ballot differently from the bounds the constructor would default to?"""
    key = 'rank' if val['vt'] == 'ranked' else 'sum'
    bm = val.get(key)
    if not (bm and bm.get('form')):
        return False
    dflt = dict(val)
    dflt[key] = None if key == 'rank' else {'all': [None, None]}
    return bool(rule(val, vote)) != bool(rule(dflt, vote))


def directed(rng):
    """cases that guarantee every required counter for every seed"""
    basic = {'k': 'basic', 'blank': True}
    out = []
    # witnesses of the repaired defects and of the open findings, and the classic boundary cases
    out.append(mk_case({'vt': 'ranked', 'total': [None, None], 'rank': {'all': ['2', '3']}, 'nom': basic}, {'t': [S(0), S(1)]}, ['just_below']))
    out.append(mk_case({'vt': 'range', 'n': [None, None], 'sum': {'all': [None, None]}, 'range': [None, None], 'nom': basic},
                       {'f': [{'t': [S(0), N(1)]}, {'t': [S(0), N(2)]}]}, ['duplicate']))
    out.append(mk_case({'vt': 'enum', 'n': [None, None], 'sum': {'all': ['0', '5']}, 'nom': basic, 'levels': [S(6), S(7)]},
                       {'f': [{'t': [S(0), S(6)]}]}, ['nonnumeric_score']))
    out.append(mk_case({'vt': 'range', 'n': [None, None], 'sum': {'all': [None, None]}, 'range': ['0', '5'], 'nom': basic},
                       {'f': [{'t': [S(0), S(6)]}]}, ['nonnumeric_score']))
    out.append(mk_case({'vt': 'ranked', 'total': [None, None], 'rank': None, 'nom': basic}, {'t': [{'l': [S(0)]}]}, ['nested_candidate']))
    out.append(mk_case({'vt': 'ranked', 'total': [None, None], 'rank': {'all': ['1', '2']}, 'nom': basic},
                       {'t': [{'m': [S(0), S(1)]}, S(2)]}, ['mutable_set_rank']))
    out.append(mk_case({'vt': 'ranked', 'total': ['1', '3'], 'rank': {'all': ['1', '2']}, 'nom': basic},
                       {'t': [S(0), {'f': [S(3), S(0)]}, S(4)]}, ['dup_across_shared_rank', 'duplicate', 'shared_rank']))
    out.append(mk_case({'vt': 'ranked', 'total': ['4', '3'], 'rank': {'by': [[1, ['1', '1']], [2, ['2', '2']]]}, 'nom': basic},
                       {'t': [S(0), {'f': [S(1), S(2)]}, S(3)]}, ['crossing_bounds', 'rank_dict', 'shared_rank']))
    out.append(mk_case({'vt': 'approval', 'count': ['2', '2'], 'nom': {'k': 'party', 'coal': False, 'blank': True}},
                       {'f': [Cd('party', 0), Cd('coalition', 0)]}, ['coalition', 'not_admitted', 'equal_bounds']))
    out.append(mk_case({'vt': 'approval', 'count': ['1', '2'], 'nom': {'k': 'person', 'indep': False, 'blank': False}},
                       {'f': [Cd('person_party', 0), Cd('blank', 1)]}, ['blank', 'not_admitted']))
    out.append(mk_case({'vt': 'enum', 'n': ['1', '3'], 'sum': {'by': [[2, ['3', '3']]]}, 'nom': basic, 'levels': [N(0), N(1), N(2)]},
                       {'f': [{'t': [S(0), N(1)]}, {'t': [S(1), N(2)]}]}, ['sum_dict', 'sum_boundary', 'lower_bound_hit', 'upper_bound_hit']))
    out.append(mk_case({'vt': 'enum', 'n': [None, None], 'sum': {'all': [None, None]}, 'nom': basic, 'levels': [N(0), N(1)]},
                       {'f': [{'t': [S(0), N(2)]}]}, ['level_miss']))
    out.append(mk_case({'vt': 'range', 'n': [None, None], 'sum': {'all': [None, '4']}, 'range': ['0', '3'], 'nom': basic},
                       {'f': [{'t': [S(0), N(3)]}, {'t': [S(1), N(Fraction(3, 2), F=True)]}]}, ['sum_boundary', 'just_above']))
    out.append(mk_case({'vt': 'range', 'n': [None, None], 'sum': {'all': [None, None]}, 'range': ['0', '3'], 'nom': basic},
                       {'f': [{'t': [S(0), N(4)]}]}, ['score_out_of_range']))
    out.append(mk_case({'vt': 'approval', 'count': [None, None], 'nom': basic}, {'m': [S(0)]}, ['wrong_container']))
    out.append(mk_case({'vt': 'approval', 'count': ['0', '0'], 'nom': basic}, {'f': []}, ['empty_ballot', 'equal_bounds', 'lower_bound_hit', 'upper_bound_hit']))
    out.append(mk_case({'vt': 'simple', 'nom': {'k': 'basic', 'blank': False}}, Cd('blank', 0), ['blank', 'not_admitted']))
    out.append(mk_case({'vt': 'approval', 'count': ['1', '2'], 'nom': basic, 'via': 'checkers'}, {'f': [S(0), S(1)]},
                       ['via_checker_objects', 'upper_bound_hit']))
    out.append(mk_case({'vt': 'ranked', 'total': [None, None], 'rank': {'by': [[1, ['1', '1']]]}, 'nom': basic, 'via': 'plain_dicts'},
                       {'t': [S(0), S(1)]}, ['via_plain_dicts', 'rank_dict']))
    # exact score sums on an inclusive bound: Decimal / Fraction / big int / huge int scores
    tenth, fifth = Fraction(1, 10), Fraction(1, 5)
    out.append(mk_case({'vt': 'range', 'n': [None, None], 'sum': {'all': [None, 'D:3/10']}, 'range': ['0', '1'], 'nom': basic},
                       {'f': [{'t': [S(0), N(tenth, D=True)]}, {'t': [S(1), N(fifth, D=True)]}]},
                       ['exact_sum', 'score_decimal_on_sum_bound', 'sum_boundary']))
    out.append(mk_case({'vt': 'enum', 'n': [None, None], 'sum': {'all': ['3/10', '3/10']}, 'nom': basic,
                        'levels': [N(tenth), N(fifth)]},
                       {'f': [{'t': [S(0), N(tenth, F=True)]}, {'t': [S(4), N(fifth, F=True)]}]},
                       ['exact_sum', 'score_fraction_on_sum_bound', 'sum_boundary']))
    out.append(mk_case({'vt': 'range', 'n': [None, None], 'sum': {'by': [[3, ['D:3/5', None]]]}, 'range': [None, None], 'nom': basic},
                       {'f': [{'t': [S(0), N(tenth, D=True)]}, {'t': [S(1), N(fifth, D=True)]}, {'t': [S(2), N(Fraction(3, 10), D=True)]}]},
                       ['exact_sum', 'score_decimal_on_sum_bound', 'sum_dict', 'sum_boundary']))
    out.append(mk_case({'vt': 'range', 'n': [None, None], 'sum': {'all': [None, str(2 ** 53)]}, 'range': [None, None], 'nom': basic},
                       {'f': [{'t': [S(0), N(2 ** 53)]}, {'t': [S(1), N(1)]}]},
                       ['exact_sum', 'score_bigint_sum_bound', 'score_sum_one_off']))
    out.append(mk_case({'vt': 'range', 'n': [None, None], 'sum': {'all': [None, '10']}, 'range': [None, None], 'nom': basic},
                       {'f': [{'t': [S(0), N(10 ** 400)]}]}, ['exact_sum', 'score_huge_int']))
    out.append({'op': 'eliminate',
                'val': {'vt': 'range', 'n': [None, None], 'sum': {'all': [None, 'D:3/10']}, 'range': [None, None], 'nom': basic},
                'votes': [[{'f': [{'t': [S(0), N(tenth, D=True)]}, {'t': [S(1), N(fifth, D=True)]}]}, '3'],
                          [{'f': [{'t': [S(0), N(fifth, D=True)]}, {'t': [S(1), N(fifth, D=True)]}]}, '2']],
                '_tags': ['elim_exact_sum', 'exact_sum', 'score_decimal_on_sum_bound']})
    out.append(mk_case({'vt': 'ranked', 'total': [None, None], 'rank': None, 'nom': basic}, {'t': [S(4), S(0)]}, ['empty_name_candidate']))
    # explicit checker mappings: empty plain dict, empty defaultdict with a bounding factory, one key, non-dict Mappings
    AB_C = {'t': [{'f': [S(0), S(1)]}, S(2)]}
    def rk(bm):
        return {'vt': 'ranked', 'total': [None, None], 'rank': bm, 'nom': basic}
    for bm in ({'by': [], 'form': 'plain'}, {'by': [], 'form': 'plain', 'junk': True}, {'by': [], 'form': 'proxy'}, {'by': [], 'form': 'custom'},
               {'by': [], 'default': [None, '2'], 'form': 'defaultdict'}, {'by': [], 'default': ['2', '3'], 'form': 'defaultdict'},
               {'by': [[1, ['2', '2']]], 'form': 'plain'}, {'by': [[2, ['2', '2']]], 'form': 'custom'},
               {'by': [[1, ['2', '2']]], 'default': ['1', '1'], 'form': 'defaultdict'},
               {'by': [[2, [None, '0']]], 'default': [None, '2'], 'form': 'defaultdict', 'junk': True}):
        for vote in (AB_C, {'t': [S(0)]}, {'t': [S(0), {'f': [S(1), S(2)]}]}, {'t': [{'f': [S(0), S(1), S(2)]}]}):
            out.append(mk_case(rk(bm), vote, ['explicit_checker_mapping']))
    out.append({'op': 'eliminate', 'val': rk({'by': [], 'default': ['2', '3'], 'form': 'defaultdict'}),
                'votes': [[{'t': [S(0)]}, '3'], [AB_C, '2'], [{'t': [{'f': [S(0), S(1)]}]}, '5']], '_tags': ['explicit_checker_mapping']})
    out.append({'op': 'eliminate', 'val': rk({'by': [], 'form': 'plain'}),
                'votes': [[{'t': [S(0)]}, '3'], [AB_C, '2'], [{'t': [S(0), S(0)]}, '5']], '_tags': ['explicit_checker_mapping']})
    two = {'f': [{'t': [S(0), N(2)]}, {'t': [S(1), N(3)]}]}
    one = {'f': [{'t': [S(0), N(2)]}]}
    for bm in ({'by': [], 'form': 'plain'}, {'by': [], 'form': 'plain', 'junk': True}, {'by': [], 'default': [None, '4'], 'form': 'defaultdict'},
               {'by': [], 'default': ['3', None], 'form': 'defaultdict'}, {'by': [[2, [None, '4']]], 'form': 'proxy'},
               {'by': [[1, ['3', '3']]], 'default': ['5', '5'], 'form': 'defaultdict'}, {'by': [[2, ['5', '5']]], 'form': 'custom'}):
        for vote in (two, one):
            out.append(mk_case({'vt': 'range', 'n': [None, None], 'sum': bm, 'range': [None, None], 'nom': basic}, vote, ['explicit_checker_mapping']))
            out.append(mk_case({'vt': 'enum', 'n': [None, None], 'sum': bm, 'levels': [N(2), N(3)], 'nom': basic}, vote, ['explicit_checker_mapping']))
    # checklist dimensions: bound types, nominator options, object variants, unhashable positions, ballot shapes
    for nomd in NOMS:
        for flip in (False, True):
            nd = dict(nomd, flip=True) if flip else dict(nomd)
            out.append(mk_case({'vt': 'approval', 'count': [None, None], 'nom': nd},
                               {'f': [Cd('party', 0), Cd('coalition', 1), Cd('blank', 0), Cd('person_indep', 0), Cd('person_party', 1)][:rng.randint(1, 5)]},
                               ['nominator_matrix']))
            for c in (Cd('coalition', 0), Cd('blank', 1), Cd('person_indep', 2), Cd('party', 2), Cd('person_party', 3), S(4)):
                out.append(mk_case({'vt': 'simple', 'nom': nd}, c, ['nominator_matrix']))
    out.append(mk_case({'vt': 'simple', 'nom': {'k': 'basic', 'blank': True, 'default': True}}, Cd('blank', 2), ['default_nominator']))
    out.append(mk_case({'vt': 'approval', 'count': ['b:1', 'f:2'], 'nom': basic}, {'f': [S(0), S(1)]}, ['bound_types']))
    out.append(mk_case({'vt': 'approval', 'count': ['b:0', 'D:0'], 'nom': basic}, {'f': []}, ['bound_types']))
    out.append(mk_case({'vt': 'approval', 'count': ['-3', 'F:-1'], 'nom': basic}, {'f': []}, ['bound_types']))
    out.append(mk_case({'vt': 'approval', 'count': ['f:' + num_str(Fraction(1.4)), 'f:' + num_str(Fraction(2.4))], 'nom': basic},
                       {'f': [S(0), S(1)]}, ['bound_types']))
    out.append(mk_case({'vt': 'ranked', 'total': ['D:2', 'F:3'], 'rank': {'by': [[0, ['9', '9']], [1, ['b:1', 'f:1']], [7, ['5', '5']]]}, 'nom': basic},
                       {'t': [S(0), {'f': [S(1), S(2), S(3)]}]}, ['bound_types', 'rank_dict']))
    out.append(mk_case({'vt': 'range', 'n': [None, None], 'sum': {'by': [[0, ['1', '1']], [2, ['f:' + num_str(Fraction(0.75)), 'f:' + num_str(Fraction(2.4))]], [9, [None, '0']]]},
                        'range': ['f:' + num_str(Fraction(-0.5)), 'D:3/2'], 'nom': basic},
                       {'f': [{'t': [S(0), N(Fraction(1, 4), f=True)]}, {'t': [S(1), N(Fraction(1, 2), f=True)]}]}, ['bound_types', 'sum_dict']))
    out.append(mk_case({'vt': 'enum', 'n': ['b:1', None], 'sum': {'all': [None, None]}, 'nom': basic, 'levels': [N(0), N(1)]},
                       {'f': [{'t': [S(0), N(1, b=True)]}, {'t': [S(1), N(0, F=True)]}, {'t': [S(2), N(0, D=True)]}]}, ['bound_types']))
    # the same object twice vs two equal-looking objects; objects with an empty name; one-member / nested coalitions
    out.append(mk_case({'vt': 'ranked', 'total': [None, None], 'rank': None, 'nom': basic},
                       {'t': [Cd('person_party', 0), Cd('person_party', 3), Cd('party', 0), Cd('party', 3)]}, ['equal_looking_objects']))
    out.append(mk_case({'vt': 'ranked', 'total': [None, None], 'rank': None, 'nom': basic},
                       {'t': [Cd('person_party', 0), Cd('party', 0), Cd('person_party', 0)]}, ['same_object_twice', 'duplicate']))
    out.append(mk_case({'vt': 'approval', 'count': ['5', '5'], 'nom': {'k': 'party', 'coal': True, 'blank': True}},
                       {'f': [Cd('party', 2), Cd('coalition', 1), Cd('coalition', 2), Cd('coalition', 4), Cd('blank', 2)]}, ['object_variants']))
    out.append(mk_case({'vt': 'approval', 'count': [None, None], 'nom': {'k': 'person', 'indep': False, 'blank': True}},
                       {'f': [Cd('person_party', 1), Cd('person_party', 2), Cd('person_indep', 1)]}, ['object_variants']))
    out.append(mk_case({'vt': 'ranked', 'total': [None, None], 'rank': None, 'nom': basic},
                       {'t': [S(5), Cd('person_party', 0), Cd('party', 1)]}, ['name_clash']))
    # unhashable values at every position a validator can meet them
    for vtv in ({'vt': 'simple', 'nom': basic}, {'vt': 'approval', 'count': [None, None], 'nom': basic},
                {'vt': 'ranked', 'total': [None, None], 'rank': None, 'nom': basic},
                {'vt': 'enum', 'n': [None, None], 'sum': {'all': [None, None]}, 'nom': basic, 'levels': [N(1)]},
                {'vt': 'range', 'n': [None, None], 'sum': {'all': ['0', '9']}, 'range': ['0', '9'], 'nom': basic}):
        for bad in ({'l': [S(0)]}, {'m': [S(0), S(1)]}, {'d': [[S(0)], [N(1)]]}, {'t': [{'l': [S(0)]}]}, {'l': [{'t': [S(0), N(1)]}]},
                    {'m': [{'t': [S(0), N(1)]}]}, {'t': [S(0), {'m': [S(1)]}, {'d': [[S(2)], [N(1)]]}]},
                    {'t': [{'t': [S(0), {'l': []}]}, S(1)]}):
            out.append(mk_case(vtv, bad, ['unhashable_positions']))
    # ranked shapes
    out.append(mk_case({'vt': 'ranked', 'total': ['5', '5'], 'rank': {'all': [None, '4']}, 'nom': basic},
                       {'t': [{'f': [S(0), S(1), S(2), S(3)]}, S(5)]}, ['shared_rank']))
    out.append(mk_case({'vt': 'ranked', 'total': [None, None], 'rank': {'all': ['0', '2']}, 'nom': basic},
                       {'t': [S(0), {'f': []}, S(1)]}, ['empty_shared_rank']))
    for wrong in ({'l': [S(1), S(2)]}, {'m': [S(1), S(2)]}, {'t': [S(1), S(2)]}, {'d': [[S(1)], [S(2)]]}):
        out.append(mk_case({'vt': 'ranked', 'total': [None, None], 'rank': {'all': ['1', '2']}, 'nom': basic},
                           {'t': [S(0), wrong]}, ['rank_wrong_container']))
    # score ballots naming a candidate twice: identical pair, equal score of another type, different score
    rv = {'vt': 'range', 'n': ['1', '1'], 'sum': {'all': [None, None]}, 'range': [None, None], 'nom': basic}
    out.append(mk_case(rv, {'f': [{'t': [S(0), N(1)]}, {'t': [S(0), N(1)]}]}, ['score_dup']))
    out.append(mk_case(rv, {'f': [{'t': [S(0), N(1)]}, {'t': [S(0), N(1, F=True)]}]}, ['score_dup']))
    out.append(mk_case(rv, {'f': [{'t': [S(0), N(1)]}, {'t': [S(0), N(2)]}]}, ['score_dup', 'duplicate']))
    out.append(mk_case({'vt': 'enum', 'n': [None, None], 'sum': {'all': [None, None]}, 'nom': basic, 'levels': [N(-2), N(5)]},
                       {'f': [{'t': [S(0), N(-1)]}]}, ['level_miss', 'level_miss_hash_alike']))
    out.append(mk_case({'vt': 'enum', 'n': [None, None], 'sum': {'all': [None, None]}, 'nom': basic, 'levels': [N(-2), N(5)]},
                       {'f': [{'t': [S(0), N(5 + 2 ** 61 - 1)]}, {'t': [S(1), N(-2)]}]}, ['level_miss', 'level_miss_hash_alike']))
    out.append(mk_case(dict(rv, n=[None, None]), {'f': [{'t': [S(0), N(-1)]}, {'t': [S(1), N(-2)]}, {'t': [S(2), N(5)]}, {'t': [S(3), N(5 + 2 ** 61 - 1)]}]},
                       ['hash_alike_scores']))
    # one validator object, several ballots: larger then smaller, after a rejection, after a differently configured one
    out.append({'op': 'validate_seq', 'val': {'vt': 'ranked', 'total': [None, None], 'rank': {'by': [[2, ['2', '2']]]}, 'nom': basic},
                'votes': [{'t': [S(0), {'f': [S(1), S(2)]}, S(3), S(4)]}, {'t': [S(0), S(1)]}, {'l': [S(0)]}, {'t': [S(0)]},
                          {'t': [S(0), {'f': [S(1), S(2)]}, S(3), S(4)]}],
                'first': {'vt': 'ranked', 'total': ['9', '9'], 'rank': {'all': ['3', '3']}, 'nom': {'k': 'party', 'coal': False, 'blank': False}},
                '_tags': ['other_validator_first']})
    out.append({'op': 'validate_seq', 'val': {'vt': 'range', 'n': [None, None], 'sum': {'by': [[1, ['2', '2']]]}, 'range': ['0', '5'], 'nom': basic,
                                              'via': 'plain_dicts'},
                'votes': [{'f': [{'t': [S(0), N(2)]}]}, {'f': [{'t': [S(0), N(2)]}, {'t': [S(1), N(5)]}]}, {'f': [{'t': [S(0), S(6)]}]},
                          {'f': [{'t': [S(0), N(3)]}]}, {'f': [{'t': [S(0), N(2)]}]}], '_tags': []})
    # score levels in every container; grades given as one string; scores that are substrings / of another type / empty
    grades = [S(0), S(1), S(2), S(3)]
    for kind in ('list', 'tuple', 'set', 'frozenset', 'dict_keys', 'dict', 'generator', 'str'):
        for sc in (S(0), S(12), S(13), S(14), S(15), S(4), S(17), N(1), None):
            out.append(mk_case({'vt': 'enum', 'n': [None, None], 'sum': {'all': [None, None]}, 'nom': basic, 'levels': grades, 'levels_as': kind,
                                'alias': kind == 'list'}, {'f': [{'t': [S(5), sc]}]}, ['level_containers']))
    for kind in ('list', 'range', 'tuple', 'generator'):
        for sc in (N(0), N(2), N(3), N(-1), S(0), S(4), N(1, F=True)):
            out.append(mk_case({'vt': 'enum', 'n': [None, None], 'sum': {'all': [None, '5']}, 'nom': basic, 'levels': [N(0), N(1), N(2)],
                                'levels_as': kind, 'alias': True, 'bounds_as': 'list'}, {'f': [{'t': [S(0), sc]}, {'t': [S(1), N(1)]}]},
                               ['level_containers']))
    out.append(mk_case({'vt': 'ranked', 'total': ['1', '3'], 'rank': {'by': [[1, ['1', '1']], [2, ['2', '2']]]}, 'nom': basic, 'alias': True,
                        'bounds_as': 'list'}, {'t': [S(0), {'f': [S(1), S(2)]}]}, ['caller_dict_changed']))
    out.append(mk_case({'vt': 'range', 'n': ['1', '2'], 'sum': {'by': [[2, ['3', '3']]], 'form': 'plain'}, 'range': ['0', '2'], 'nom': basic,
                        'alias': True, 'bounds_as': 'list'}, {'f': [{'t': [S(0), N(1)]}, {'t': [S(1), N(2)]}]}, ['caller_dict_changed']))
    # several distinct candidates named twice, as objects / across shared ranks / strings mixed with an object
    pn = {'k': 'person', 'indep': True, 'blank': True}
    p0, p1, p2, p3 = (Cd('person_party', i) for i in (0, 1, 2, 4))
    party = Cd('party', 0)
    m1 = ({'vt': 'ranked', 'total': [None, None], 'rank': None, 'nom': pn}, {'t': [p0, p1, p2, p1, p0]})
    m2 = ({'vt': 'ranked', 'total': [None, None], 'rank': {'all': ['1', '3']}, 'nom': pn}, {'t': [{'f': [p0, p1, p2]}, p3, {'f': [p1, p0]}]})
    m3 = ({'vt': 'ranked', 'total': [None, None], 'rank': None, 'nom': basic}, {'t': [S(0), party, S(1), party, S(0)]})
    for v_, b_ in (m1, m2, m3):
        out.append(mk_case(v_, b_, ['multi_defect']))
        goodb = {'t': [x for x in b_['t'][:3]]}
        out.append({'op': 'eliminate', 'val': v_, 'votes': [[goodb, '7'], [b_, '3'], [{'t': goodb['t'][:2]}, '2']],
                    '_tags': ['op:eliminate', 'elim_multi_defect', 'multi_defect']})
    # one eliminator object, four profiles in a row (clean, with rejected ballots, rejected ballots absent, present again)
    av = {'vt': 'approval', 'count': ['1', '2'], 'nom': basic}
    A, AB, ABC, E = {'f': [S(0)]}, {'f': [S(0), S(1)]}, {'f': [S(0), S(1), S(2)]}, {'f': []}
    out.append({'op': 'eliminate_seq', 'val': av,
                'steps': [{'votes': [[A, '3'], [AB, '2']]}, {'votes': [[A, '1'], [ABC, '4'], [E, '2']]}, {'votes': [[AB, '5'], [A, '1']]},
                          {'votes': [[ABC, '1'], [AB, '7']]}], '_tags': []})
    pv = {'vt': 'simple', 'nom': {'k': 'basic', 'blank': False}}
    out.append({'op': 'eliminate_seq', 'val': pv,
                'steps': [{'votes': [[S(0), '3']]}, {'votes': [[Cd('blank', 0), '2'], [S(0), '1']]},
                          {'votes': [[Cd('blank', 0), '4'], [S(1), '1']], 'nom': {'k': 'basic', 'blank': True}},
                          {'votes': [[S(1), '1']], 'nom': {'k': 'basic', 'blank': False}}], '_tags': []})
    # the filter on a dictionary mixing every kind of ballot, with counts of every type
    out.append({'op': 'eliminate', 'val': {'vt': 'approval', 'count': ['1', '2'], 'nom': basic},
                'votes': [[S(0), '1'], [{'f': [S(0)]}, 'D:5/2'], [{'t': [S(0), S(1)]}, '0'], [{'f': [{'t': [S(0), N(1)]}]}, str(10 ** 400)],
                          [{'f': [S(0), S(1), S(2)]}, 'F:4'], [{'f': [Cd('person_party', 0), Cd('person_party', 3)]}, str(2 ** 53 + 1)],
                          [None, '3'], [N(1), '-1'], [{'t': []}, 'b:1']],
                '_tags': ['elim_mixed_kinds']})
    # eliminator: all kept / some removed / escaping errors
    val = {'vt': 'ranked', 'total': ['1', '3'], 'rank': None, 'nom': basic}
    out.append({'op': 'eliminate', 'val': val, 'votes': [[{'t': [S(0)]}, '3'], [{'t': [S(0), S(1)]}, '5/2']], '_tags': ['elim_all_kept']})
    out.append({'op': 'eliminate', 'val': val, 'votes': [[{'t': []}, '3'], [{'t': [S(0), S(1)]}, '4'], [{'t': [S(0), S(0)]}, '1'], [S(0), '7']],
                '_tags': ['elim_some_removed']})
    out.append({'op': 'eliminate', 'val': {'vt': 'simple', 'nom': {'k': 'person', 'indep': True, 'blank': True}},
                'votes': [[Cd('person_indep', 0), '2'], [S(0), '1']], '_tags': ['elim_candidate_error']})
    return out


def _gen_vt(rng, tags, vt, hashable, nom=None):
    if vt == 'simple':
        return gen_simple(rng, tags, hashable, nom)
    if vt == 'approval':
        return gen_approval(rng, tags, hashable, nom)
    if vt == 'ranked':
        return gen_ranked(rng, tags, hashable, nom)
    return gen_score(rng, tags, vt, hashable, nom)


def _loosen(rng, val):
    """drop some of the bounds of a configuration (so that several independently drawn ballots can be valid)"""
    val = dict(val)
    for key in ('count', 'total', 'n', 'range'):
        if key in val and rng.random() < 0.7:
            val[key] = [None, None]
    for key in ('rank', 'sum'):
        if key in val and rng.random() < 0.7:
            val[key] = {'all': [None, '3']} if key == 'rank' else {'all': [None, None]}
    return val


def gen_eliminate(rng, tags):
    vt = rng.choice(['simple', 'approval', 'ranked', 'ranked', 'enum', 'range'])
    # one configuration; the ballots are drawn for the same vote type and (mostly) the same nominator
    val, _ = _gen_vt(rng, [], vt, True)
    if rng.random() < 0.6:
        val = _loosen(rng, val)
    val = with_containers(rng, val, [])
    votes = []
    for _ in range(rng.randint(1, 7)):
        nom = val['nom'] if rng.random() < 0.9 else None
        v2, vote = _gen_vt(rng, [], vt, True, nom)
        if vt == 'enum' and rng.random() < 0.8:
            # re-draw the scores from the shared levels
            if vote is not None and 'f' in vote and val['levels']:
                vote = {'f': [{'t': [it['t'][0], rng.choice(val['levels'])]} if (it is not None and 't' in it and len(it['t']) == 2) else it
                              for it in vote['f']]}
        if not hashable_enc(vote):
            continue
        votes.append([vote, rng.choice(COUNTS)])
    if rng.random() < 0.3:
        # ballots of the other vote types in the same dictionary (all of them hashable values)
        tags = tags + ['elim_mixed_kinds']
        for vt2 in rng.sample(['simple', 'approval', 'ranked', 'enum', 'range'], 3):
            _, vote = _gen_vt(rng, [], vt2, True, val['nom'])
            if hashable_enc(vote):
                votes.insert(rng.randint(0, len(votes)), [vote, rng.choice(COUNTS)])
    if not votes:
        votes = [[S(0), '1']]
    return {'op': 'eliminate', 'val': val, 'votes': votes, '_tags': ['op:eliminate'] + tags}


# vote counts of every exact type and magnitude (the filter must hand them on untouched)
COUNTS = ['1', '2', '3', '5', '10', '7/2', str(10 ** 20), '0', 'F:0', 'D:0', 'D:5/2', 'D:1234567/10000000', 'F:4',
          str(2 ** 53 + 1), str(10 ** 400), '-1', 'b:1']


def gen_seq(rng):
    """one validator object validating a sequence of ballots (its checker stores are defaultdicts that grow),
    optionally after a differently configured validator of the same class was used"""
    vt = rng.choice(['approval', 'ranked', 'ranked', 'enum', 'range', 'simple'])
    tags = []
    val, first = _gen_vt(rng, tags, vt, False)
    if rng.random() < 0.5:
        val = _loosen(rng, val)
    votes = [first]
    for _ in range(rng.randint(2, 7)):
        r = rng.random()
        if r < 0.6:
            _, v = _gen_vt(rng, [], vt, False, val['nom'])
        elif r < 0.75:
            v = rng.choice(votes)                      # the same ballot again
        elif r < 0.9:
            v = gen_obj(rng)
        else:
            _, v = _gen_vt(rng, [], rng.choice(['approval', 'ranked', 'range']), False, val['nom'])
        votes.append(v)
    if vt == 'enum':
        votes = [({'f': [{'t': [it['t'][0], rng.choice(val['levels'])]} if (it is not None and 't' in it and len(it['t']) == 2
                                                                             and rng.random() < 0.8) else it for it in v['f']]}
                  if (v is not None and 'f' in v and val['levels']) else v) for v in votes]
    case = {'op': 'validate_seq', 'val': with_containers(rng, with_via(rng, val, tags), tags), 'votes': votes, '_tags': tags}
    if rng.random() < 0.4:
        other, _ = _gen_vt(rng, [], vt, False)
        case['first'] = other
        case['_tags'].append('other_validator_first')
    return case


def other_flags(rng, nom):
    """the same nominator kind with other flags"""
    opts = [n for n in NOMS if n['k'] == nom['k'] and not same_nom(n, nom)]
    return dict(rng.choice(opts))


def gen_elim_seq(rng):
    """ONE InvalidVoteEliminator (around one validator object) called on several profiles in a row: a clean profile first, then one
    with rejected ballots, then profiles in which an earlier rejected ballot is absent / present again, optionally with the
    nominator flags of the live validator changed in between (so that a ballot rejected earlier is valid later)"""
    vt = rng.choice(['simple', 'approval', 'approval', 'ranked', 'ranked', 'enum', 'range'])
    val, _ = _gen_vt(rng, [], vt, True)
    val['nom'] = {k: v for k, v in val['nom'].items() if k not in ('default', 'flip')}
    if rng.random() < 0.7:
        val = _loosen(rng, val)
    ballots = []
    for _ in range(12):
        _, v = _gen_vt(rng, [], vt, True, val['nom'])
        if vt == 'enum' and v is not None and 'f' in v and val['levels']:
            v = {'f': [{'t': [it['t'][0], rng.choice(val['levels'])]} if (it is not None and 't' in it and len(it['t']) == 2 and rng.random() < 0.8)
                       else it for it in v['f']]}
        if hashable_enc(v) and ckey(v) not in [ckey(b) for b in ballots]:
            ballots.append(v)
    good = [b for b in ballots if not rule(val, b)]
    bad = [b for b in ballots if rule(val, b)]
    if not bad:
        bad = [N(1), None]
    if not good:
        good = ballots[:1] or [S(0)]

    def prof(bs):
        bs = list(bs)
        rng.shuffle(bs)
        return {'votes': [[b, rng.choice(COUNTS)] for b in bs]}
    steps = []
    if rng.random() < 0.7:
        steps.append(prof(rng.sample(good, min(len(good), rng.randint(1, 3)))))                       # nothing to remove
    steps.append(prof(rng.sample(good, min(len(good), rng.randint(0, 2))) + rng.sample(bad, min(len(bad), rng.randint(1, 2)))))
    for _ in range(rng.randint(1, 3)):
        r = rng.random()
        if r < 0.4:
            steps.append(prof(rng.sample(good, min(len(good), rng.randint(1, 3)))))                   # the rejected ballots are absent
        elif r < 0.7:
            steps.append(prof(rng.sample(good, min(len(good), rng.randint(0, 2))) + rng.sample(bad, 1)))   # a rejected ballot again
        else:
            steps.append(prof(rng.sample(ballots, min(len(ballots), rng.randint(1, 4))) if ballots else good))
    if rng.random() < 0.4 and len(steps) >= 2:
        # the live validator's nominator gets other flags before one of the later calls
        i = rng.randrange(1, len(steps))
        steps[i]['nom'] = other_flags(rng, val['nom'])
        if i + 1 < len(steps) and rng.random() < 0.5:
            steps[i + 1]['nom'] = dict(val['nom'])
    return {'op': 'eliminate_seq', 'val': val, 'steps': steps, '_tags': []}


# a small fixed set of configurations whose validator / eliminator objects live for the whole run (`_shared`)
def shared_vals():
    basic = {'k': 'basic', 'blank': True}
    return [
        {'vt': 'simple', 'nom': {'k': 'person', 'indep': False, 'blank': True}},
        {'vt': 'approval', 'count': ['1', '2'], 'nom': basic},
        {'vt': 'approval', 'count': [None, '3'], 'nom': {'k': 'party', 'coal': False, 'blank': False}},
        {'vt': 'ranked', 'total': ['1', '4'], 'rank': None, 'nom': basic},
        {'vt': 'ranked', 'total': [None, None], 'rank': {'by': [[1, ['1', '2']], [3, [None, '1']]]}, 'nom': basic},
        {'vt': 'ranked', 'total': [None, None], 'rank': {'by': [], 'default': [None, '2'], 'form': 'defaultdict'}, 'nom': basic},
        {'vt': 'enum', 'n': ['1', '3'], 'sum': {'by': [[2, [None, '4']]]}, 'nom': basic, 'levels': [N(0), N(1), N(2), N(3)]},
        {'vt': 'enum', 'n': [None, None], 'sum': {'all': [None, None]}, 'nom': basic, 'levels': [S(8), S(9)]},
        {'vt': 'range', 'n': [None, '3'], 'sum': {'all': ['0', '6']}, 'range': ['0', '5'], 'nom': basic},
        {'vt': 'range', 'n': [None, None], 'sum': {'by': [[1, ['2', '2']]], 'form': 'plain'}, 'range': [None, None], 'nom': basic},
    ]


def gen_shared(rng):
    """a ballot or a profile for one of the long-lived configurations; half of these calls go through the long-lived objects"""
    val = rng.choice(shared_vals())
    vt = val['vt']
    shared = rng.random() < 0.5
    if rng.random() < 0.5:
        _, vote = _gen_vt(rng, [], vt, False, val['nom'])
        c = mk_case(val, vote, [])
    else:
        votes = []
        for _ in range(rng.randint(1, 5)):
            _, v = _gen_vt(rng, [], vt, True, val['nom'])
            if hashable_enc(v):
                votes.append([v, rng.choice(COUNTS)])
        c = {'op': 'eliminate', 'val': val, 'votes': votes or [[S(0), '1']], '_tags': ['op:eliminate']}
    if shared:
        c['_shared'] = True
    return c


def multi_tags(val, e):
    """ballots that are invalid for SEVERAL reasons of the same kind at once (the rejection path then has to describe more than
    one offender: error-message construction is part of it)"""
    tags = set()
    vt, nom = val['vt'], val['nom']
    named = []
    if vt == 'approval' and e is not None and 'f' in e:
        named = members(e['f'])
    elif vt == 'ranked' and e is not None and 't' in e:
        over = 0
        rank_bm = val.get('rank') or {'all': ['1', '1']}
        for i, r in enumerate(e['t']):
            here = members(r['f']) if (r is not None and 'f' in r) else [r]
            named += here
            if not within(bm_get(rank_bm, i + 1), len(here)):
                over += 1
        if over >= 2:
            tags.add('multi_ranks_out_of_bounds')
    elif vt in ('enum', 'range') and e is not None and 'f' in e:
        items = members(e['f'])
        pairs = [it['t'] for it in items if it is not None and 't' in it and len(it['t']) == 2]
        if len(items) - len(pairs) >= 2:
            tags.add('multi_malformed_score_items')
        named = [p[0] for p in pairs]
        scores = [p[1] for p in pairs]
        if vt == 'enum':
            lv = set(ckey(x) for x in val['levels'])
            badsc = [x for x in scores if ckey(x) not in lv]
        else:
            badsc = [x for x in scores if active(val['range']) and not (is_num(x) and within(val['range'], Fraction(x['n'])))]
        if len(badsc) >= 2:
            tags.add('multi_bad_scores')
            if any(not is_num(x) for x in badsc):
                tags.add('multi_bad_scores_nonnumeric')
    cnt = {}
    for c in named:
        cnt.setdefault(ckey(c), [0, c])[0] += 1
    dups = [c for n, c in cnt.values() if n > 1]
    if len(dups) >= 2:
        tags.add('multi_duplicated:' + vt)
        if all(is_cand_obj(c) for c in dups):
            tags.add('multi_duplicated_objects')
        if any(is_cand_obj(c) for c in dups) and any(is_str(c) for c in dups):
            tags.add('multi_duplicated_str_and_object')
        if len(set(c['c'] for c in dups if is_cand_obj(c))) >= 2:
            tags.add('multi_duplicated_object_kinds')
    bad = [c for n, c in cnt.values() if not admits(nom, c)]
    if len(bad) >= 2:
        tags.add('multi_not_admitted:' + vt)
        if sum(1 for c in bad if is_cand_obj(c)) >= 2:
            tags.add('multi_not_admitted_objects')
    return tags


def gen_multi(rng, eliminate=False):
    """a ballot with two or three simultaneous defects of one kind, mostly on candidate OBJECTS (Person, PoliticalParty, Coalition,
    blank votes) and on mixtures of objects and strings"""
    vt = rng.choice(['ranked', 'ranked', 'ranked', 'approval', 'enum', 'range'])
    nom = dict(rng.choice(NOMS))
    good = [c for c in admitted(nom) if rng.random() < 0.8 or is_cand_obj(c)]
    objs = [c for c in good if is_cand_obj(c)]
    strs = [c for c in good if is_str(c)]
    rng.shuffle(objs)
    rng.shuffle(strs)
    mix = rng.choice(['objects', 'objects', 'mixed', 'strings'])
    pool = (objs if mix == 'objects' else objs[:3] + strs[:3] if mix == 'mixed' else strs) or good
    pool = pool[:7]
    if len(pool) < 3:
        pool = (pool + good)[:5]
    rng.shuffle(pool)
    k = rng.choice([2, 2, 3])
    kind = rng.choice(['dup', 'dup', 'dup', 'not_admitted', 'bounds', 'scores', 'shape'])
    tags = ['multi_defect']
    bads = not_admitted(nom)
    badobjs = [c for c in bads if is_cand_obj(c)] or bads
    if vt == 'approval':
        xs = list(pool)
        if kind in ('not_admitted', 'dup', 'shape'):
            xs += rng.sample(badobjs, min(k, len(badobjs)))
        val = {'vt': vt, 'count': [None, None] if kind != 'bounds' else [str(len(xs) + 1), str(len(xs) + 2)], 'nom': nom}
        vote = {'f': xs}
    elif vt == 'ranked':
        ranks = list(pool)
        rank = {'all': ['1', '3']}
        if kind == 'dup':
            twice = rng.sample(pool, min(k, len(pool)))
            style = rng.choice(['bare', 'bare', 'shared', 'reversed'])
            if style == 'bare':
                for c in twice:
                    ranks.insert(rng.randint(0, len(ranks)), c)
            elif style == 'reversed':
                ranks = ranks + list(reversed(twice))
            else:
                ranks = [{'f': pool[:3]}] + pool[3:] + [{'f': twice}]      # duplicated across shared ranks
        elif kind == 'not_admitted':
            for c in rng.sample(badobjs, min(k, len(badobjs))):
                if rng.random() < 0.5:
                    ranks.insert(rng.randint(0, len(ranks)), c)
                else:
                    ranks.append({'f': [c]})
        elif kind == 'bounds':
            rank = {'all': ['1', '1']}
            ranks = [{'f': pool[:2]}, {'f': pool[2:4]}] + pool[4:] if len(pool) >= 4 else [{'f': pool[:2]}, {'f': []}]
        elif kind == 'shape':
            ranks = ranks[:2] + [{'l': [pool[0]]}, {'m': [pool[1]]}, {'t': [pool[2]]}][:k] + ranks[2:]
        else:
            ranks = ranks + [pool[0], N(1), pool[1], None]                   # duplicates and non-candidates together
        val = {'vt': vt, 'total': [None, None], 'rank': rank, 'nom': nom}
        vote = {'t': ranks}
    else:
        levels = [N(0), N(1), N(2)]
        items = [{'t': [c, rng.choice(levels)]} for c in pool]
        if kind == 'dup':
            for c in rng.sample(pool, min(k, len(pool))):
                items.append({'t': [c, N(7) if vt == 'range' else S(10)]})
        elif kind == 'not_admitted':
            items += [{'t': [c, N(1)]} for c in rng.sample(badobjs, min(k, len(badobjs)))]
        elif kind == 'scores':
            for i in rng.sample(range(len(items)), min(k, len(items))):
                items[i] = {'t': [items[i]['t'][0], rng.choice([N(9), N(-5), S(10), None, pool[0]])]}
        elif kind == 'shape':
            items += [pool[0], {'t': [pool[1]]}, {'t': [pool[2], N(1), N(1)]}][:k]
        val = {'vt': vt, 'n': [None, None] if kind != 'bounds' else [None, str(len(items) - 2)],
               'sum': {'all': [None, None] if kind != 'bounds' else [str(10 ** 3), None]}, 'nom': nom}
        if vt == 'enum':
            val['levels'] = levels
        else:
            val['range'] = ['0', '2']
        vote = {'f': items}
    if not eliminate:
        return mk_case(val, vote, tags)
    # {good: 7, bad: 3, a shorter good one: 2} through the filter
    goodvote = {'f': pool[:2]} if vt == 'approval' else {'t': pool[:3]} if vt == 'ranked' else {'f': [{'t': [c, N(1)]} for c in pool[:2]]}
    shorter = {'f': pool[:1]} if vt == 'approval' else {'t': pool[:2]} if vt == 'ranked' else {'f': [{'t': [pool[0], N(1)]}]}
    votes = [[goodvote, '7'], [vote, '3'], [shorter, '2']]
    votes = [[v, n] for v, n in votes if hashable_enc(v)]
    rng.shuffle(votes)
    return {'op': 'eliminate', 'val': val, 'votes': votes, '_tags': ['op:eliminate', 'elim_multi_defect'] + tags}


def gen_long(rng):
    """ballots of 50 and more choices, valid or with a single defect far from the start"""
    vt = rng.choice(['approval', 'ranked', 'enum', 'range'])
    nom = {'k': 'basic', 'blank': True}
    n = rng.randint(50, 64)
    cands = [S(i) for i in rng.sample(range(12, 140), n - 4)] + [Cd('person_party', 0), Cd('party', 3), S(4), Cd('blank', 2)]
    rng.shuffle(cands)
    tags = ['long_ballot']
    defect = rng.choice(['none', 'none', 'dup', 'bad', 'count', 'rankbound', 'rankbound'])   # rankbound = sum bound for score votes
    cb = [str(n), str(n)] if defect != 'count' else rng.choice([[str(n + 1), None], [None, str(n - 1)]])
    if vt == 'approval':
        xs = list(cands)
        if defect == 'bad':
            xs[-1] = N(3)
        return mk_case({'vt': vt, 'count': cb, 'nom': nom}, {'f': xs}, tags)
    if vt == 'ranked':
        ranks = list(cands[:-6]) + [{'f': cands[-6:-3]}, {'f': cands[-3:]}]
        if defect == 'dup':
            ranks[-3] = ranks[2]
        if defect == 'bad':
            ranks[-4] = {'l': [S(0)]}
        last = ['4', None] if defect == 'rankbound' else [None, '3']       # a bound that fails only at the very last rank
        return mk_case({'vt': vt, 'total': cb, 'rank': {'by': [[len(ranks) - 1, ['3', '3']], [len(ranks), last], [70, ['9', '9']]]},
                        'nom': nom}, {'t': ranks}, tags)
    scores = [N(rng.randint(0, 3)) for _ in cands]
    total = sum(Fraction(x['n']) for x in scores)
    items = [{'t': [c, x]} for c, x in zip(cands, scores)]
    if defect == 'dup':
        items.append({'t': [cands[5], N(9)]})
    if defect == 'bad':
        items[-1] = {'t': [N(1), N(1)]}
    sb = [str(total + 1), None] if defect == 'rankbound' else [str(total), str(total)]    # fails only for this many scorings
    val = {'vt': vt, 'n': cb if defect != 'dup' else [None, None], 'sum': {'by': [[n, sb], [0, ['1', '1']]]}, 'nom': nom}
    if vt == 'enum':
        val['levels'] = [N(0), N(1), N(2), N(3), N(9)]
    else:
        val['range'] = ['0', '9']
    return mk_case(val, {'f': items}, tags)


DEC_SCORES = [Fraction(0), Fraction(1234567, 10 ** 7), Fraction(1, 10 ** 7), Fraction(1, 10), Fraction(1, 5), Fraction(3, 10), Fraction(7, 10), Fraction(11, 10), Fraction(2675, 1000),
              Fraction(1, 100), Fraction(-1, 10), Fraction(33, 100), Fraction(1, 8)]
FRAC_SCORES = [Fraction(0), Fraction(1, 10), Fraction(1, 5), Fraction(1, 3), Fraction(2, 7), Fraction(3, 10), Fraction(1, 6), Fraction(-1, 3),
               Fraction(5, 9), Fraction(1, 49), Fraction(7, 10)]
BIG_SCORES = [5, 5 + 2 ** 61 - 1, -1, -2, 2 ** 53, 2 ** 53 + 1, 1, 1, 2, 2 ** 60 + 1, 2 ** 53 - 1, 3, 10 ** 17 + 1, -(2 ** 53)]


def gen_exact_sum(rng, eliminate=False):
    """score ballots whose scores arrive as Decimal / Fraction / big int and whose exact sum lies on, or one unit / one tiny
    fraction off, an inclusive sum bound (tuple or per-count dictionary), for both score validators"""
    kind = rng.choice(['decimal', 'fraction', 'bigint', 'huge'])
    vt = rng.choice(['enum', 'range'])
    nom = {'k': 'basic', 'blank': True}
    n = rng.choice([1, 2, 2, 3, 3, 4])
    if kind == 'decimal':
        vals = [rng.choice(DEC_SCORES) for _ in range(n)]
        scores = [N(v, D=True) for v in vals]
        unit = rng.choice([Fraction(1, 10), Fraction(1, 10 ** 17), Fraction(1, 1000)])
    elif kind == 'fraction':
        vals = [rng.choice(FRAC_SCORES) for _ in range(n)]
        scores = [N(v, F=True) for v in vals]
        unit = rng.choice([Fraction(1, 10), Fraction(1, 10 ** 17), Fraction(1, 3 * 2 ** 60)])
    elif kind == 'bigint':
        vals = [rng.choice(BIG_SCORES) for _ in range(n)]
        if not any(abs(v) >= 2 ** 53 for v in vals):
            vals[0] = 2 ** 53
        scores = [N(v) for v in vals]
        unit = Fraction(1)
    else:
        vals = [10 ** 400 * rng.choice([1, 1, -1])] + [rng.choice([1, 2, 10 ** 400, 7]) for _ in range(n - 1)]
        scores = [N(v) for v in vals]
        unit = Fraction(1)
    cands = [S(i) for i in rng.sample(range(6), n)]
    total = sum((Fraction(v) for v in vals), Fraction(0))
    pre = 'D:' if (kind == 'decimal' and rng.random() < 0.7) else ''

    def b(x):
        return None if x is None else pre + num_str(Fraction(x))
    place = rng.choice(['on_hi', 'on_lo', 'on_both', 'above_hi', 'below_lo', 'inside'])
    tags = ['exact_sum', 'sum_boundary']
    if place == 'on_hi':
        sb = [rng.choice([None, b(total - 3 * unit)]), b(total)]
    elif place == 'on_lo':
        sb = [b(total), rng.choice([None, b(total + 3 * unit)])]
    elif place == 'on_both':
        sb = [b(total), b(total)]
    elif place == 'above_hi':
        sb = [None, b(total - unit)]
        tags.append('score_sum_one_off')
    elif place == 'below_lo':
        sb = [b(total + unit), None]
        tags.append('score_sum_one_off')
    else:
        sb = [b(total - unit), b(total + unit)]
    on = place.startswith('on_')
    if kind == 'decimal' and on:
        tags.append('score_decimal_on_sum_bound')
    if kind == 'fraction' and on:
        tags.append('score_fraction_on_sum_bound')
    if kind == 'bigint':
        tags.append('score_bigint_sum_bound')
    if kind == 'huge':
        tags.append('score_huge_int')
    if rng.random() < 0.5:
        sm = {'all': sb}
    else:
        tags.append('sum_dict')
        sm = {'by': [[n, sb]] + [[k, [None, '0']] for k in rng.sample(range(6), 2) if k != n]}
    val = {'vt': vt, 'n': [None, None], 'sum': sm, 'nom': nom}
    if vt == 'enum':
        val['levels'] = [canon_obj(x) for x in scores] + [N(5)]
    else:
        val['range'] = rng.choice([[None, None], [None, None], [num_str(min(Fraction(v) for v in vals)), None]])
    if rng.random() < 0.2:
        val['via'] = 'plain_dicts' if 'by' in sm else 'checkers'
    vote = {'f': [{'t': [c, x]} for c, x in zip(cands, scores)]}
    if not eliminate:
        return mk_case(val, vote, tags)
    # the same configuration around three ballots: on the bound, and one unit to either side
    votes = [[vote, '3']]
    for delta in (unit, -unit):
        k = 'D' if kind == 'decimal' else 'F'
        x = N(Fraction(vals[0]) + delta, **({k: True} if kind in ('decimal', 'fraction') else {}))
        v2 = {'f': [{'t': [cands[0], x]}] + vote['f'][1:]}
        if vt == 'enum':
            val['levels'] = val['levels'] + [canon_obj(x)]
        votes.append([v2, rng.choice(['1', '5/2', str(10 ** 20)])])
    rng.shuffle(votes)
    return {'op': 'eliminate', 'val': val, 'votes': votes, '_tags': ['op:eliminate', 'elim_exact_sum'] + tags}


def _gen(rng, tier):
    for c in directed(rng):
        yield c
    for _ in range(500 if tier == 'quick' else 8000):
        yield gen_exact_sum(rng)
    for _ in range(150 if tier == 'quick' else 3000):
        yield gen_exact_sum(rng, eliminate=True)
    for _ in range(700 if tier == 'quick' else 6000):
        yield gen_seq(rng)
    for _ in range(700 if tier == 'quick' else 8000):
        yield gen_elim_seq(rng)
    for _ in range(1500 if tier == 'quick' else 10000):
        yield gen_shared(rng)
    for _ in range(900 if tier == 'quick' else 8000):
        yield gen_multi(rng)
    for _ in range(300 if tier == 'quick' else 4000):
        yield gen_multi(rng, eliminate=True)
    for _ in range(120 if tier == 'quick' else 1500):
        yield gen_long(rng)
    n_main = 9000 if tier == 'quick' else 40000
    for _ in range(n_main):
        tags = []
        val, vote = gen_any(rng, tags)
        val = with_via(rng, val, tags)
        if rng.random() < 0.25:
            val = with_maps(rng, val, tags)
        val = with_containers(rng, val, tags)
        if rng.random() < 0.3:
            val = retype_bounds(rng, val)
        yield mk_case(val, vote, tags)
    for _ in range(2500 if tier == 'quick' else 10000):
        vt = rng.choice(['simple', 'approval', 'ranked', 'enum', 'range'])
        yield mk_case(random_val(rng, vt), gen_obj(rng), ['malformed_stream'])
    for _ in range(1500 if tier == 'quick' else 10000):
        yield gen_eliminate(rng, [])
    if tier == 'thorough':
        for c in exhaustive():
            yield c


EX_ATOMS = [S(0), S(1), Cd('person_party', 0), Cd('blank', 0), N(1), None]


def _ex_objs():
    """all objects of depth <= 2 over six atoms with containers of at most two members (tuples/frozensets at
    depth 2, all four sequence/set containers at depth 1)"""
    d1 = []
    for k in ('t', 'l'):
        d1.append({k: []})
        d1 += [{k: [a]} for a in EX_ATOMS]
        d1 += [{k: [a, b]} for a in EX_ATOMS for b in EX_ATOMS]
    for k in ('f', 'm'):
        d1.append({k: []})
        d1 += [{k: [a]} for a in EX_ATOMS]
        d1 += [{k: [a, b]} for a, b in itertools.combinations(EX_ATOMS, 2)]
    level1 = EX_ATOMS + d1
    hashable1 = [x for x in level1 if hashable_enc(x) and not (x is not None and 'm' in x)]
    out = list(level1)
    out += [{'t': [a, b]} for a in level1 for b in level1 if (a in d1 or b in d1)]
    out += [{'f': [a, b]} for a, b in itertools.combinations(hashable1, 2) if (a in d1 or b in d1)]
    out += [{'f': [a]} for a in hashable1 if a in d1]
    out += [{'t': [a]} for a in d1]
    return out


def _ex_vals():
    basic = {'k': 'basic', 'blank': True}
    person = {'k': 'person', 'indep': True, 'blank': False}
    vals = [{'vt': 'simple', 'nom': basic}, {'vt': 'simple', 'nom': person}]
    for nom in (basic, person):
        for b in ([None, None], ['1', '1'], ['2', None], [None, '1'], ['2', '1']):
            vals.append({'vt': 'approval', 'count': b, 'nom': nom})
        for total in ([None, None], ['2', '2']):
            for rank in (None, {'all': ['1', '2']}, {'by': [[1, ['2', '2']]]}, {'by': [[2, ['1', '1']]]}):
                vals.append({'vt': 'ranked', 'total': total, 'rank': rank, 'nom': nom})
        for nb in ([None, None], ['2', '2']):
            for sm in ({'all': [None, None]}, {'all': ['1', '2']}, {'by': [[1, ['1', '1']]]}):
                vals.append({'vt': 'enum', 'n': nb, 'sum': sm, 'nom': nom, 'levels': [N(1), S(1), None]})
                for rg in ([None, None], ['1', '1']):
                    vals.append({'vt': 'range', 'n': nb, 'sum': sm, 'nom': nom, 'range': rg})
    return vals


def exhaustive():
    objs = _ex_objs()
    for val in _ex_vals():
        for o in objs:
            yield mk_case(val, o, ['exhaustive'])
    # the filter: every dictionary of at most three ballots (in every order) from a pool of six, per vote type
    basic = {'k': 'basic', 'blank': False}
    person = {'k': 'person', 'indep': True, 'blank': False}
    P0, B0 = Cd('person_party', 0), Cd('blank', 0)
    pools = [
        ({'vt': 'simple', 'nom': basic}, [S(0), S(1), P0, {'t': [S(0)]}, N(1), None]),
        ({'vt': 'simple', 'nom': person}, [P0, Cd('person_indep', 0), Cd('person_party', 1)]),
        ({'vt': 'approval', 'count': ['1', '2'], 'nom': basic},
         [{'f': []}, {'f': [S(0)]}, {'f': [S(0), S(1)]}, {'f': [S(0), S(1), S(2)]}, {'t': [S(0)]}, {'f': [S(0), B0]}]),
        ({'vt': 'ranked', 'total': ['1', '3'], 'rank': None, 'nom': basic},
         [{'t': []}, {'t': [S(0)]}, {'t': [S(0), S(1)]}, {'t': [S(0), S(0)]}, {'t': [{'f': [S(0), S(1)]}]}, {'t': [S(0), N(1)]}]),
        ({'vt': 'enum', 'n': [None, '2'], 'sum': {'all': [None, '3']}, 'nom': basic, 'levels': [N(1), N(2), S(6)]},
         [{'f': []}, {'f': [{'t': [S(0), N(1)]}]}, {'f': [{'t': [S(0), N(2)]}, {'t': [S(1), N(2)]}]}, {'f': [{'t': [S(0), N(3)]}]},
          {'f': [{'t': [S(0), S(6)]}]}, {'f': [{'t': [B0, N(1)]}]}]),
        ({'vt': 'range', 'n': [None, '2'], 'sum': {'all': [None, None]}, 'nom': basic, 'range': ['0', '2']},
         [{'f': []}, {'f': [{'t': [S(0), N(1)]}]}, {'f': [{'t': [S(0), N(3)]}]}, {'f': [{'t': [S(0), S(6)]}]},
          {'f': [{'t': [S(0), N(2)]}, {'t': [S(0), N(1)]}]}, {'f': [S(0)]}]),
    ]
    for val, pool in pools:
        for k in (1, 2, 3):
            for combo in itertools.permutations(range(len(pool)), k):
                yield {'op': 'eliminate', 'val': val, 'votes': [[pool[i], str(i + 1)] for i in combo],
                       '_tags': ['exhaustive', 'exhaustive_eliminate']}


def walk(e, depth=0):
    """all sub-encodings with their depth"""
    yield e, depth
    if e is None:
        return
    for k in ('t', 'l', 'f', 'm'):
        if k in e:
            for x in e[k]:
                yield from walk(x, depth + 1)
    if 'd' in e:
        for x in e['d'][0] + e['d'][1]:
            yield from walk(x, depth + 1)


def unhashable_top(e):
    return e is not None and ('l' in e or 'm' in e or 'd' in e)


def structure_tags(vt, e):
    """what a ballot exercises, read off its encoding"""
    tags = set()
    subs = list(walk(e))
    ids = {}
    for x, d in subs:
        if x is None:
            continue
        if 'c' in x:
            ids.setdefault(x['c'], set()).add(x['id'])
            if x['id'] == 2:
                tags.add('falsy_name_object')
            if x['c'] == 'coalition' and x['id'] == 1:
                tags.add('coalition_one_member')
            if x['c'] == 'coalition' and x['id'] in (2, 4):
                tags.add('coalition_nested_or_empty')
            if x['c'] == 'person_party' and x['id'] == 1:
                tags.add('str_party_candidacy')
            if x['c'] == 'blank':
                tags.add('blank')
            if x['c'] == 'coalition':
                tags.add('coalition')
        if 's' in x and x['s'] == 4:
            tags.add('empty_name_candidate')
        if 'n' in x:
            f = Fraction(x['n'])
            if x.get('D') and f.denominator > 10 ** 6:
                tags.add('score_decimal_7plus')
            if f == 0 and x.get('F'):
                tags.add('score_zero_fraction')
            if f == 0 and x.get('D'):
                tags.add('score_zero_decimal')
            if x.get('fl'):
                tags.add('score_float')
            if x.get('bo'):
                tags.add('score_bool')
        if unhashable_top(x):
            tags.add('unhashable_item')
            tags.add('unhashable_ballot' if d == 0 else 'unhashable_inner_item')
    for k, v in ids.items():
        if {0, 3} <= v:
            tags.add('equal_looking_objects')
    objs = [(x['c'], x['id']) for x, _ in subs if x is not None and 'c' in x]
    if len(set(objs)) < len(objs):
        tags.add('same_object_twice')
    if any(x is not None and x.get('s') == 5 for x, _ in subs) and (
            {0, 3} & ids.get('person_party', set()) or 1 in ids.get('party', set())):
        tags.add('name_clash_str_object')
    # length of the ballot
    n = None
    if e is not None:
        for k in ('t', 'l', 'f', 'm'):
            if k in e:
                n = len(e[k])
    if n is not None:
        tags.add('ballot_len_0' if n == 0 else 'ballot_len_1' if n == 1 else 'ballot_len_50plus' if n >= 50 else 'ballot_len_mid')
    if vt == 'ranked' and e is not None and 't' in e:
        for r in e['t']:
            if r is None:
                continue
            if 'f' in r:
                m = len(members(r['f']))
                if m >= 3:
                    tags.add('shared_rank_3plus')
                if m == 0:
                    tags.add('empty_shared_rank')
            if 'l' in r:
                tags.add('rank_as_list')
            if 'm' in r:
                tags.add('rank_as_set')
            if 't' in r:
                tags.add('rank_as_tuple')
            if 'd' in r:
                tags.add('rank_as_dict')
    if vt in ('enum', 'range') and e is not None and 'f' in e:
        pairs = [it['t'] for it in e['f'] if it is not None and 't' in it and len(it['t']) == 2]
        by = {}
        for c, sc in pairs:
            by.setdefault(ckey(c), []).append(sc)
        for c, scs in by.items():
            if len(scs) > 1:
                vals = set(ckey(x) for x in scs)
                tags.add('score_dup_equal_score' if len(vals) < len(scs) else 'score_dup_diff_score')
        nums = [Fraction(sc['n']) for _, sc in pairs if is_num(sc)]
        if (-1 in nums and -2 in nums) or any(a - b == 2 ** 61 - 1 for a in nums for b in nums):
            tags.add('hash_alike_scores')
    return tags


def config_tags(val):
    tags = set()
    nom = val['nom']
    tags.add('nomcfg:%s:%s:%s' % (nom['k'], nom.get('indep', nom.get('coal', '-')), nom['blank']))
    if nom.get('flip'):
        tags.add('nom_flags_flipped')
    if nom.get('default'):
        tags.add('default_nominator')
    bs = []
    for k in ('count', 'total', 'n', 'range'):
        if k in val:
            bs.append(val[k])
    for k in ('rank', 'sum'):
        bm = val.get(k)
        if bm is not None:
            if 'all' in bm:
                bs.append(bm['all'])
            else:
                if bm.get('form'):
                    if 'default' in bm:
                        bs.append(bm['default'])
                    if not bm['by']:
                        tags.add('explicit_checkers_empty_defaultdict' if bm['form'] == 'defaultdict' else 'explicit_checkers_empty_dict')
                    elif len(bm['by']) == 1:
                        tags.add('explicit_checkers_single_key')
                    if bm['form'] in ('proxy', 'custom'):
                        tags.add('explicit_checkers_mapping')
                    if bm['form'] == 'defaultdict' and bm['by']:
                        tags.add('explicit_checkers_defaultdict_keys')
                    tags.add('explicit_checkers:' + k)
                for kk, b in bm['by']:
                    bs.append(b)
                    if kk == 0:
                        tags.add('dict_key_zero')
                    if kk >= 7:
                        tags.add('dict_key_far_beyond')
    for b in bs:
        for x in b:
            if x is None:
                continue
            f = bfrac(x)
            t = x[0] if x[1:2] == ':' else ''
            if f == 0:
                tags.add('bound_zero')
            if f < 0:
                tags.add('bound_negative')
            if t == 'F' or (t == '' and f.denominator != 1):
                tags.add('bound_fraction')
            if t == 'D':
                tags.add('bound_decimal')
            if t == 'f':
                tags.add('bound_float')
                if f.denominator > 2 ** 20:
                    tags.add('bound_float_nondyadic')
            if t == 'b':
                tags.add('bound_bool')
        if b[0] is not None and b[1] is not None and bfrac(b[0]) > bfrac(b[1]):
            tags.add('crossing_bounds')
    return tags


def generate(rng, tier):
    """tag after the fact with what the cases actually exercise (verdict of the declarative rule, configuration shape)"""
    k = 0
    for c in _gen(rng, tier):
        tags = c['_tags']
        k += 1
        if c['op'] == 'validate' and k % 7 == 0 and 'exhaustive' not in tags:
            yield {'op': 'shape', 'vote': c['vote'], '_tags': ['op:shape']}
        val = c['val']
        tags.append('vt:' + val['vt'])
        tags.append('nom:' + val['nom']['k'])
        if 'exhaustive' in tags:            # the enumerated scope needs no per-case structure tags
            c['_tags'] = sorted(set(tags))
            yield c
            continue
        tags += sorted(config_tags(val))
        if c['op'] == 'validate':
            if c.get('_shared'):
                tags.append('shared_validator_object')
            why = rule(val, c['vote'])
            tags.append('valid' if not why else 'invalid')
            for w in why:
                tags.append('why:' + w)
            tags += sorted(structure_tags(val['vt'], c['vote']))
            if val['vt'] in ('ranked', 'enum', 'range') and differs_from_default(val, c['vote']):
                tags.append('explicit_differs_from_default')
            tags += sorted(multi_tags(val, c['vote']))
            tags += sorted(level_score_tags(val, c['vote']))
            if val.get('bounds_as') == 'list':
                tags.append('bounds_as_list')
            if val.get('alias'):
                tags.append('caller_collections_changed')
                if any(val.get(k) is not None and 'by' in val[k] and val[k].get('form') != 'defaultdict' for k in ('rank', 'sum')):
                    tags.append('caller_dict_changed')
            bm = val.get('rank') if val['vt'] == 'ranked' else val.get('sum')
            e = c['vote']
            if bm is not None and 'by' in bm and e is not None and ('t' in e or 'f' in e):
                n = len(e.get('t', e.get('f')))
                if any(kk > n for kk, _ in bm['by']):
                    tags.append('dict_key_beyond_ballot')
        elif c['op'] == 'validate_seq':
            tags.append('op:validate_seq')
            verdicts = [bool(rule(val, v)) for v in c['votes']]
            if any(verdicts[i] and not verdicts[i + 1] for i in range(len(verdicts) - 1)):
                tags.append('seq_valid_after_invalid')
            for v in c['votes']:
                tags += sorted(structure_tags(val['vt'], v))
        elif c['op'] == 'eliminate_seq':
            tags.append('op:eliminate_seq')
            rejected = set()          # ballots rejected at an earlier call
            for i, (st, sv) in enumerate(zip(c['steps'], step_vals(val, c['steps']))):
                if 'nom' in st:
                    tags.append('seq_validator_state_changed')
                here = {ckey(k): bool(rule(sv, k)) for k, _ in st['votes']}
                if i == 0 and not any(here.values()):
                    tags.append('seq_first_profile_clean')
                if rejected and not (rejected & set(here)):
                    tags.append('seq_rejected_ballot_absent_later')
                if any(k in rejected and bad for k, bad in here.items()):
                    tags.append('seq_rejected_ballot_again')
                if any(k in rejected and not bad for k, bad in here.items()):
                    tags.append('seq_rejected_ballot_valid_later')
                if rejected and not any(here.values()):
                    tags.append('seq_clean_profile_after_removal')
                rejected |= {k for k, bad in here.items() if bad}
        else:
            if 'op:eliminate' not in tags:
                tags.append('op:eliminate')
            if c.get('_shared'):
                tags.append('shared_eliminator_object')
            verdicts = [rule(val, k) for k, _ in c['votes']]
            if all(not w for w in verdicts):
                tags.append('elim_all_kept')
            elif any(w for w in verdicts):
                tags.append('elim_some_removed')
            for v, _ in c['votes']:
                tags += sorted(structure_tags(val['vt'], v))
                tags += sorted('elim:' + t for t in multi_tags(val, v))
        c['_tags'] = sorted(set(tags))
        yield c


def search(rng, tier):
    return generate(rng, 'quick')


# ------------------------------------------------------------------------------------------------
# shrinking and description

def _shrink_obj(e):
    if e is None:
        return
    for k in ('t', 'l', 'f', 'm'):
        if k in e:
            xs = e[k]
            for i in range(len(xs)):
                yield {k: xs[:i] + xs[i + 1:]}
            for i in range(len(xs)):
                for sub in _shrink_obj(xs[i]):
                    yield {k: xs[:i] + [sub] + xs[i + 1:]}


def shrink_candidates(case):
    if case['op'] == 'shape':
        return
    val = case['val']
    if case['op'] == 'eliminate_seq':
        sts = case['steps']
        for i in range(len(sts)):
            if len(sts) > 1:
                c = dict(case)
                c['steps'] = sts[:i] + sts[i + 1:]
                yield c
        for i in range(len(sts)):
            vs = sts[i]['votes']
            for j in range(len(vs)):
                if len(vs) > 1:
                    c = dict(case)
                    c['steps'] = sts[:i] + [dict(sts[i], votes=vs[:j] + vs[j + 1:])] + sts[i + 1:]
                    yield c
            if 'nom' in sts[i]:
                c = dict(case)
                c['steps'] = sts[:i] + [{k: v for k, v in sts[i].items() if k != 'nom'}] + sts[i + 1:]
                yield c
    elif case['op'] in ('eliminate', 'validate_seq'):
        vs = case['votes']
        for i in range(len(vs)):
            if len(vs) > 1:
                c = dict(case)
                c['votes'] = vs[:i] + vs[i + 1:]
                yield c
        if case.get('first'):
            c = dict(case)
            c.pop('first')
            yield c
    else:
        for sub in _shrink_obj(case['vote']):
            c = dict(case)
            c['vote'] = sub
            yield c
    for key in ('count', 'total', 'n', 'range'):
        if key in val and val[key] != [None, None]:
            c = dict(case)
            c['val'] = dict(val)
            c['val'][key] = [None, None]
            yield c
    for key in ('rank', 'sum'):
        if key in val and val[key] not in (None, {'all': [None, None]}):
            c = dict(case)
            c['val'] = dict(val)
            c['val'][key] = {'all': [None, None]}
            yield c
    if val['nom'] != {'k': 'basic', 'blank': True}:
        c = dict(case)
        c['val'] = dict(val)
        c['val']['nom'] = {'k': 'basic', 'blank': True}
        yield c


def describe(case):
    pool = Pool()
    if case['op'] == 'shape':
        return f"hash({pool.build(case['vote'])!r})"
    val = case['val']
    nom = val['nom']
    noms = {'basic': f"BasicNominator(allow_blank={nom.get('blank')})",
            'person': f"PersonNominator(allow_independents={nom.get('indep')}, allow_blank={nom.get('blank')})",
            'party': f"PartyNominator(allow_coalitions={nom.get('coal')}, allow_blank={nom.get('blank')})"}[nom['k']]
    vt = val['vt']
    if vt == 'simple':
        ctor = f'SimpleVoteValidator(nominator={noms})'
    elif vt == 'approval':
        ctor = f"ApprovalVoteValidator(vote_count_bounds={py_bounds(val['count'])}, nominator={noms})"
    elif vt == 'ranked':
        rk = show_map('rank_vote_count_bounds', 'rank_vote_count_checkers', val.get('rank'))
        ctor = f"RankedVoteValidator(total_vote_count_bounds={py_bounds(val['total'])}{rk}, nominator={noms})"
    elif vt == 'enum':
        lv = [pool.build(x) for x in val['levels']]
        kind = val.get('levels_as', 'list')
        lvs = {'list': repr(lv), 'tuple': repr(tuple(lv)), 'set': f'set({lv!r})', 'frozenset': f'frozenset({lv!r})',
               'dict_keys': f'dict.fromkeys({lv!r}).keys()', 'dict': f'dict.fromkeys({lv!r})', 'generator': f'(x for x in {lv!r})',
               'str': repr(''.join(x for x in lv if isinstance(x, str))), 'range': (f'range({lv[0]}, {lv[0] + len(lv)})' if (lv and isinstance(lv[0], int)) else repr(lv))}[kind]
        ctor = (f"EnumScoreVoteValidator({lvs}, allowed_scorings={py_bounds(val['n'])}"
                f"{show_map('sum_bounds', 'sum_checkers', val['sum'])}, nominator={noms})")
    else:
        ctor = (f"RangeVoteValidator(range={py_bounds(val['range'])}, allowed_scorings={py_bounds(val['n'])}"
                f"{show_map('sum_bounds', 'sum_checkers', val['sum'])}, nominator={noms})")
    if nom.get('flip'):
        ctor += ' [nominator flags set after construction]'
    if val.get('bounds_as') == 'list':
        ctor += ' [bound pairs given as lists]'
    if val.get('alias'):
        ctor += ' [the caller changes its own levels list / bound lists / dictionaries after construction]'
    if case['op'] == 'validate':
        return f"{ctor}.validate({pool.build(case['vote'])!r})"
    if case['op'] == 'validate_seq':
        return f"v = {ctor}; " + '; '.join(f"v.validate({pool.build(b)!r})" for b in case['votes'])
    if case['op'] == 'eliminate_seq':
        parts = []
        for st in case['steps']:
            d = {}
            for k, n in st['votes']:
                d[pool.build(k)] = py_num(n)
            parts.append((f"[nominator flags := {st['nom']}] " if 'nom' in st else '') + f"e.convert({d!r})")
        return f"e = InvalidVoteEliminator({ctor}); " + '; '.join(parts)
    d = {}
    for k, n in case['votes']:
        d[pool.build(k)] = py_num(n)
    return f"InvalidVoteEliminator({ctor}).convert({d!r})"
