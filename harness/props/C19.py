"""C19 — serialised systems and ballot files reload to equivalent objects.

Ops (a case is one JSON object, keys starting with '_' are harness-only):
  codec      a value of the codec algebra (PVal) -> persist.serialize_value -> deserialize_value (also through JSON text);
             model: VL.Persist.serialize / deserialize on the same value
  class_rt   an object of a votelib class carrying to_dict, built from a random admissible constructor spec (c19_classes):
             to_dict / from_dict / JSON text / outcomes on generated inputs; model: fromDict + serialize on the real dict
  blt_rt     an election document -> io.blt.dumps -> loads ; model: VL.Blt.dumpBlt / loadBlt on the token lines
  blt_text   a (mutated / truncated / hand-made) text -> io.blt.loads ; model: loadBlt on its token lines;
             oracle: an independent reference reader of the format
  stv_rt     a document (+ system header) -> io.stv.dumps -> loads      (oracle only)
  stv_text   a mutated STV text -> io.stv.loads                         (oracle only)
"""
import json
import itertools
from fractions import Fraction
from decimal import Decimal
from common import *   # noqa
import props.c19_codec as CC
import props.c19_io as IO
import props.c19_stvsys as SY

ID = 'C19'
NAMESPACE = 'VL.C19'
LEAN_MODULES = ['VotelibProofs.Props.C19']
GEN_MODULES = []
REQUIRED = ['codec_roundtrip', 'codec_reserialize_stable', 'to_from_dict_roundtrip', 'codec_rejects', 'codec_accepts', 'codec_save_ok_iff',
            'representable_serializable', 'codec_save_or_faithful', 'codec_faithful_iff_serializable', 'codec_set_reloads',
            'codec_mixed_keys_typed_form', 'codec_mixed_keys_reload', 'codec_reserved_key_reloads', 'codec_reserved_callable_reloads',
            'blt_roundtrip', 'blt_dump_refuses_iff', 'blt_save_or_faithful', 'blt_written_string_uncut', 'blt_comment_start_examples',
            'blt_parse_total', 'blt_oneplus_below_one', 'blt_repeated_ballot_exact', 'blt_loaded_indices_valid', 'blt_former_foreign_errors',
            'Stv.stv_nicks_distinct', 'Stv.stv_nicks_nonempty', 'Stv.stv_roundtrip', 'Stv.stv_blt_mode_roundtrip', 'Stv.stv_dump_refuses',
            'Stv.stv_dump_refuses_negative', 'Stv.stv_header_roundtrip', 'Stv.stv_sys_dump_refuses_iff', 'Stv.stv_sys_classification',
            'Stv.stv_roundtrip_complete_system', 'Stv.stv_sys_incomplete', 'Stv.stv_sys_witnesses', 'Stv.stv_parse_total', 'Stv.stv_loaded_indices_valid',
            'Stv.stv_blt_mode_header_candidates', 'Stv.stv_repeated_ballot_exact', 'Stv.stv_ordered_format', 'Stv.stv_former_foreign_errors',
            'Stv.stv_end_and_empty_ballot_reload']
REQUIRED_COUNTERS = ['codec_frac', 'codec_dec', 'codec_tuple', 'codec_fset', 'codec_sdict', 'codec_gdict', 'codec_obj', 'codec_callable',
                     'codec_depth_4', 'unrepresentable', 'codec_plain_set', 'codec_reserved_key', 'codec_equal_values_different_types',
                     'codec_same_name_two_registries', 'codec_wide', 'codec_mixed_keys',
                     'class_rt', 'class_bad', 'class_signatures', 'class_sensitive', 'class_same_name_two_registries', 'class_identity_keys', 'class_mixed_keys', 'class_mixed_keys_outcome',
                     'class_mixed_keys_per_class', 'mixed_Person', 'mixed_PoliticalParty', 'mixed_ByConstituency', 'mixed_PreApportioned',
                     'mixed_BiproportionalEvaluator', 'mixed_CoalitionMemberBracketer', 'mixed_PropertyBracketer', 'mixed_EnumScoreVoteValidator',
                     'mixed_RangeVoteValidator', 'mixed_RankedVoteValidator',
                     'class_equal_values_different_types', 'sens_LargestRemainder_accept_equal',
                     'sens_LargestRemainder_on_overaward', 'sens_Coalition_lead', 'sens_ByConstituency_subsetter', 'sens_ByParty_subsetter',
                     'sens_UnusedVotesDistributor_depth', 'sens_TransferableVoteDistributor_mandatory_quota', 'cls_depth_4', 'feat_fraction', 'feat_decimal', 'feat_callable_by_name', 'feat_dict_keyed',
                     'blt_rt', 'blt_withdrawn', 'blt_withdrawn_first', 'blt_one_candidate', 'blt_title', 'blt_weight_int',
                     'blt_weight_dec', 'blt_weight_frac', 'blt_weight_proper_fraction', 'blt_person', 'blt_strname', 'blt_empty_ballot',
                     'blt_name_quote_then_hash', 'blt_name_hash_then_quote', 'blt_title_quote_then_hash', 'blt_title_hash_then_quote',
                     'stv_name_quote_then_hash', 'stv_name_hash_then_quote', 'quote_hash_directed', 'quote_hash_alphabet', 'blt_clean',
                     'blt_text', 'mut_truncate_chars', 'mut_truncate_lines', 'mut_junk_token', 'mut_index_out_of_range',
                     'mut_zero_inside', 'mut_handmade',
                     'stv_rt', 'stv_blt_mode', 'stv_own_mode', 'stv_duplicate_initials', 'stv_many_candidates', 'stv_weight_below_one',
                     'stv_title_none', 'stv_empty_ballot_w1', 'stv_nick_end', 'stv_name_no_initials', 'stv_decimal_exponent',
                     'stv_writer_must_refuse', 'stv_withdrawn', 'stv_weight_frac', 'stv_weight_dec',
                     'stv_text', 'mut_header_junk', 'stv_quota_registry', 'stv_header_directed',
                     'structure_directed', 'text_repeated_ballot', 'blt_text_repeated_decimal_weight', 'stv_text_repeated_decimal_weight', 'stv_text_blt_content', 'may_refuse_negative_weight', 'stv_blt_mode_with_header_candidates', 'class_directed', 'class_custom_inputs', 'codec_directed', 'text_variant_directed', 'blt_oneplus', 'blt_oneplus_directed', 'mut_crlf', 'mut_bom', 'mut_no_final_newline', 'blt_zero_ballots', 'blt_all_withdrawn', 'blt_27plus_candidates', 'blt_one_candidate', 'blt_cand_int', 'blt_cand_person', 'blt_cand_person_full', 'blt_cand_str', 'blt_names_differ_in_case_only', 'blt_names_differ_in_whitespace_only', 'blt_name_non_ascii', 'blt_title_non_ascii', 'blt_weight_zero_int', 'blt_weight_zero_dec', 'blt_weight_zero_frac', 'blt_weight_negative', 'blt_weight_huge_denominator', 'blt_weight_decimal_exponent', 'blt_weight_2_53_and_above', 'blt_weight_10_400', 'stv_zero_ballots', 'stv_all_withdrawn', 'stv_27plus_candidates', 'stv_one_candidate', 'stv_cand_int', 'stv_cand_person', 'stv_cand_person_full', 'stv_cand_str', 'stv_names_differ_in_case_only', 'stv_names_differ_in_whitespace_only', 'stv_name_non_ascii', 'stv_title_non_ascii', 'stv_weight_zero_int', 'stv_weight_zero_dec', 'stv_weight_zero_frac', 'stv_weight_negative', 'stv_weight_huge_denominator', 'stv_weight_decimal_exponent', 'stv_weight_2_53_and_above', 'stv_weight_10_400', 'blt_name_empty',
                     'blt_name_inner_ws_run', 'blt_name_inner_tab', 'blt_name_inner_non_ascii_space', 'stv_name_inner_ws_run', 'stv_name_inner_tab',
                     'stv_name_inner_non_ascii_space', 'blt_title_inner_ws_run', 'stv_title_inner_ws_run', 'stv_text_name_inner_ws',
                     'stv_ordered', 'stv_ordered_written', 'stv_ordered_partial_order', 'stv_ordered_empty_ballot',
                     'stv_sys', 'stv_sys_directed', 'stv_sys_supported', 'stv_sys_refusable', 'stv_sys_unknown_evaluator', 'stv_sys_nameless_quota',
                     'stv_sys_duplicate_setting', 'stv_sys_unseeded_sortitor', 'stv_sys_accept_quota_equal', 'stv_sys_tie_subsetter', 'stv_sys_depth_4']
RULE = ('codec: random value trees of depth <= 4 over atoms (None/bool/int up to 10^30/float/str incl. unicode and identifier-like), '
        'Fraction, Decimal, list, tuple, frozenset, str-keyed and general dicts, objects (Person, PoliticalParty, NoneOfTheAbove, '
        'AbsoluteThreshold) and callables by name; plus directed streams: an unrepresentable leaf (closure, lambda, same-named local def, '
        'functools.partial, quota.constant, object(), complex) wrapped at depth <= 3, plain sets, mappings with reserved keys. '
        'class_rt: every class carrying to_dict found by reflection (each at least ten times per run as the top-level object), constructor specs nested to depth 4, '
        '6 generated inputs per object for the outcome comparison, and unrepresentable configurations. '
        'blt_rt / stv_rt: 0-6 candidates (strings or Person objects, rich printable names, duplicate names for Person), 0-6 ballots without '
        'shared ranks incl. the empty ballot, int / Decimal / Fraction weights, any subset withdrawn, optional title; STV with and without '
        'system header (quota, mandatory, random, seats, title). blt_text / stv_text: 30 hand-made texts + 16 kinds of line / token / '
        'character mutations and truncations of written files (STV: also junk header lines). '
        'stv_text also: the ordered ballot format (order=) — 33 hand-made texts, files written by the harness from documents (expected result '
        'known) and their mutations. stv_sys: 28 directed + random evaluator trees: 0-4 VotingSystem / FixedSeatCount / TieBreaking wrappers in '
        'any order around TransferableVoteSelector / Distributor (quota droop / hare / imperiali / constant / nameless / None, mandatory, '
        'accept_quota_equal, retainer, elimination step, Hare transferer) or Plurality / Copeland; tie-breakers number / input order / Sortitor '
        'with and without seed / PreConverted (three converters) / unsupported; titles incl. uncarriable ones; with and without n_seats. '
        'Mixed key types: mappings keyed by str together with int / None / bool / tuple / Fraction keys (and int + None ...) — directed codec '
        'values; PropertyBracketer thresholds keyed that way inside Conditioned / FixedSeatCount / VotingSystem on parties whose outcome '
        'depends on the non-str key; for every class with a dict parameter (10 classes) a spec with a key of another type added to each dict; '
        'the same on a quarter of the random class specs; all through the in-memory and the JSON-text route. '
                'Non-trivial: codec depth >= 1; class saved without error; documents with >= 2 candidates and >= 1 ballot; texts > 8 characters.')
NOT_VERIFIED = ['lexing of BLT/STV text (split, str(weight), Decimal(text), str.isdigit, STV header comments): the harness tokenises real '
                'text with Python\'s own predicates; writer and parser are compared with the token-level model on those token lines. The BLT '
                'comment rule (_clean_line: strip, where a # comment starts relative to double quotes) IS modelled at character level '
                '(Blt.cleanLine, op blt_clean) for ASCII white space; other Unicode space characters are not',
                'constructor reflection (simple_serialization, cls(**params)): that every class stores each constructor parameter under its own '
                'name in a form its constructor accepts is established per class by the class_rt correspondence/oracle only',
                'get_object name resolution is a parameter (Env) of the model; type names other than dict/Fraction/Decimal/tuple/frozenset '
                'are answered "unmodelled" and not compared',
                'str.isidentifier is modelled for ASCII; str(Decimal)/Decimal(str) are the identity on the carried text',
                'Python equality across numeric types inside sets / dict keys (1 == True == 1.0) — the generator keeps such keys apart',
                'object identity: candidate objects hash by identity, so two keys of equal content stay two keys in Python while the model '
                '(values compared by content; precondition WFval: distinct keys) would merge them — random generators give object keys '
                'distinct names, the directed class_identity_keys cases check the Python side by the oracle only',
                'ordered ballot lines: item.isdecimal() / int(item) / item == "-" are a parameter (cls) of the model, computed by the harness with '
                'Python\'s own predicates; the theorems hold for every classification',
                'system trees (op stv_sys): InputOrderSelector and CandidateNumberRanker are one tie-breaker to the model (both are written '
                'random=non), PreConverted converters inside RANKED_TO_SIMPLE are not told apart, the class Selector / Distributor is compared by '
                'the model only (the writer declares that change with a warning); trees votelib cannot construct (FixedSeatCount around a '
                'FixedSeatCount) are covered by the theorems only',
                'the numeric TYPE of a loaded weight (int / Decimal / Fraction; a repeated ballot with a Decimal weight comes back as a '
                'Fraction since 134a849): models and oracle compare loaded weights by exact value',
                'the value algebra has exact builtin types only: an iterable that is not a list/tuple/set/frozenset (range, bytes, deque, subclasses) '
                'is written as a list and a mapping that is not a dict (defaultdict, OrderedDict) as a dict — the codec theorems say nothing about '
                'them; the one case that matters in votelib (validators holding a defaultdict) is the open finding validator_defaultdict',
                'WFval (hypothesis of codec_save_or_faithful) lists invariants of live Python values plus one signature fact — no constructor '
                'parameter named type/class/callable — which the harness asserts by reflection on every run (op class_sig)',
                'frozenset iteration order (compared order-free)',
                'STV: the system header (_dump_system / _load_system / _create_system: title, method, quota, seats, random), nicknames, '
                'candidate lines, ballots=, unordered ballot lines and end are modelled at token level; BLT content inside STV, the ordered '
                'format (order=) and name_to_initials (regex, str.lower) are not — candidates come with their initials, header values with '
                'their isdecimal()/int() classification, names and title with the flag whether _header_text lets them through; math.log in '
                'the ordinal nickname length is modelled as the least k >= 1 with 26^k >= n; the objects _create_evaluator builds are '
                'summarised as (title, seats, quota, mandatory, tie-break) and compared with the loaded system through that summary only']
UNPROVED = []
EXHAUSTIVE = {'thorough': True}

# ------------------------------------------------------------------------------------------------ guards
def _g(fn, seconds=10):
    """run fn(); exceptions -> {'err': protocol name, 'exc': exact class}"""
    import votelib.io.core as vic
    try:
        return call_with_timeout(fn, seconds)
    except Exception as e:      # noqa
        name = type(e).__name__
        if isinstance(e, vic.ParseError):
            proto = 'ParseError'
        elif isinstance(e, vic.NotSupportedInFormat):
            proto = 'NotSupportedInFormat'
        else:
            proto = name
        return {'err': proto, 'exc': name}


def _is_err(x):
    return isinstance(x, dict) and 'err' in x


LOAD_UNRESOLVABLE = ('AttributeError', 'ImportError', 'ModuleNotFoundError')


# ------------------------------------------------------------------------------------------------ op codec
def _impl_codec(case):
    import votelib.persist as P
    v = CC.py_of_pval(case['v'])
    ser = _g(lambda: P.serialize_value(v))
    if _is_err(ser):
        return {'ser': ser, 'back': None, 'back_json': None}
    out = {'ser': CC.j_of_py(ser)}

    def back(s):
        r = _g(lambda: P.deserialize_value(s))
        if _is_err(r):
            return r
        return CC.canon_pval(CC.pval_of_py(r))
    out['back'] = back(ser)
    txt = _g(lambda: json.dumps(ser))
    if _is_err(txt):
        out['back_json'] = {'err': 'json:' + txt['err'], 'exc': txt['exc']}
    else:
        out['back_json'] = back(json.loads(txt))
    return out


def _haz_codec(case):
    return set()          # since 722783a the codec has no known ambiguity left: every failure is a violation


def _feat_codec(case):
    h = set()
    CC.hazards_p(case['v'], h)
    return h


def _oracle_codec(case, obs):
    p = case['v']
    out = []
    if not CC.serializable_p(p):
        if not _is_err(obs['ser']):
            out.append(('not_rejected', 'a value without a dict spelling was written: ' + json.dumps(obs['ser'], default=str)[:200]))
        return out
    if _is_err(obs['ser']):
        return [('refused_representable', obs['ser']['exc'])]
    want = CC.canon_pval(p)
    for key, pre in (('back', ''), ('back_json', 'json_')):
        b = obs[key]
        if _is_err(b):
            out.append((pre + 'unloadable', f"saved without complaint, loading raises {b['exc']}"))
        elif b != want:
            out.append((pre + 'silently_altered', f'reloads as {json.dumps(b, default=str)[:200]}'))
        if out:
            break                        # the JSON-text path is reported only when the in-memory path is clean
    return out


def _model_codec(case):
    names = set()
    CC.strings_in_pval(case['v'], names)
    return {'op': 'codec', 'v': case['v'], 'env': CC.env_for(names)}


def _err_proto(e):
    n = e['err']
    return 'unresolvable' if n in LOAD_UNRESOLVABLE else n


def _compare_codec(case, iobs, mobs):
    # serialisation
    if _is_err(iobs['ser']) != _is_err(mobs['ser']):
        return f"ser: impl={json.dumps(iobs['ser'], default=str)[:200]} model={json.dumps(mobs['ser'], default=str)[:200]}"
    if _is_err(iobs['ser']):
        if iobs['ser']['err'] != mobs['ser']['err']:
            return f"ser error: impl={iobs['ser']['err']} model={mobs['ser']['err']}"
    elif CC.canon_j(iobs['ser']) != CC.canon_j(mobs['ser']):
        return f"ser: impl={json.dumps(iobs['ser'], default=str)[:300]} model={json.dumps(mobs['ser'], default=str)[:300]}"
    # reload
    mb = mobs['back']
    ib = iobs['back']
    if mb is None or ib is None:
        if (mb is None) != (ib is None):
            return 'back: one side has no reload'
    elif _is_err(mb):
        if mb['err'] == 'unmodelled':
            pass
        elif not _is_err(ib) or _err_proto(ib) != mb['err']:
            return f"back: impl={json.dumps(ib, default=str)[:200]} model={json.dumps(mb, default=str)[:200]}"
    elif _is_err(ib) or CC.canon_pval(mb) != ib:
        return f"back: impl={json.dumps(ib, default=str)[:300]} model={json.dumps(CC.canon_pval(mb), default=str)[:300]}"
    # the decidable side conditions, computed independently on both sides
    if mobs['serializable'] != CC.serializable_p(case['v']):
        return f"Serializable: model={mobs['serializable']}"
    if mobs['representable'] != (CC.serializable_p(case['v']) and not _haz_codec(case)):
        return f"Representable: model={mobs['representable']} harness={not mobs['representable']}"
    return None


def _gen_codec(rng, n):
    g = CC.Gen(rng)
    for tag, p in CC.directed_values():
        c = {'op': 'codec', 'v': p, '_tags': [tag, 'codec_directed']}
        _tag_codec(c)
        yield c
    for k in range(n):
        r = rng.random()
        tags = []
        if r < 0.70:
            p = g.value(rng.randint(1, 4))
        elif r < 0.82:                                    # something without a spelling, anywhere inside
            p = g.wrap(g.bad_leaf(), 3)
            tags.append('unrepresentable')
        elif r < 0.90:                                    # plain set (typed like a frozenset since 722783a)
            inner = {'t': 'set', 'v': g.distinct([g.hashable(2) for _ in range(rng.randint(0, 4))])}
            p = g.wrap(inner, 2)
        else:                                             # reserved key inside a str-keyed mapping
            p = g.wrap(g.dict_(1, str_keys=True, reserved=True), 2)
        c = {'op': 'codec', 'v': p, '_tags': tags}
        _tag_codec(c)
        yield c


def _tag_codec(c):
    kinds = set()
    CC.kinds_p(c['v'], kinds)
    t = c['_tags']
    for k in ('frac', 'dec', 'tuple', 'fset', 'sdict', 'gdict', 'obj', 'callable'):
        if k in kinds:
            t.append('codec_' + k)
    for h in _feat_codec(c):
        t.append('codec_' + ('plain_set' if h == 'bare_set' else h))
    d = CC.depth_p(c['v'])
    t.append(f'codec_depth_{min(d, 4)}')


# ------------------------------------------------------------------------------------------------ op class_rt
def _impl_class(case):
    import votelib.persist as P
    import props.c19_classes as KL
    obj = KL.build(case['spec'])
    d = _g(lambda: P.to_dict(obj))
    if _is_err(d):
        return {'save': d}
    out = {'save': 'ok'}
    seed = case.get('seed', 0)
    n_in = case.get('n_inputs', 6)
    det = KL.is_deterministic(case['spec'])
    y = _g(lambda: P.from_dict(d))
    out['d'] = _g(lambda: CC.j_of_py(d))
    if _is_err(y):
        out['load'] = y
    else:
        out['load'] = 'ok'
        d2 = _g(lambda: P.to_dict(y))
        out['d_eq'] = (not _is_err(d2)) and CC.same_typed(d2, d)          # 1 is not True is not Fraction(1)
        out['reser'] = d2 if _is_err(d2) else _g(lambda: CC.j_of_py(d2))
    txt = _g(lambda: json.dumps(d))
    if _is_err(txt):
        out['json'] = txt
    else:
        y2 = _g(lambda: P.from_dict(json.loads(txt)))
        if _is_err(y2):
            out['json'] = y2
        else:
            out['json'] = 'ok'
            d3 = _g(lambda: P.to_dict(y2))
            out['json_d_eq'] = (not _is_err(d3)) and json.dumps(d3) == txt
    if det and not case.get('bad'):
        import props.c19_sensitivity as SE
        run = (lambda o: SE.custom_outcomes(KL, case['custom'], o)) if case.get('custom') else (lambda o: KL.outcomes(o, seed, n_in))
        o0 = _g(lambda: run(obj), 30)
        out['n_ok_outcomes'] = 0 if _is_err(o0) else sum(1 for o in o0 if not _is_err(o))

        def differs(other):
            """outcomes of the reloaded copy differ from the original's, reproducibly (an evaluation that depends on the
            iteration order of id-hashed objects is not reproducible even on the original: no C19 matter)"""
            o1 = _g(lambda: run(other), 30)
            if o1 == o0:
                return None
            for _ in range(2):
                if _g(lambda: run(obj), 30) != o0:
                    out['unstable_original'] = True
                    return None
                if _g(lambda: run(other), 30) == o0:
                    out['unstable_original'] = True
                    return None
            return _first_diff(o0, o1)
        if out['load'] == 'ok':
            d1 = differs(y)
            out['out_eq'] = d1 is None
            if d1 is not None:
                out['out_diff'] = d1
        if out.get('json') == 'ok':
            d2 = differs(y2)
            out['json_out_eq'] = d2 is None
            if d2 is not None:
                out['json_out_diff'] = d2
    return out


def _first_diff(a, b):
    if _is_err(a) or _is_err(b) or len(a) != len(b):
        return json.dumps([a, b], default=str)[:300]
    for i, (x, y) in enumerate(zip(a, b)):
        if x != y:
            return f'input {i}: original {json.dumps(x, default=str)[:140]} reloaded {json.dumps(y, default=str)[:140]}'
    return ''


def _oracle_class(case, obs):
    if case.get('bad'):
        if obs['save'] == 'ok':
            return [('not_rejected', 'an unrepresentable configuration was written: ' + json.dumps(obs.get('d'))[:200])]
        return []
    out = []
    if obs['save'] != 'ok':
        return [('save_raises', obs['save']['exc'])]
    if obs['load'] != 'ok':
        out.append(('load_raises', obs['load']['exc']))
    else:
        if not obs['d_eq']:
            out.append(('dict_differs', json.dumps(obs.get('reser'))[:200]))
        if obs.get('out_eq') is False:
            out.append(('outcome_differs', obs.get('out_diff')))
    if out:
        return out                       # the JSON-text path is reported only when the in-memory path is clean
    if obs['json'] != 'ok':
        out.append(('json_raises', obs['json']['exc']))
    else:
        if not obs['json_d_eq']:
            out.append(('json_dict_differs', ''))
        if obs.get('json_out_eq') is False:
            out.append(('json_outcome_differs', obs.get('json_out_diff')))
    return out


def _model_class(case):
    import votelib.persist as P
    import props.c19_classes as KL
    if case.get('identity_keys'):
        return None
    try:
        d = P.to_dict(KL.build(case['spec']))
        j = CC.j_of_py(d)
    except Exception:
        return None
    names = set()
    CC.idents_in_j(j, names)
    return {'op': 'deser', 'j': j, 'env': CC.env_for(names), 'top': True}


def _compare_class(case, iobs, mobs):
    mb = mobs['back']
    if _is_err(mb) and mb['err'] == 'unmodelled':
        return None
    if iobs.get('load') != 'ok':
        # the model has no constructors: a refusal by a class constructor is the oracle's business (load_raises)
        return None
    if _is_err(mb):
        return f"load: impl=ok model={json.dumps(mb)}"
    if _is_err(iobs.get('reser')) or _is_err(mobs['reser']):
        if _is_err(iobs.get('reser')) and _is_err(mobs['reser']):
            return None
        return f"reser: impl={json.dumps(iobs.get('reser'))[:200]} model={json.dumps(mobs['reser'])[:200]}"
    if CC.canon_j(iobs['reser']) != CC.canon_j(mobs['reser']):
        return f"reser: impl={json.dumps(iobs['reser'])[:300]} model={json.dumps(mobs['reser'])[:300]}"
    return None


def _haz_class(case):
    import props.c19_classes as KL
    f = getattr(KL, 'spec_hazards', None)
    return set(f(case['spec'])) if f else set()


def _impl_class_sig(case):
    """the signature fact behind `WFval`: no class writes a constructor parameter under a reserved key"""
    import inspect
    import props.c19_classes as KL
    bad = []
    for name, cls in sorted(KL.discover().items()):
        params = getattr(cls, 'serialize_params', None)
        if params is None:
            params = [p for p in inspect.signature(cls.__init__).parameters if p != 'self']
        bad += [[name, p] for p in params if p in CC.RESERVED]
    return {'n_classes': len(KL.discover()), 'reserved_params': bad}


def _oracle_class_sig(case, obs):
    return [('reserved_param_name', str(obs['reserved_params']))] if obs['reserved_params'] else []


def _gen_sensitive():
    """one witness per (class, optional constructor parameter): a spec with the parameter set and an input seed on which
    the outcome differs from the same object with the parameter at its default (table: c19_sensitivity.json, rebuilt
    with `python harness/props/c19_sensitivity.py --rebuild`).  A to_dict that drops the parameter reloads the default;
    the outcome comparison on exactly this case then fails.  Whether each witness still distinguishes is re-measured."""
    import props.c19_classes as KL
    import props.c19_sensitivity as SE
    for w in SE.load()['found']:
        short = w['cls'].rsplit('.', 1)[1]
        ok = SE.witness_distinguishes(KL, w)
        tags = ['class_rt', 'class_sensitive', f"sens_{short}_{w['param']}"] if ok else ['class_rt', 'sens_lost']
        c = {'op': 'class_rt', 'spec': w['spec'], 'seed': w['seed'], 'n_inputs': SE.N_INPUTS, '_tags': tags}
        if 'inputs' in w:
            c['custom'] = w['inputs']
            c['_tags'].append('class_custom_inputs')
        yield c


def _class_directed_specs():
    """(tag, spec): one callable __name__ living in two registries (quota.imperiali / divisor.imperiali) inside one system nested to
    depth 4, in both orders, by callable and by name; equal values of different types (1, True, Fraction(1), Decimal('1')) in two
    parameters of one object"""
    E = 'votelib.evaluate.'
    O = lambda cls, **a: {'t': 'obj', 'cls': cls, 'args': a}                      # noqa: E731
    I = lambda v: {'t': 'int', 'v': v}                                            # noqa: E731
    Fr = lambda v: {'t': 'frac', 'v': v}                                          # noqa: E731
    De = lambda v: {'t': 'dec', 'v': v}                                           # noqa: E731
    B = lambda v: {'t': 'bool', 'v': v}                                           # noqa: E731
    S = lambda v: {'t': 'str', 'v': v}                                            # noqa: E731
    C = lambda v: {'t': 'callable', 'v': v}                                       # noqa: E731
    L = lambda *v: {'t': 'list', 'v': list(v)}                                    # noqa: E731
    T = lambda *v: {'t': 'tuple', 'v': list(v)}                                   # noqa: E731
    qi, di = C('votelib.component.quota.imperiali'), C('votelib.component.divisor.imperiali')
    for q, d, tag in ((qi, di, 'callable'), (S('imperiali'), S('imperiali'), 'name')):
        ha = O(E + 'proportional.HighestAverages', divisor_function=d)
        lr = O(E + 'proportional.LargestRemainder', quota_function=q)
        qd = O(E + 'proportional.QuotaDistributor', quota_function=q, on_overaward=S('subtract'))
        for rounds in (L(ha, lr), L(lr, ha), L(ha, qd, ha), L(qd, lr, ha)):
            inner = O(E + 'core.MultistageDistributor', rounds=rounds)
            cond = O(E + 'core.Conditioned', eliminator=O(E + 'threshold.RelativeThreshold', threshold=De('0.05')), evaluator=inner)
            yield 'class_same_name_two_registries', O('votelib.VotingSystem', name=S('two registries ' + tag), evaluator=cond)
        yield 'class_same_name_two_registries', O(E + 'core.UnusedVotesDistributor', rounds=L(ha, ha), quota_functions=L(q, q))
        yield 'class_same_name_two_registries', O(E + 'core.ByConstituency', evaluator=lr, apportioner=ha)
        yield 'class_same_name_two_registries', O(E + 'core.ByConstituency', evaluator=ha, apportioner=lr)
    one = [I(1), Fr('1'), De('1'), De('1.0'), B(True)]
    for a in one[:4]:
        for b in one[:4]:
            if a is not b:
                yield 'class_equal_values_different_types', O(E + 'cardinal.STAR', runoff_added_count=I(1), runoff_added_fraction=b,
                                                              truncation=a if a['t'] != 'int' else Fr('0'))
                yield 'class_equal_values_different_types', O('votelib.vote.VoteMagnitudeChecker', bounds=T(a, b))
                yield 'class_equal_values_different_types', O(E + 'cardinal.ScoreVoting', truncation=a, bottom_value=b, min_count=I(1))
                yield 'class_equal_values_different_types', O(E + 'openlist.ThresholdOpenList', jump_fraction=a, quota_function=S('hare'),
                                                              quota_fraction=b, accept_equal=B(True))
    yield 'class_equal_values_different_types', O('votelib.component.rankscore.SequenceBased', sequence=L(*one[:4], I(0), Fr('0'), De('0')))
    yield 'class_equal_values_different_types', O(E + 'sequential.PreferenceAddition', coefficients=L(*one[:3]), split_equal_rankings=B(True))
    for props in ({}, {'properties': {'t': 'dict', 'k': [], 'v': []}}):
        twins = [O('votelib.candidate.PoliticalParty', name=S('E')), O('votelib.candidate.PoliticalParty', name=S('E'), **props)]
        seats = {'t': 'dict', 'k': twins, 'v': [I(0), I(3)]}
        yield 'class_identity_keys', O(E + 'core.PreApportioned', evaluator=O(E + 'core.ByConstituency', evaluator=O(
            E + 'proportional.HighestAverages')), apportioner=seats)
        yield 'class_identity_keys', O(E + 'proportional.BiproportionalEvaluator', apportioner=seats)
    yield 'class_equal_values_different_types', O(E + 'threshold.CoalitionMemberBracketer',
                                                  evaluators={'t': 'dict', 'k': [I(1), I(2)],
                                                              'v': [O(E + 'threshold.RelativeThreshold', threshold=Fr('1'), accept_equal=B(True)),
                                                                    O(E + 'threshold.AbsoluteThreshold', threshold=De('1'), accept_equal=B(True))]},
                                                  default=O(E + 'threshold.AbsoluteThreshold', threshold=I(1)))


def _gen_class_directed(rng):
    import props.c19_classes as KL
    for tag, spec in _class_directed_specs():
        for seed in (rng.randint(0, 10 ** 6), rng.randint(0, 10 ** 6)):
            c = {'op': 'class_rt', 'spec': spec, 'seed': seed, 'n_inputs': 8,
                 '_tags': ['class_rt', 'class_directed', tag, 'cls_depth_%d' % min(KL.spec_depth(spec), 4)]}
            if tag == 'class_identity_keys':
                c['identity_keys'] = True       # two keys of equal content: outside the model's precondition (distinct keys)
            yield c


def _gen_class_mixed_keys(rng):
    """dict parameters whose keys mix types (seeded change C19l): (a) PropertyBracketer inside Conditioned(…, HighestAverages) with
    thresholds keyed by str together with int / None / bool / tuple, on parties whose outcome depends on the non-str key (custom
    inputs 'property_kind'); (b) for EVERY class that has a dict parameter of its own, a generated spec with a key of another type
    added to each of its dicts; (c) the same on random specs (see _gen_class)"""
    import props.c19_classes as KL
    E = 'votelib.evaluate.'
    O = lambda cls, **a: {'t': 'obj', 'cls': cls, 'args': a}                      # noqa: E731
    S = lambda v: {'t': 'str', 'v': v}                                            # noqa: E731
    thr = lambda f: O(E + 'threshold.RelativeThreshold', threshold={'t': 'frac', 'v': f})      # noqa: E731
    M = KL.MIX_KEYS
    none = {'t': 'none'}
    for keys, vals in (([S('minority'), M['int']], [none, thr('1/10')]), ([S('minority'), M['none']], [none, thr('1/10')]),
                       ([S('minority'), M['bool']], [none, thr('1/10')]), ([S('minority'), M['tuple']], [none, thr('1/10')]),
                       ([M['int'], M['none'], S('x')], [thr('1/10'), thr('1/12'), none]),
                       ([M['int'], M['none']], [thr('1/10'), thr('1/12')]),
                       ([S('minority'), M['int'], M['none'], M['bool'], M['tuple']], [none, thr('1/10'), thr('1/12'), thr('1/11'), thr('1/9')])):
        pb = O(E + 'threshold.PropertyBracketer', property=S('kind'), evaluators={'t': 'dict', 'k': keys, 'v': vals}, default=thr('1/20'))
        for spec in (O(E + 'core.Conditioned', eliminator=pb, evaluator=O(E + 'proportional.HighestAverages', divisor_function=S('d_hondt'))),
                     O('votelib.VotingSystem', name=S('Assembly'), evaluator=O(E + 'core.FixedSeatCount', n_seats={'t': 'int', 'v': 10}, evaluator=O(
                         E + 'core.Conditioned', eliminator=pb, evaluator=O(E + 'proportional.HighestAverages', divisor_function=S('d_hondt'))))),
                     pb):
            yield {'op': 'class_rt', 'spec': spec, 'seed': 0, 'custom': 'property_kind',
                   '_tags': ['class_rt', 'class_directed', 'class_mixed_keys', 'class_mixed_keys_outcome', 'class_custom_inputs']}
    for cls in KL.covered():
        for _ in range(40):
            spec = KL.gen_spec(rng, cls, depth=2)
            if any(v.get('t') == 'dict' and v['k'] for v in spec['args'].values()):
                got = KL.mix_keys(spec, rng, own_only=True)
                if got:
                    yield {'op': 'class_rt', 'spec': got[0], 'seed': rng.randint(0, 10 ** 6),
                           '_tags': ['class_rt', 'class_mixed_keys', 'class_mixed_keys_per_class', 'mixed_' + cls.rsplit('.', 1)[1]]
                           + ['mixed_key_' + k for k in got[1]]}
                    break


def _gen_class(rng, n, n_bad):
    import props.c19_classes as KL
    yield {'op': 'class_sig', '_tags': ['class_signatures']}
    yield from _gen_sensitive()
    yield from _gen_class_directed(rng)
    yield from _gen_class_mixed_keys(rng)
    cov = KL.covered()
    order = list(cov)
    rng.shuffle(order)
    for k in range(n):
        cls = order[k % len(order)] if k < 10 * len(order) else None    # every class at least ten times, then free choice
        spec = KL.gen_spec(rng, cls, depth=rng.choice([1, 2, 3, 4, 4]))
        mixed = KL.mix_keys(spec, rng) if rng.random() < 0.25 else None       # keys of mixed types in every dict, at any depth
        if mixed:
            spec = mixed[0]
        c = {'op': 'class_rt', 'spec': spec, 'seed': rng.randint(0, 10 ** 6), '_tags': ['class_rt'] + (['class_mixed_keys'] if mixed else [])}
        c['_tags'] += ['cls_depth_%d' % min(KL.spec_depth(spec), 4)] + ['feat_' + f for f in KL.spec_features(spec)]
        if not KL.is_deterministic(spec):
            c['_tags'].append('nondeterministic')
        yield c
    for k in range(n_bad):
        spec = KL.gen_bad_spec(rng)
        yield {'op': 'class_rt', 'spec': spec, 'bad': True, 'seed': 0, '_tags': ['class_bad']}


# ------------------------------------------------------------------------------------------------ op blt_rt
def _impl_blt_rt(case):
    import votelib.io.blt as blt
    votes, n_seats, cands, title = IO.build_doc(case['doc'])
    text = _g(lambda: blt.dumps(votes, n_seats, cands, title))
    if _is_err(text):
        return {'dump': text}
    loaded = _g(lambda: IO.doc_of_loaded(*blt.loads(text)))
    return {'dump': 'ok', 'text': text, 'lines': IO.blt_tokenise(text), 'loaded': loaded,
            'variants': _text_variants(text, loaded, lambda t: IO.doc_of_loaded(*blt.loads(t)),
                                       lambda f: IO.doc_of_loaded(*blt.load(f)), lambda f: blt.dump(f, votes, n_seats, cands, title))}


def _text_variants(text, base, loads, load, dump):
    """the same file with Windows line ends, without its final newline, and through the file API (load / dump):
    each must give what loads(dumps(...)) gives"""
    import io
    out = {}
    for name, fn in (('crlf', lambda: loads(text.replace('\n', '\r\n'))), ('no_final_newline', lambda: loads(text.rstrip('\n'))),
                     ('load_file', lambda: load(io.StringIO(text))),
                     ('load_file_crlf', lambda: load(io.StringIO(text.replace('\n', '\r\n'), newline='')))):
        got = _g(fn)
        if got != base and not (_is_err(got) and _is_err(base) and got['err'] == base['err']):
            out[name] = got

    def dumped():
        f = io.StringIO()
        dump(f)
        return f.getvalue()
    got = _g(dumped)
    if got != text:
        out['dump_file'] = got if _is_err(got) else {'text': got[:200]}
    return out


def _may_refuse_blt(case):
    """what the BLT form cannot carry: the writer may refuse it (NotSupportedInBLT), it must not alter it.  A negative ballot weight
    would read as a withdrawn-candidates line.  (Not part of the signature: a wrong answer here is an ordinary violation.)"""
    return {'negative_weight'} if any(IO.weight_py(w) < 0 for _, w in case['doc']['ballots']) else set()


def _oracle_rt(case, obs, pre=''):
    exp = IO.expected_doc(case['doc'])
    if obs['dump'] != 'ok':
        if obs['dump']['err'] == 'NotSupportedInFormat' and _may_refuse_rt(case):
            return []                    # refused at save: the honest answer for something the format cannot hold
        return [('dump_raises', obs['dump']['exc'])]
    if _is_err(obs['loaded']):
        return [('load_raises', obs['loaded']['exc'])]
    return IO.diff_docs(exp, obs['loaded'], pre) + _oracle_variants(obs)


def _oracle_variants(obs):
    return [('variant_' + k, f'differs from loads(dumps(...)): {json.dumps(v, default=str)[:160]}') for k, v in sorted(obs.get('variants', {}).items())]


def _may_refuse_rt(case):
    return _may_refuse_blt(case) if case['op'] == 'blt_rt' else _may_refuse_stv(case)


def _model_blt_rt(case):
    d = case['doc']
    return {'op': 'blt_dump', 'doc': {'seats': d['seats'], 'cands': [[n, bool(w)] for n, w, _ in d['cands']],
                                      'ballots': [[idx, IO.weight_model(w)] for idx, w in d['ballots']],
                                      'title': d.get('title')}}


def _compare_blt_rt(case, iobs, mobs):
    if iobs['dump'] != 'ok':
        if 'dump' in mobs and mobs['dump'].get('err') == iobs['dump']['err']:
            return None                  # refused by both (NotSupportedInBLT)
        return f"dump: impl raises {iobs['dump']['exc']}, model {json.dumps(mobs)[:120]}"
    if 'dump' in mobs:
        return f"dump: impl writes a file, model raises {mobs['dump']}"
    if iobs['lines'] is None:
        return None
    lines = iobs['lines']
    if lines and lines[-1] is None:
        lines = lines[:-1]               # dumps() ends the text with a newline: one empty last line
    if lines != mobs['lines']:
        return f"lines: impl={json.dumps(lines)[:300]} model={json.dumps(mobs['lines'])[:300]}"
    if mobs.get('wf') and _oracle_rt(case, iobs):
        return 'the document meets WFdoc (hypothesis of blt_roundtrip) but the implementation does not round-trip it'
    return _cmp_loaded(iobs['loaded'], mobs['loaded'])


def _cmp_loaded(il, ml):
    if _is_err(il) or _is_err(ml):
        if _is_err(il) and _is_err(ml) and il['err'] == ml['err']:
            return None
        return f"loaded: impl={json.dumps(il)[:200]} model={json.dumps(ml)[:200]}"
    if il != ml:
        return f"loaded: impl={json.dumps(il)[:300]} model={json.dumps(ml)[:300]}"
    return None


def _gen_blt_rt(rng, n):
    yield from _gen_quote_hash('blt_rt')
    yield from _gen_structure('blt_rt')
    for k in range(n):
        tags = []
        r = rng.random()
        if r < 0.08:
            doc = IO.gen_doc(rng, weights=('int',))
            if doc['ballots']:
                doc['ballots'][rng.randrange(len(doc['ballots']))][1] = {'k': 'frac', 'v': rng.choice(['1/2', '7/3', '22/7'])}
        elif r < 0.16:                                        # one candidate, with / without title
            doc = IO.gen_doc(rng, max_c=1)
        elif r < 0.3:                                         # withdrawn candidates at every position
            doc = IO.gen_doc(rng, person=True)
            for c in doc['cands']:
                if c[2] == 'person':
                    c[1] = rng.random() < 0.6
        else:
            doc = IO.gen_doc(rng)
        c = {'op': 'blt_rt', 'doc': doc, '_tags': tags}
        _tag_doc(c, 'blt')
        yield c


def _tag_doc(c, pre):
    d = c['doc']
    t = c['_tags']
    t.append(pre + '_rt')
    if any(w for _, w, _ in d['cands']):
        t.append(pre + '_withdrawn')
        if d['cands'][0][1]:
            t.append(pre + '_withdrawn_first')
    if len(d['cands']) == 1:
        t.append(pre + '_one_candidate')
    if d.get('title') is not None:
        t.append(pre + '_title')
    ks = {w['k'] for _, w in d['ballots']}
    for k in ks:
        t.append(pre + '_weight_' + k)
    if any(w['k'] == 'frac' and '/' in w['v'] for _, w in d['ballots']):
        t.append(pre + '_weight_proper_fraction')
    if any(k == 'person' for _, _, k in d['cands']):
        t.append(pre + '_person')
    if any(k == 'str' for _, _, k in d['cands']):
        t.append(pre + '_strname')
    if any(not idx for idx, _ in d['ballots']):
        t.append(pre + '_empty_ballot')
    if any(IO.weight_py(w) < 1 for _, w in d['ballots']):
        t.append(pre + '_weight_below_one')
    for _, w in d['ballots']:
        for f in IO.weight_features(w):
            t.append(f'{pre}_{f}')
    if not d['ballots']:
        t.append(pre + '_zero_ballots')
    if d['cands'] and all(k != 'str' and k != 'int' and w for _, w, k in d['cands']):
        t.append(pre + '_all_withdrawn')
    if len(d['cands']) >= 27:
        t.append(pre + '_27plus_candidates')
    for k in {k for _, _, k in d['cands']}:
        t.append(f'{pre}_cand_{k}')
    names = [n for n, _, _ in d['cands']]
    if len({n.casefold() for n in names}) < len(set(names)):
        t.append(pre + '_names_differ_in_case_only')
    if len({''.join(n.split()) for n in names}) < len(set(names)):
        t.append(pre + '_names_differ_in_whitespace_only')
    if any(not n.isascii() for n in names):
        t.append(pre + '_name_non_ascii')
    if d.get('title') and not d['title'].isascii():
        t.append(pre + '_title_non_ascii')
    if '' in names:
        t.append(pre + '_name_empty')
    for n, _, _ in d['cands']:
        for o in IO.quote_hash_order(n):
            t.append(f'{pre}_name_{o}')
        for o in IO.ws_features(n):
            t.append(f'{pre}_name_{o}')
    for o in IO.ws_features(d.get('title') or ''):
        t.append(f'{pre}_title_{o}')
    for o in IO.quote_hash_order(d.get('title') or ''):
        t.append(f'{pre}_title_{o}')
    for h in _may_refuse_rt(c):
        t.append('may_refuse_' + h)


def _gen_structure(op):
    """directed, on every seed (generator checklist): zero ballots, one candidate, 27+ candidates, everybody withdrawn, candidate kinds
    (str / Person / Person with number and party / bare ints incl. 0), names differing in case or inner white space only, names
    that look like file syntax, non-ASCII names and titles, weights 0 in all three types, huge denominators, Decimal exponents,
    2^53 and above, 10^400, near-equal weights, negative weights"""
    W = lambda k, v: {'k': k, 'v': v}                                               # noqa: E731
    P3 = [['Ann Lee', False, 'person'], ['ann lee', True, 'person_full'], ['Ann  Lee', False, 'person']]
    S3 = [['Ann Lee', False, 'str'], ['ANN LEE', False, 'str'], ['Ann\tLee', False, 'str']]
    many = [[f'Cand {i} {chr(65 + i % 26)}', i % 7 == 0, 'person'] for i in range(30)]
    templates = [
        (P3, [], 'Zero ballots'), (P3[:1], [], None), ([], [], None), ([], [[[], W('int', '2')]], 'No candidates'),
        (S3[:1], [[[0], W('int', '1')], [[], W('int', '1')]], None),
        ([[n, True, 'person'] for n, _, _ in P3], [[[2, 0], W('int', '2')]], 'All withdrawn'),
        ([[n, True, 'person_full'] for n, _, _ in P3], [], None),
        (many, [[list(range(29, -1, -1)), W('int', '3')], [[26, 27, 0], W('dec', '1.5')], [[29], W('int', '1')]], '30 candidates'),
        ([['0', False, 'int'], ['7', False, 'int'], ['3', False, 'int']], [[[0, 2], W('int', '2')], [[1], W('int', '1')]], '0'),
        (S3, [[[0, 1, 2], W('int', '0')], [[1], W('dec', '0')], [[2], W('frac', '0')], [[], W('dec', '0.0')]], 'Zero weights'),
        (P3, [[[0], W('frac', '333333333333/1000000000000')], [[1], W('frac', '333333333334/1000000000000')],
              [[2], W('frac', '1/1000000000000000000000000000007')], [[0, 1], W('dec', '0.1234567')]], 'Élection — 選挙'),
        (S3, [[[0], W('dec', '1E+2')], [[1], W('dec', '1E-30')], [[2], W('dec', '5E-1')]], 'Exponents'),
        (S3, [[[0], W('int', str(2 ** 53 - 1))], [[1], W('int', str(2 ** 53))], [[2], W('int', str(2 ** 53 + 1))],
              [[0, 1], W('int', str(10 ** 400))], [[1, 0], W('int', str(10 ** 400 + 1))], [[2, 1], W('dec', '9007199254740993.5')]], 'Big'),
        ([['Ünal Ö.', False, 'str'], ['ünal ö.', False, 'str'], ['Ωmega', False, 'str'], ['選挙 太郎', False, 'str']],
         [[[0, 1], W('int', '2')], [[3], W('int', '1')]], 'Gemeinderat — 選挙'),
        ([['end', False, 'str'], ['3X', False, 'str'], ['ballots=blt', False, 'str'], ['0', False, 'str'], ['title', False, 'str']],
         [[[0], W('int', '1')], [[1, 0], W('int', '1')], [[3], W('int', '2')]], 'end'),
        ([['', False, 'str'], ['Bo', False, 'str']], [[[0, 1], W('int', '2')], [[0], W('int', '1')]], ''),
        ([['', True, 'person'], ['Bo', False, 'person']], [[[1, 0], W('int', '2')]], None),
        (S3, [[[0, 1], W('int', '-3')], [[1], W('int', '2')]], 'Negative int'),
        (S3, [[[0, 1], W('frac', '-1/2')], [[1], W('int', '2')]], 'Negative fraction'),
        (S3, [[[0, 1], W('dec', '-0.5')], [[1], W('int', '2')]], 'Negative decimal'),
    ]
    sys_own = {'quota': 'droop', 'mandatory': False, 'random': None, 'seats': 'fixed', 'wrap': True}
    for cands, ballots, title in templates:
        modes = [None] if op == 'blt_rt' else [None, sys_own]
        for sysd in modes:
            doc = {'seats': min(2, max(len(cands), 1)), 'cands': json.loads(json.dumps(cands)), 'ballots': json.loads(json.dumps(ballots)),
                   'title': title}
            c = {'op': op, 'doc': doc, '_tags': ['structure_directed']}
            if op == 'stv_rt':
                c['sys'] = dict(sysd) if sysd else None
                if sysd is None:
                    doc['title'] = None
            _tag_doc(c, 'blt' if op == 'blt_rt' else 'stv')
            if op == 'stv_rt':
                c['_tags'].append('stv_blt_mode' if sysd is None else 'stv_own_mode')
            yield c


def _gen_quote_hash(op):
    """directed, on every seed: names and titles with double quotes and hash signs in every order — as string candidates and
    Person objects, withdrawn or not, with and without title; and every text of length <= 4 over {a, ", #, space}"""
    sysd = None
    k = 0
    for name in IO.NAMES_QUOTE_HASH:
        for title in (None, IO.TITLES_QUOTE_HASH[k % len(IO.TITLES_QUOTE_HASH)]):
            k += 1
            kind = 'str' if k % 2 else 'person'
            doc = {'seats': 1, 'cands': [[name, kind == 'person' and k % 3 == 0, kind], ['Eve', False, kind]],
                   'ballots': [[[0, 1], {'k': 'int', 'v': '2'}], [[1], {'k': 'dec', 'v': '1.5'}]], 'title': title}
            if op == 'stv_rt':
                doc['title'] = None
            c = {'op': op, 'doc': doc, '_tags': ['quote_hash_directed']}
            if op == 'stv_rt':
                c['sys'] = sysd
            _tag_doc(c, 'blt' if op == 'blt_rt' else 'stv')
            if op == 'stv_rt':
                c['_tags'].append('stv_blt_mode')
            yield c
    for t in IO.TITLES_QUOTE_HASH:
        doc = {'seats': 2, 'cands': [['Al', False, 'str'], ['Bo', False, 'str']], 'ballots': [[[1, 0], {'k': 'int', 'v': '1'}]], 'title': t}
        if op == 'blt_rt':
            c = {'op': op, 'doc': doc, '_tags': ['quote_hash_directed']}
            _tag_doc(c, 'blt')
            yield c
    if op == 'blt_rt':
        for n in range(1, 5):
            for chars in itertools.product('a"# ', repeat=n):
                s = ''.join(chars)
                doc = {'seats': 1, 'cands': [[s, False, 'person'], ['Z', True, 'person']], 'ballots': [[[0], {'k': 'int', 'v': '1'}]],
                       'title': s if n % 2 else None}
                c = {'op': op, 'doc': doc, '_tags': ['quote_hash_alphabet']}
                _tag_doc(c, 'blt')
                yield c


# ------------------------------------------------------------------------------------------------ op blt_text
def _impl_blt_text(case):
    import votelib.io.blt as blt
    kw = {'oneplus_weights': True} if case.get('oneplus') else {}
    return {'loaded': _g(lambda: IO.doc_of_loaded(*blt.loads(case['text'], **kw)))}


def _oracle_blt_text(case, obs):
    got = obs['loaded']
    if _is_err(got) and got['err'] != 'ParseError':
        return [('raises_' + got['exc'], 'a text that is not a BLT file must raise BLTParseError')]
    try:
        ref = IO.ref_blt(case['text'], bool(case.get('oneplus')))
    except IO.Invalid as e:
        if not _is_err(got):
            return [('accepted_invalid', f'{e}; returned {json.dumps(got)[:200]}')]
        return []
    except IO.Unspecified:
        return []
    if _is_err(got):
        return [('rejected_valid', f'reference reads {json.dumps(ref)[:200]}')]
    return IO.diff_docs(ref, got, '')


def _model_blt_text(case):
    lines = IO.blt_tokenise(case['text'])
    if lines is None:
        return None
    return {'op': 'blt_load', 'lines': lines, 'oneplus': bool(case.get('oneplus'))}


def _compare_blt_text(case, iobs, mobs):
    return _cmp_loaded(iobs['loaded'], mobs['loaded'])


BLT_HANDMADE = [
    '', '\n', '3 1', '3 1\n0\n', '2 1\n1 1 2 0\n0\n"A"\n"B"\n"T"\n', '2 1\n1 1 2 0\n0\n"A"\n', '2 1\n1 1 2 0\n0\n"A"\n"B"\n"C"\n"D"\n',
    '2 1\n-2\n1 1 0\n0\n', '2 1\n1 1 0\n-2\n0\n', '2 1\n1 3 0\n0\n', '2 1\n1 0 2 0\n0\n', '2 1\nabc 1 0\n0\n', '2 1\n1 ² 0\n0\n',
    '2 1\nnan 1 0\n0\n', '2 1\n1.5 1 0\n2.5 1 0\n0\n', '2 1\n1 1 2\n0\n', '2 x\n0\n', '1 1\n1 1 0\n0\n"solo"\n', '0 1\n0\n"T"\n',
    '2 1\n1 1 0\n0\n"A"\n\n"B"\n', '2 1 # two candidates\n1 1 0 # a vote\n0 # end\n"A" # first\n"B"\n"T # not a comment"\n',
    '2 1\n1 1 0\n0\nA\nB\n', '2 1\n1 1 0\n', '2 1\n"A"\n', '2 1\n1 2 1 0\n1 2 1 0\n3 1 0\n0\n', '2 1\n1 1 1 0\n0\n', '2 1\n0.0\n', '2 1\n5\n0\n',
    '² 1\n0\n', '2 1\n-1 -2\n0\n', '2 1\n-3\n0\n',
]


# ------------------------------------------------------------------------------------------------ op blt_clean
def _impl_blt_clean(case):
    import votelib.io.blt as blt
    return {'clean': _g(lambda: blt._clean_line(case['line']))}


def _oracle_blt_clean(case, obs):
    """where a comment starts: never inside the string line the writer produces; at the first hash of a line without quotes"""
    line = case['line'].strip()
    got = obs['clean']
    if _is_err(got):
        return [('clean_raises', got['exc'])]
    if len(line) >= 2 and line.startswith('"') and line.endswith('"'):
        return [] if got == line else [('written_string_cut', f'{line!r} -> {got!r}')]
    if '"' not in line:
        want = line.split('#', 1)[0].strip()
        return [] if got == want else [('comment_start', f'{line!r} -> {got!r}, expected {want!r}')]
    return []


def _compare_blt_clean(case, iobs, mobs):
    if iobs['clean'] != mobs['clean']:
        return f"clean: impl={iobs['clean']!r} model={mobs['clean']!r}"
    return None


def _gen_blt_clean(rng, n):
    for k in range(1, 6):
        for chars in itertools.product('a"# ', repeat=k):
            yield {'op': 'blt_clean', 'line': ''.join(chars), '_tags': ['blt_clean', 'blt_clean_exhaustive']}
    for name in IO.NAMES_QUOTE_HASH + IO.TITLES_QUOTE_HASH:
        for tail in ('', '  # comment', ' # a "quoted" comment', '#x'):
            yield {'op': 'blt_clean', 'line': f'  "{name}"{tail} ', '_tags': ['blt_clean', 'blt_clean_directed']}
    for _ in range(n):
        line = ''.join(rng.choice('ab12 \t"#"#.-') for _ in range(rng.randint(0, 14)))
        yield {'op': 'blt_clean', 'line': line, '_tags': ['blt_clean']}


def _gen_blt_text(rng, n):
    import votelib.io.blt as blt
    for t in BLT_HANDMADE:
        yield {'op': 'blt_text', 'text': t, '_tags': ['blt_text', 'mut_handmade'], '_origin': 'handmade'}
    for t in ('2 1\n0.5 1 0\n0\n', '2 1\n1 1 0\n1/2 2 0\n0\n', '2 1\n0 1 0\n0\n', '2 1\n1 1 0\n2.5 2 1 0\n0\n"A"\n"B"\n',
              '2 1\n0.5 1\n0\n', '2 1\n1 1 0\n0.999999999999 2 0\n'):
        yield {'op': 'blt_text', 'text': t, 'oneplus': True, '_tags': ['blt_text', 'blt_oneplus', 'blt_oneplus_directed'], '_origin': 'handmade'}
    for t in ('2 1\n6 1 0\n1E-30 1 0\n0\n', '2 1\n1.5 1 0\n1/2 1 0\n0\n', '2 1\n1/2 1 0\n1.5 1 0\n2 1 0\n0\n', '2 1\n2 1 2 0\n3 1 2 0\n1/3 1 2 0\n0\n',
              '3 1\n0.1 3 0\n0.2 3 0\n0.3 3 0\n1 1 0\n0\n', '2 1\n9007199254740993 1 0\n0.5 1 0\n0\n',
              # Decimal + Decimal beyond the 28 digits of the context, in both orders of magnitude
              '2 1\n6.5 1 0\n1E-30 1 0\n0\n', '2 1\n0.1 1 0\n1E+30 1 0\n0.2 1 0\n0\n', '2 1\n1E-30 2 1 0\n6.5 2 1 0\n1E-30 2 1 0\n0\n'):
        yield {'op': 'blt_text', 'text': t, '_tags': ['blt_text', 'text_repeated_ballot'], '_origin': 'repeated_ballot'}
    for t in BLT_HANDMADE[4:12]:
        for kind, v in (('crlf', t.replace('\n', '\r\n')), ('bom', '\ufeff' + t), ('no_final_newline', t.rstrip('\n'))):
            yield {'op': 'blt_text', 'text': v, '_tags': ['blt_text', 'mut_' + kind, 'text_variant_directed'], '_origin': kind}
    for k in range(n):
        doc = IO.gen_doc(rng, weights=('int', 'dec', 'frac'), big=False)
        votes, n_seats, cands, title = IO.build_doc(doc)
        text = blt.dumps(votes, n_seats, cands, title)
        kinds = []
        for _ in range(rng.choice([1, 1, 1, 2])):
            text, kind = IO.mutate_text(rng, text)
            kinds.append(kind)
        if IO.huge_header(text):
            continue
        if rng.random() < 0.2:        # the reader option oneplus_weights=True: weights below 1 are not a valid file
            yield {'op': 'blt_text', 'text': text, 'oneplus': True, '_tags': ['blt_text', 'blt_oneplus'] + ['mut_' + x for x in kinds],
                   '_origin': '+'.join(kinds)}
            continue
        yield {'op': 'blt_text', 'text': text, '_tags': ['blt_text'] + ['mut_' + x for x in kinds], '_origin': '+'.join(kinds)}


# ------------------------------------------------------------------------------------------------ op stv_rt
def _build_system(sysd, doc):
    import votelib
    import votelib.convert
    import votelib.evaluate
    import votelib.evaluate.auxiliary as aux
    from votelib.evaluate.sequential import TransferableVoteSelector
    if sysd is None:
        return None
    ev = TransferableVoteSelector(quota_function=sysd.get('quota', 'droop'), mandatory_quota=bool(sysd.get('mandatory')))
    rnd = sysd.get('random')
    if rnd is not None:
        tb = aux.CandidateNumberRanker() if rnd == 'non' else aux.Sortitor(seed=int(rnd))
        ev = votelib.evaluate.TieBreaking(ev, votelib.evaluate.PreConverted(votelib.convert.RankedToPresenceCounts(), tb))
    if sysd.get('seats') == 'fixed':
        ev = votelib.evaluate.FixedSeatCount(ev, doc['seats'])
    if sysd.get('wrap', True):
        ev = votelib.VotingSystem(doc.get('title'), ev)
    return ev


def _stv_summary(system):
    """title, seats, quota, mandatory flag and tie-break setting of a loaded system (what the model's Summary holds)"""
    import votelib.evaluate
    import votelib.evaluate.auxiliary as aux
    import votelib.component.quota as vq
    from votelib.evaluate.sequential import TransferableVoteSelector
    out = {'title': system.name, 'seats': None, 'quota': None, 'mandatory': None, 'random': None}
    ev = system.evaluator
    for _ in range(6):
        if isinstance(ev, votelib.evaluate.FixedSeatCount):
            out['seats'] = str(ev.n_seats)
            ev = ev.evaluator
        elif isinstance(ev, votelib.evaluate.TieBreaking):
            tb = ev.tiebreaker
            tb = getattr(tb, 'evaluator', tb)
            out['random'] = str(tb.seed) if isinstance(tb, aux.Sortitor) else 'non'
            ev = ev.main
        elif isinstance(ev, TransferableVoteSelector):
            qf = ev._inner.quota_function
            name = getattr(qf, '__name__', None)
            out['quota'] = {'name': name} if name in vq.QUOTAS and vq.QUOTAS[name] is qf else {'const': str(qf.quota)}
            out['mandatory'] = bool(ev._inner.mandatory_quota)
            break
        elif isinstance(ev, votelib.evaluate.UnknownEvaluator):        # method=blt
            out['quota'] = 'unknown'
            out['mandatory'] = False
            break
        else:
            return None
    return out


def _stv_loaded(votes, system, cands):
    import votelib.evaluate
    ev = system.evaluator
    seats = None
    for _ in range(6):
        if isinstance(ev, votelib.evaluate.FixedSeatCount):
            seats = ev.n_seats
            break
        ev = getattr(ev, 'evaluator', None) or getattr(ev, 'main', None)
        if ev is None:
            break
    doc = IO.doc_of_loaded(dict(votes), seats, cands, system.name)
    doc['system'] = _stv_summary(system)
    return doc


def _impl_stv_rt(case):
    import votelib.io.stv as stv
    import warnings
    doc = case['doc']
    votes, n_seats, cands, title = IO.build_doc(doc)
    sysd = case.get('sys')
    system = _build_system(sysd, doc)
    n_arg = n_seats if (sysd is None or sysd.get('seats') == 'arg') else None

    def dump():
        with warnings.catch_warnings():
            warnings.simplefilter('ignore')
            return stv.dumps(votes, system, cands, n_arg)
    text = _g(dump)
    if _is_err(text):
        return {'dump': text}
    loaded = _g(lambda: _stv_loaded(*stv.loads(text)))

    def dump_file(f):
        with warnings.catch_warnings():
            warnings.simplefilter('ignore')
            stv.dump(f, votes, system, cands, n_arg)
    return {'dump': 'ok', 'text': text, 'loaded': loaded,
            'variants': _text_variants(text, loaded, lambda t: _stv_loaded(*stv.loads(t)), lambda f: _stv_loaded(*stv.load(f)), dump_file)}


def _expected_stv(case):
    exp = IO.expected_doc(case['doc'])
    sysd = case.get('sys')
    if sysd is None:
        exp['title'] = None
    else:
        if not sysd.get('wrap', True):
            exp['title'] = None
        if sysd.get('seats') not in ('fixed', 'arg'):
            exp['seats'] = None
    return exp


def _initials(name):
    return ''.join(part[0].lower() for part in __import__('re').split(r'\W', name) if part)


def _haz_stv(case):
    """texts the `key=value` header lines of the STV form cannot carry: the writer may refuse them (NotSupportedInSTV),
    it must not alter them"""
    doc, sysd = case['doc'], case.get('sys')
    h = set()
    if sysd is not None:
        for n, _, _ in doc['cands']:
            if not n.strip():
                h.add('name_blank')
            elif '#' in n:
                h.add('name_hash')
            elif n != n.strip():
                h.add('name_ws_edge')
        if sysd.get('wrap', True):
            t = doc.get('title')
            if t is None:
                pass
            elif '#' in t:
                h.add('title_hash')
            elif t != t.strip():
                h.add('title_ws_edge')
    return h


def _may_refuse_stv(case):
    """... and a negative ballot weight, in the own format ('-3X a b' is not a multiplier) as in BLT mode"""
    return _haz_stv(case) | _may_refuse_blt(case)


def _oracle_stv_rt(case, obs):
    if obs['dump'] != 'ok':
        if obs['dump']['err'] == 'NotSupportedInFormat' and _may_refuse_stv(case):
            return []
        return [('dump_raises', obs['dump']['exc'])]
    if _is_err(obs['loaded']):
        return [('load_raises', obs['loaded']['exc'])]
    return IO.diff_docs(_expected_stv(case), obs['loaded'], '') + _oracle_variants(obs)


def _model_stv_rt(case):
    if case.get('sys') is None:          # BLT mode: method=blt, ballots=blt, then the BLT writer without a title
        m = _model_blt_rt(case)
        m['op'] = 'stv_dump_blt'
        return m
    d, sysd = case['doc'], case['sys']
    tree = {'tv': [True, True, True], 'quota': sysd.get('quota', 'droop'), 'mandatory': bool(sysd.get('mandatory'))}
    rnd = sysd.get('random')
    if rnd is not None:
        tree = {'tie': tree, 'tb': {'pre': True, 'inner': 'order' if rnd == 'non' else {'sortitor': int(rnd)}}}
    if sysd.get('seats') == 'fixed':
        tree = {'fixed': d['seats'], 'e': tree}
    if sysd.get('wrap', True):
        t = d.get('title')
        tree = {'voting': None if t is None else IO.stv_sval(t), 'e': tree,
                'title_ok': t is None or IO.stv_carriable(t)}
    line = {'op': 'stv_dump', 'sys': tree, 'names_ok': all(IO.stv_carriable(n, False) for n, _, _ in d['cands']),
            'doc': {'cands': [[n, bool(w), IO.stv_initials(n)] for n, w, _ in d['cands']],
                    'ballots': [[idx, IO.stv_weight_model(w)] for idx, w in d['ballots']]}}
    if sysd.get('seats') == 'arg':
        line['seats_arg'] = d['seats']
    return line


def _strip_trailing_blank(lines):
    lines = list(lines)
    while lines and lines[-1] is None:
        lines.pop()
    return lines


def _stv_section(loaded):
    if _is_err(loaded):
        return loaded
    return {'cands': loaded['cands'], 'ballots': loaded['ballots'], 'system': loaded.get('system')}


def _compare_stv_rt(case, iobs, mobs):
    if iobs['dump'] != 'ok':
        if 'dump' in mobs and mobs['dump'].get('err') == iobs['dump']['err']:
            return None
        return f"dump: impl raises {iobs['dump']['exc']}, model {json.dumps(mobs)[:120]}"
    tk = IO.stv_tokenise(iobs['text'])
    if tk is None:
        return None
    if 'dump' in mobs:
        return f"dump: impl writes a file, model raises {mobs['dump']}"
    hdr = [h for h in tk[0] if h is not None]
    if hdr != mobs['hdr']:
        return f"header lines: impl={json.dumps(hdr)[:300]} model={json.dumps(mobs['hdr'])[:300]}"
    if case.get('sys') is None:
        lines = IO.stv_blt_rest(iobs['text'])
        if lines is None:
            return None
        if lines and lines[-1] is None:
            lines = lines[:-1]
        if lines != mobs['lines']:
            return f"BLT lines: impl={json.dumps(lines)[:300]} model={json.dumps(mobs['lines'])[:300]}"
        if mobs.get('wf') and _oracle_stv_rt(case, iobs):
            return 'the document meets WFdoc (hypothesis of stv_blt_mode_roundtrip) but the implementation does not round-trip it'
        return _cmp_loaded(_stv_section(iobs['loaded']), mobs['loaded'])
    if _strip_trailing_blank(tk[1]) != mobs['votes']:
        return f"ballot lines: impl={json.dumps(tk[1])[:300]} model={json.dumps(mobs['votes'])[:300]}"
    if mobs.get('wf') and [c for c, _ in _oracle_stv_rt(case, iobs) if c not in ('title_differ', 'seats_differ')]:
        return 'the document meets wfStv (hypothesis of stv_roundtrip) but the implementation does not round-trip its section'
    return _cmp_loaded(_stv_section(iobs['loaded']), mobs['loaded'])


def _model_stv_text(case):
    tk = IO.stv_tokenise(case['text'])
    blt = IO.stv_blt_rest(case['text'])
    if tk is None or blt is None:
        return None
    return {'op': 'stv_load', 'hdr': tk[0], 'votes': tk[1], 'blt': blt, 'cls': IO.stv_cls(case['text'])}


def _compare_stv_text(case, iobs, mobs):
    ml = mobs['loaded']
    return _cmp_loaded(_stv_section(iobs['loaded']), ml)


STV_HAZ_NAMES = {'name_hash': ['Al #1', 'C# Major'], 'name_ws_edge': [' Al', 'Bo ', '\tCy'], 'name_no_initials': ['???', '-', '...'], 'name_blank': ['', ' '],
                 'nick_end': ['Ed N. Dav']}


def _gen_stv_many(rng):
    """duplicate initials with 25-30 and 677 candidates: ordinal nicknames of one, two and three letters"""
    for n in (25, 26, 27, 30, 677):
        cands = [[f'Al B{chr(97 + i % 26)}{i}', False, 'person'] for i in range(n)]
        ballots = [[[n - 1, 0, n // 2], {'k': 'int', 'v': '2'}], [[25 % n], {'k': 'int', 'v': '1'}], [[n - 3, n - 2], {'k': 'frac', 'v': '1/2'}]]
        doc = {'seats': 2, 'cands': cands, 'ballots': ballots, 'title': 'Many'}
        c = {'op': 'stv_rt', 'doc': doc, 'sys': {'quota': 'droop', 'mandatory': False, 'random': None, 'seats': 'fixed', 'wrap': True},
             '_tags': ['stv_many_candidates']}
        _tag_doc(c, 'stv')
        c['_tags'] += ['stv_own_mode', 'stv_duplicate_initials']
        yield c


def _gen_stv_below_one(rng):
    """weights below 1 (and 0) in the own format: the multiplier must be written for every weight other than 1"""
    sysd = {'quota': 'droop', 'mandatory': False, 'random': None, 'seats': 'fixed', 'wrap': True}
    for ws in ([{'k': 'frac', 'v': '1/2'}, {'k': 'int', 'v': '2'}], [{'k': 'dec', 'v': '0.25'}, {'k': 'dec', 'v': '4.25'}],
               [{'k': 'int', 'v': '0'}, {'k': 'frac', 'v': '7/3'}], [{'k': 'frac', 'v': '99/100'}, {'k': 'int', 'v': '1'}]):
        doc = {'seats': 1, 'cands': [['Ann Alba', False, 'str'], ['Bob Bell', False, 'str'], ['Cy Cole', False, 'person']],
               'ballots': [[[1, 0], ws[0]], [[0, 2], ws[1]], [[2], {'k': 'int', 'v': '3'}]], 'title': 'Below one'}
        c = {'op': 'stv_rt', 'doc': doc, 'sys': dict(sysd), '_tags': []}
        _tag_doc(c, 'stv')
        c['_tags'] += ['stv_own_mode']
        yield c


def _gen_stv_rt(rng, n):
    yield from _gen_quote_hash('stv_rt')
    yield from _gen_structure('stv_rt')
    yield from _gen_stv_many(rng)
    yield from _gen_stv_below_one(rng)
    plain = [x for x in IO.NAMES_PLAIN + IO.NAMES_RICH + IO.NAMES_CLASH if '#' not in x and x == x.strip() and x]
    for k in range(n):
        r = rng.random()
        if r < 0.3:
            doc = IO.gen_doc(rng, names=plain, title='-')
            c = {'op': 'stv_rt', 'doc': doc, 'sys': None, '_tags': []}
            if rng.random() < 0.15 and doc['ballots']:
                doc['ballots'][0][1] = {'k': 'frac', 'v': '5/3'}
        else:
            sysd = {'quota': rng.choice(['droop', 'hare']), 'mandatory': rng.random() < 0.3,
                    'random': rng.choice([None, None, 'non', 7, 123]), 'seats': rng.choice(['fixed', 'arg', None]),
                    'wrap': rng.random() < 0.7}
            doc = IO.gen_doc(rng, names=plain, title=rng.choice(['Council', 'A B', 'x=y', 'T', 'Ward\u00a03   East', 'A\t\tB']), weights=('int', 'dec', 'frac'))
            # weights the STV own format spells: n, n.d, p/q
            for b in doc['ballots']:
                if rng.random() < 0.25:
                    b[1] = {'k': 'frac', 'v': rng.choice(['1/2', '7/3'])}
            haz = rng.choice([None, None, None, 'name', 'name', 'empty_ballot_w1', 'weight_spelling', 'title_none', 'title_hash',
                              'title_ws_edge', 'nick_end'])
            if haz == 'name' and doc['cands']:
                kind = rng.choice(['name_hash', 'name_ws_edge', 'name_no_initials', 'name_blank'])
                doc['cands'][rng.randrange(len(doc['cands']))][0] = rng.choice(STV_HAZ_NAMES[kind])
            elif haz == 'nick_end' and doc['cands']:
                i = rng.randrange(len(doc['cands']))
                doc['cands'][i][0] = 'Ed N. Dav'
                doc['ballots'] = [b for b in doc['ballots'] if b[0] != [i]] + [[[i], {'k': 'int', 'v': '1'}]]
            elif haz == 'empty_ballot_w1':
                doc['ballots'] = [b for b in doc['ballots'] if b[0]] + [[[], {'k': 'int', 'v': '1'}]]
            elif haz == 'weight_spelling' and doc['ballots']:
                doc['ballots'][0][1] = {'k': 'dec', 'v': rng.choice(['1E+2', '5E-1'])}
            elif haz == 'title_none':
                doc['title'] = None
                sysd['wrap'] = True
            elif haz == 'title_hash':
                doc['title'] = 'Ward #3'
                sysd['wrap'] = True
            elif haz == 'title_ws_edge':
                doc['title'] = ' Ward 3 '
                sysd['wrap'] = True
            # names must stay distinct for string candidates
            if len({x[0] for x in doc['cands']}) != len(doc['cands']):
                continue
            c = {'op': 'stv_rt', 'doc': doc, 'sys': sysd, '_tags': []}
        _tag_doc(c, 'stv')
        c['_tags'].append('stv_blt_mode' if c['sys'] is None else 'stv_own_mode')
        if c['sys'] is not None:
            inits = [_initials(x[0]) for x in doc['cands']]
            if len(set(inits)) != len(inits):
                c['_tags'].append('stv_duplicate_initials')
            t = c['_tags']
            if c['sys'].get('wrap', True) and doc.get('title') is None:
                t.append('stv_title_none')
            if any(not idx and IO.weight_py(w) == 1 for idx, w in doc['ballots']):
                t.append('stv_empty_ballot_w1')
            if 'end' in inits and any(idx == [inits.index('end')] and IO.weight_py(w) == 1 for idx, w in doc['ballots']):
                t.append('stv_nick_end')
            if any(x[0].strip() and not _initials(x[0]) for x in doc['cands']):
                t.append('stv_name_no_initials')
            if any(w['k'] == 'dec' and 'E' in w['v'] for _, w in doc['ballots']):
                t.append('stv_decimal_exponent')
            if _may_refuse_stv(c):
                t.append('stv_writer_must_refuse')
        yield c


# ------------------------------------------------------------------------------------------------ op stv_text
def _impl_stv_text(case):
    import votelib.io.stv as stv
    return {'loaded': _g(lambda: _stv_loaded(*stv.loads(case['text'])))}


def _oracle_stv_text(case, obs):
    got = obs['loaded']
    if _is_err(got) and got['err'] not in ('ParseError', 'NotImplementedError'):
        return [('raises_' + got['exc'], 'a text that is not an STV file must raise STVParseError')]
    if not _is_err(got) and any(i < 0 for b in got['ballots'] for i in b[0]):
        return [('ballot_candidate_not_listed', 'a returned ballot names a candidate object that is not in the returned candidate list')]
    exp = case.get('expect')
    if exp is not None:                  # a file written by the harness itself (ordered format): candidates and ballots are known
        if _is_err(got):
            return [('rejected_valid', f"{got['exc']}: expected {json.dumps(exp)[:160]}")]
        out = []
        if got['cands'] != exp['cands']:
            out.append(('names_differ', f"{exp['cands']} -> {got['cands']}"))
        if not IO.same_ballots(exp['ballots'], got['ballots']):
            out.append(('ballots_differ', f"{exp['ballots']} -> {got['ballots']}"))
        return out
    return []


STV_HANDMADE = [
    '', 'method=BC\nquota=droop\ncandidate=a\nballots=0\nend\n', 'method=BC\nquota=droop\nfoo=bar\nballots=0\nend\n',
    'method=BC\nquota=droop\nseats=1\nseats=2\nballots=0\nend\n', 'method=BC\nquota=droop\nrandom=1\nrandom=2\nballots=0\nend\n',
    'method=BC\nquota=droop\ncandidate=a A\norder=a\nballots=1\n1 2\nend\n', 'method=BC\nquota=droop\ncandidate=a A\norder=a\nballots=1\n-\nend\n',
    'method=BC\nquota=droop\ncandidate=a A\norder=b\nballots=0\nend\n', 'method=blt\nballots=blt\n2 1\nabc 1 0\n0\n',
    'method=blt\nballots=blt\n2 1\n1 5 0\n0\n', 'method=meek\nquota=droop\nballots=0\nend\n', 'method=BC\nballots=0\nend\n',
    'quota=droop\nballots=0\nend\n', 'method=BC\nquota=droop\ncandidate=a A\nballots=1\nb\nend\n', 'method=BC\nquota=droop\ncandidate=a A\nballots=2\na\nend\n',
    'method=BC\nquota=droop\ncandidate=a A\nballots=1\na\n', 'method=BC\nquota=droop\nballots=x\nend\n', 'method=BC\nquota=²\nballots=0\nend\n',
    'method=BC\nquota=droop\nballots=²\nend\n', 'method=BC\nquota=nosuch\nballots=0\nend\n', 'no equals sign\n',
    'method=BC\nquota=droop\nquota=hare\nquota=mandatory\nballots=0\nend\n', 'method=BC\nquota=droop\ntitle=a\ntitle=b\nballots=0\nend\n',
    'method=BC\nquota=droop\ncandidate=a A\nballots=1\nzX a\nend\n', 'method=BC\nquota=droop\ncandidate=a A\nballots=1\n1/0X a\nend\n',
    'method=BC\nquota=droop\nseats=x\nballots=0\nend\n', 'method=BC\nquota=droop\nrandom=x\nballots=0\nend\n',
    # nicknames that differ in case only, a nickname used before it is declared in another case
    'method=BC\nquota=droop\ncandidate=a Ann\ncandidate=A Bob\nballots=3\na A\n2X A\nA a\nend\n',
    'method=BC\nquota=droop\ncandidate=ab Ann\nballots=1\nAB\nend\n', 'method=BC\nquota=droop\ncandidate=x Ann\nballots=1\nX\nend\n',
    # white space runs inside names and titles stay as they are; between nickname and name any run separates
    'method=BC\nquota=droop\ntitle=Ward\u00a03   East\ncandidate=al   Ann   Lee\ncandidate=b \t Bo\t\tRay \nwithdrawn=c\u00a0Cy\u00a0 \u00a0Vee\nballots=2\nal b\n2X c\nend\n',
    'method=blt\nballots=blt\n2 1\n1 1 2 0\n0\n"Ann   Lee"\n"Bo\t\u00a0Ray"\n"Ward\u00a03   East"\n',
]
STV_HEADER_JUNK = ['foo=bar', 'candidate=a', 'candidate=', 'withdrawn=x', 'seats=1', 'seats=x', 'random=1', 'random=x', 'quota=hare',
                   'quota=mandatory', 'method=BC', 'title=T', 'order=a b', 'order=zz', 'ballots=3', 'ballots=blt', '=', 'x', 'quota=7']


STV_ORDERED_HANDMADE = [
    # the order line: repeated, empty (= unordered), unknown nickname, a nickname twice, fewer nicknames than candidates
    'method=BC\nquota=droop\ncandidate=a A\ncandidate=b B\norder=b a\norder=a b\nballots=1\n1 2\nend\n',
    'method=BC\nquota=droop\ncandidate=a A\ncandidate=b B\norder=b a\norder=\nballots=1\nb a\nend\n',
    'method=BC\nquota=droop\ncandidate=a A\norder=a zz\nballots=0\nend\n', 'method=BC\nquota=nosuch\ncandidate=a A\norder=zz\nballots=0\nend\n',
    'method=BC\nquota=droop\ncandidate=a A\ncandidate=b B\norder=b b a\nballots=1\n1 2\nend\n',
    'method=BC\nquota=droop\ncandidate=a A\ncandidate=b B\ncandidate=c C\norder=c\nballots=2\n1\n-\nend\n',
    'method=BC\nquota=droop\ncandidate=a A\ncandidate=b B\norder=b a\ncandidate=c C\nballots=1\n2 1\nend\n',
    'candidate=a A\norder=a\nmethod=BC\nquota=droop\nballots=1\n1\nend\n',
    # ballot lines: ranks not 1..k, repeated, zero, too many items, other items, multipliers, empty ballots, blank lines, counts
    'method=BC\nquota=droop\ncandidate=a A\ncandidate=b B\norder=a b\nballots=1\n1 3\nend\n',
    'method=BC\nquota=droop\ncandidate=a A\ncandidate=b B\norder=a b\nballots=1\n1 1\nend\n',
    'method=BC\nquota=droop\ncandidate=a A\ncandidate=b B\norder=a b\nballots=1\n0 1\nend\n',
    'method=BC\nquota=droop\ncandidate=a A\ncandidate=b B\norder=a b\nballots=1\n2 -\nend\n',
    'method=BC\nquota=droop\ncandidate=a A\ncandidate=b B\norder=a b\nballots=1\n1 2 3\nend\n',
    'method=BC\nquota=droop\ncandidate=a A\ncandidate=b B\norder=a b\nballots=1\n1 2 -\nend\n',
    'method=BC\nquota=droop\ncandidate=a A\ncandidate=b B\norder=a b\nballots=1\n1\nend\n',
    'method=BC\nquota=droop\ncandidate=a A\ncandidate=b B\norder=a b\nballots=1\na b\nend\n',
    'method=BC\nquota=droop\ncandidate=a A\ncandidate=b B\norder=a b\nballots=1\n1 x\nend\n',
    'method=BC\nquota=droop\ncandidate=a A\ncandidate=b B\norder=a b\nballots=1\n+1 2\nend\n',
    'method=BC\nquota=droop\ncandidate=a A\ncandidate=b B\norder=a b\nballots=1\n² 1\nend\n',
    'method=BC\nquota=droop\ncandidate=a A\ncandidate=b B\norder=a b\nballots=1\n१ २\nend\n',
    'method=BC\nquota=droop\ncandidate=a A\ncandidate=b B\norder=a b\nballots=1\n01 002\nend\n',
    'method=BC\nquota=droop\ncandidate=a A\ncandidate=b B\norder=a b\nballots=4\n2X 1 2\n1/2X 1 2\n1.5X - 1\n3X - -\nend\n',
    'method=BC\nquota=droop\ncandidate=a A\ncandidate=b B\norder=a b\nballots=3\n- -\n\n2X\nend\n',
    'method=BC\nquota=droop\ncandidate=a A\ncandidate=b B\norder=a b\nballots=2\n1X\n-\nend\n',
    'method=BC\nquota=droop\ncandidate=a A\ncandidate=b B\norder=a b\nballots=1\n1 2\n2 1\nend\n',
    'method=BC\nquota=droop\ncandidate=a A\ncandidate=b B\norder=a b\nballots=1\n1 2\n', 'method=BC\nquota=droop\ncandidate=a A\norder=a\nballots=1\nzX 1\nend\n',
    'method=BC\nquota=droop\ncandidate=a A\ncandidate=b B\norder=a b\nballots=1\nX 1 2\nend\n',
    'method=BC\nquota=droop\ncandidate=a A\ncandidate=b B\norder=a b\nballots=1\n1 2 end\nend\n',
    # the order line is ignored in BLT mode, but an unknown nickname is still refused
    'method=blt\ncandidate=a A\norder=a\nballots=blt\n2 1\n1 2 1 0\n0\n', 'method=blt\norder=zz\nballots=blt\n2 1\n1 2 1 0\n0\n',
    'method=BC\nquota=droop\ncandidate=a A\norder=zz\nballots=x\n',
]


def _gen_stv_ordered(rng, n):
    """the ordered ballot format: hand-made texts; files written by the harness from a document (expected result known), plain and
    mutated"""
    for t in STV_ORDERED_HANDMADE:
        yield {'op': 'stv_text', 'text': t, '_tags': ['stv_text', 'stv_ordered', 'mut_handmade'], '_origin': 'ordered_handmade'}
    names = IO.NAMES_PLAIN + IO.NAMES_WS + ['J. Smith', 'x=y', 'Émile Ÿ', 'end', '1', '-']
    for k in range(n):
        doc = IO.gen_doc(rng, names=names, title='-', weights=('int', 'int', 'dec', 'frac'), big=False, max_c=rng.choice([2, 3, 4, 6, 9]))
        doc['ballots'] = [b for b in doc['ballots'] if IO.weight_py(b[1]) >= 0]
        nc = len(doc['cands'])
        order = list(range(nc))
        if rng.random() < 0.7:
            rng.shuffle(order)
        full = True
        if nc > 1 and rng.random() < 0.2:        # some candidates are not in the order line: they cannot be ranked
            order = order[:rng.randint(1, nc - 1)]
            doc['ballots'] = [b for b in doc['ballots'] if all(c in order for c in b[0])]
            full = False
        nicks = rng.choice([None, None, [chr(97 + i) for i in range(nc)], [str(i + 1) for i in range(nc)], ['-'] + [f'c{i}' for i in range(1, nc)]])
        if not order:
            continue                              # an empty order line means the unordered format
        text, exp = IO.ordered_text(doc, order, nicks, dup_order=rng.random() < 0.15, title=rng.choice([None, 'T']))
        tags = ['stv_text', 'stv_ordered', 'stv_ordered_written'] + ([] if full else ['stv_ordered_partial_order'])
        if any(not b[0] for b in doc['ballots']):
            tags.append('stv_ordered_empty_ballot')
        if rng.random() < 0.5:
            yield {'op': 'stv_text', 'text': text, 'expect': exp, '_tags': tags, '_origin': 'ordered_written'}
        else:
            kinds = []
            for _ in range(rng.choice([1, 1, 2])):
                text, kind = IO.mutate_text(rng, text)
                kinds.append(kind)
            if not IO.huge_header(text):
                yield {'op': 'stv_text', 'text': text, '_tags': ['stv_text', 'stv_ordered'] + ['mut_' + x for x in kinds], '_origin': 'ordered+' + '+'.join(kinds)}


def _gen_stv_text(rng, n):
    import votelib.io.stv as stv
    import warnings
    for t in STV_HANDMADE:
        yield {'op': 'stv_text', 'text': t, '_tags': ['stv_text', 'mut_handmade'], '_origin': 'handmade'}
    import votelib.component.quota as vq
    for q in sorted(vq.QUOTAS) + ['nosuch', '7', 'mandatory']:      # the model's list of quota names against the registry
        for extra in ('', 'quota=mandatory\n', 'seats=2\nrandom=non\ntitle=T\n'):
            yield {'op': 'stv_text', 'text': f'method=BC\nquota={q}\n{extra}candidate=a A\nballots=1\na\nend\n',
                   '_tags': ['stv_text', 'stv_quota_registry'], '_origin': 'quota_registry'}
    H = 'method=BC\nquota=droop\ncandidate=a A\ncandidate=b B\n'
    for body in ('ballots=2\n1.5X a\n1/2X a\nend\n', 'ballots=2\n1/2X a\n1.5X a\nend\n', 'ballots=2\n6X a\n0.000000000000000000000000000001X a\nend\n',
                 'ballots=3\n1/3X a b\n2X a b\na b\nend\n', 'ballots=3\n0.1X b\n0.2X b\n0.3X b\nend\n', 'ballots=2\na\na\nend\n',
                 'ballots=2\n6.5X a\n0.000000000000000000000000000001X a\nend\n',
                 'ballots=3\n0.1X b a\n1000000000000000000000000000000.0X b a\n0.2X b a\nend\n'):
        yield {'op': 'stv_text', 'text': H + body, '_tags': ['stv_text', 'text_repeated_ballot'], '_origin': 'repeated_ballot'}
    for t in ('method=blt\nballots=blt\n2 1\n6.5 1 0\n1E-30 1 0\n0\n', 'method=BC\nquota=hare\nballots=blt\n2 1\n1.5 2 0\n1/2 2 0\n0\n"A"\n"B"\n'):
        yield {'op': 'stv_text', 'text': t, '_tags': ['stv_text', 'text_repeated_ballot'], '_origin': 'repeated_ballot'}
    for t in ('candidate=x Ann\nmethod=blt\nballots=blt\n1 1\n2 1 0\n0\n', 'method=blt\nwithdrawn=x Ann\ncandidate=y Bob\nballots=blt\n2 1\n1 2 1 0\n0\n"A"\n"B"\n'):
        yield {'op': 'stv_text', 'text': t, '_tags': ['stv_text', 'stv_blt_mode_with_header_candidates'], '_origin': 'blt_header_candidates'}
    for t in ('method=GPCA2000\ncandidate=a A\nballots=1\na\nend\n', 'method=BC\nquota=droop\nseats=-1\nballots=0\nend\n',
              'method=BC\nquota=droop\nseats=\nrandom=\ntitle=\nballots=0\nend\n', 'method=\nquota=droop\nballots=0\nend\n',
              'method=BC\nquota=mandatory\nquota=mandatory\nballots=0\nend\n', 'method=BC\nmethod=BC\nquota=droop\nballots=0\nend\n',
              'method=BC\nquota=droop\nquota=mandatory\nquota=x\nballots=0\nend\n', 'method=BC\nquota=hare\nquota=droop\nballots=0\nend\n',
              'method=BC\nquota=droop\nballots=zz\nfoo=1\n', 'method=BC\nquota=droop\nfoo=1\nballots=zz\n'):
        yield {'op': 'stv_text', 'text': t, '_tags': ['stv_text', 'stv_header_directed'], '_origin': 'header_directed'}
    yield from _gen_stv_ordered(rng, max(40, n // 5))
    plain = IO.NAMES_PLAIN + IO.NAMES_WS
    for k in range(n):
        doc = IO.gen_doc(rng, names=plain, title='T', weights=('int', 'int', 'dec', 'frac'), big=False)
        doc['ballots'] = [b for b in doc['ballots'] if b[0]]
        sysd = None if rng.random() < 0.3 else {'quota': 'droop', 'random': rng.choice([None, 'non', 5]), 'seats': 'fixed', 'wrap': True}
        votes, n_seats, cands, title = IO.build_doc(doc)
        with warnings.catch_warnings():
            warnings.simplefilter('ignore')
            text = stv.dumps(votes, _build_system(sysd, doc), cands, n_seats if sysd is None else None)
        kinds = []
        for _ in range(rng.choice([1, 1, 2])):
            if rng.random() < 0.35:
                lines = text.split('\n')
                lines.insert(rng.randint(0, min(len(lines), 6)), rng.choice(STV_HEADER_JUNK))
                text, kind = '\n'.join(lines), 'header_junk'
            else:
                text, kind = IO.mutate_text(rng, text)
            kinds.append(kind)
        if IO.huge_header(text):
            continue
        yield {'op': 'stv_text', 'text': text, '_tags': ['stv_text'] + ['mut_' + x for x in kinds], '_origin': '+'.join(kinds)}


# ------------------------------------------------------------------------------------------------ op stv_sys
def _impl_stv_sys(case):
    return SY.impl(case, _g)


def _model_stv_sys(case):
    line = {'op': 'stv_sys', 'sys': SY.model_tree(case['tree'])}
    if case.get('seats_arg') is not None:
        line['seats_arg'] = case['seats_arg']
    return line


def _compare_stv_sys(case, iobs, mobs):
    """the writer's refusal, the header lines, and what the reader makes of them, against dumpSys / reloadSys; the structural
    classification (sysRefused, sysReadable) against what happened"""
    ml = mobs['lines']
    if iobs['dump'] != 'ok':
        if _is_err(ml) and ml['err'] == iobs['dump']['err'] and mobs['refused']:
            return None
        return f"dump: impl raises {iobs['dump']['exc']}, model {json.dumps(ml)[:120]} refused={mobs['refused']}"
    if _is_err(ml) or mobs['refused']:
        return f"dump: impl writes a file, model refuses ({json.dumps(ml)[:80]})"
    tk = IO.stv_tokenise(iobs['text'])
    if tk is None:
        return None
    hdr = [h['other'] for h in tk[0] if isinstance(h, dict) and 'other' in h]
    want = ml + ([['seats', IO.stv_sval(str(case['seats_arg']))]] if case.get('seats_arg') is not None else [])
    if hdr != want:
        return f"header lines: impl={json.dumps(hdr)[:300]} model={json.dumps(want)[:300]}"
    il, mr = iobs['loaded'], mobs['reload']
    if _is_err(il) or _is_err(mr):
        if _is_err(il) and _is_err(mr) and il['err'] == mr['err'] and not mobs['readable']:
            return None
        return f"reload: impl={json.dumps(il)[:200]} model={json.dumps(mr)[:200]} readable={mobs['readable']}"
    if not mobs['readable']:
        return 'reload: the model classifies the file as unreadable, the implementation reads it'
    if il['summary'] != mr:
        return f"reload: impl={json.dumps(il['summary'])[:200]} model={json.dumps(mr)[:200]}"
    if mobs['complete'] and SY.oracle(case, iobs):
        return 'the tree is written completely by the model (sysComplete) but the implementation does not round-trip it'
    return None


# ------------------------------------------------------------------------------------------------ dispatch
IMPL = {'blt_clean': _impl_blt_clean, 'codec': _impl_codec, 'class_rt': _impl_class, 'class_sig': _impl_class_sig, 'blt_rt': _impl_blt_rt, 'blt_text': _impl_blt_text,
        'stv_rt': _impl_stv_rt, 'stv_text': _impl_stv_text, 'stv_sys': _impl_stv_sys}
ORACLE = {'blt_clean': _oracle_blt_clean, 'codec': _oracle_codec, 'class_rt': _oracle_class, 'class_sig': _oracle_class_sig, 'blt_rt': _oracle_rt, 'blt_text': _oracle_blt_text,
          'stv_rt': _oracle_stv_rt, 'stv_text': _oracle_stv_text, 'stv_sys': (lambda case, obs: SY.oracle(case, obs))}
MODEL = {'blt_clean': (lambda case: {'op': 'blt_clean', 'line': case['line']}), 'codec': _model_codec, 'class_rt': _model_class, 'blt_rt': _model_blt_rt, 'blt_text': _model_blt_text,
         'stv_rt': _model_stv_rt, 'stv_text': _model_stv_text, 'stv_sys': _model_stv_sys}
COMPARE = {'blt_clean': _compare_blt_clean, 'codec': _compare_codec, 'class_rt': _compare_class, 'blt_rt': _compare_blt_rt, 'blt_text': _compare_blt_text,
           'stv_rt': _compare_stv_rt, 'stv_text': _compare_stv_text, 'stv_sys': _compare_stv_sys}
HAZ = {'codec': _haz_codec, 'class_rt': _haz_class, 'stv_rt': _haz_stv,
       'stv_sys': (lambda case: set(SY.reasons(case['tree'], case.get('seats_arg'))))}      # why the format cannot carry the system


def impl(case):
    return IMPL[case['op']](case)


def oracle(case, obs):
    return ORACLE[case['op']](case, obs)


def model_line(case):
    f = MODEL.get(case['op'])
    return f(case) if f else None


def compare(case, iobs, mobs):
    return COMPARE[case['op']](case, iobs, mobs)


# class_rt: which known-defect trigger of the constructor spec explains which clause (first one present wins)
CLASS_CLAUSE_HAZ = {
    'outcome_differs': ['validator_defaultdict'], 'json_outcome_differs': ['validator_defaultdict'],
    'dict_differs': ['validator_defaultdict'], 'json_dict_differs': ['validator_defaultdict'],
    'load_raises': [], 'json_raises': [], 'save_raises': [],
}


# stv_sys: an unreadable file comes from a missing or repeated line, a changed system from a setting no line stands for (open findings)
SYS_CLAUSE_HAZ = {'load_raises': ['unknown_evaluator', 'nameless_quota', 'duplicate_setting'],
                  'system_differs': ['unseeded_sortitor', 'accept_quota_equal', 'tie_subsetter']}


def signature(case, clause):
    """op : clause : hazard features of the input ('-' = none).  Generated io/codec cases carry at most one hazard."""
    f = HAZ.get(case['op'])
    h = sorted(f(case)) if f else []
    if case['op'] == 'class_rt':
        h = [x for x in CLASS_CLAUSE_HAZ.get(clause, []) if x in h][:1]
    if case['op'] == 'stv_sys':
        h = [x for x in SYS_CLAUSE_HAZ.get(clause, []) if x in h][:1]
    return f"{case['op']}:{clause}:{'+'.join(h) or '-'}"


def nontrivial(case, obs):
    op = case['op']
    if op == 'codec':
        return CC.depth_p(case['v']) >= 1
    if op == 'class_rt':
        return obs.get('save') == 'ok'
    if op == 'class_sig':
        return obs['n_classes'] > 50
    if op in ('blt_rt', 'stv_rt'):
        return len(case['doc']['ballots']) >= 1 and len(case['doc']['cands']) >= 2
    if op == 'stv_sys':
        return True
    if op == 'blt_clean':
        return len(case['line']) >= 2
    return len(case['text']) > 8


def describe(case):
    op = case['op']
    if op == 'codec':
        return f"votelib.persist.deserialize_value(votelib.persist.serialize_value({CC.py_of_pval(case['v'])!r}))"
    if op == 'class_rt':
        return 'votelib.persist.from_dict(votelib.persist.to_dict(props.c19_classes.build(spec)))'
    if op == 'class_sig':
        return 'constructor parameter names of every class carrying to_dict'
    if op == 'stv_sys':
        return (f"votelib.io.stv.loads(votelib.io.stv.dumps({SY.VOTES!r}, props.c19_stvsys.build({case['tree']!r}), {SY.CANDS!r}, "
                f"{case.get('seats_arg')!r}))")
    if op == 'blt_rt':
        v, s, c, t = IO.build_doc(case['doc'])
        return f'votelib.io.blt.loads(votelib.io.blt.dumps({v!r}, {s!r}, {c!r}, {t!r}))'
    if op == 'stv_rt':
        v, s, c, t = IO.build_doc(case['doc'])
        return f"votelib.io.stv.loads(votelib.io.stv.dumps({v!r}, <system {case.get('sys')}>, {c!r}, ...))"
    if op == 'blt_clean':
        return f"votelib.io.blt._clean_line({case['line']!r})"
    return f"votelib.io.{op[:3]}.loads({case['text']!r}{', oneplus_weights=True' if case.get('oneplus') else ''})"


def shrink_candidates(case):
    op = case['op']
    if op in ('blt_rt', 'stv_rt'):
        d = case['doc']
        for i in range(len(d['ballots'])):
            c = json.loads(json.dumps(case))
            del c['doc']['ballots'][i]
            yield c
        if d.get('title') is not None:
            c = json.loads(json.dumps(case))
            c['doc']['title'] = None
            yield c
        n = len(d['cands'])
        if n > 1 and all(max(idx + [-1]) < n - 1 for idx, _ in d['ballots']):
            c = json.loads(json.dumps(case))
            c['doc']['cands'].pop()
            c['doc']['seats'] = min(c['doc']['seats'], n - 1)
            yield c
    elif op in ('blt_text', 'stv_text'):
        lines = case['text'].split('\n')
        for i in range(len(lines)):
            c = dict(case)
            c['text'] = '\n'.join(lines[:i] + lines[i + 1:])
            yield c
    elif op == 'codec':
        p = case['v']
        if 't' in p and p['t'] in ('list', 'tuple', 'fset', 'set'):
            for x in p['v']:
                c = dict(case)
                c['v'] = x
                yield c
        elif 't' in p and p['t'] == 'dict':
            for x in p['v']:
                c = dict(case)
                c['v'] = x
                yield c
            for i in range(len(p['k'])):
                c = dict(case)
                c['v'] = {'t': 'dict', 'k': p['k'][:i] + p['k'][i + 1:], 'v': p['v'][:i] + p['v'][i + 1:]}
                yield c
        elif 't' in p and p['t'] == 'obj':
            for _, x in p['p']:
                c = dict(case)
                c['v'] = x
                yield c


def _exhaustive_blt():
    """small scope, complete: every document over <= 3 candidates (each withdrawn or not; Person objects), every set of <= 2 distinct
    ballots out of all rankings without repetition of length <= 2 (incl. the empty ballot), weights from {1, 2, Decimal 1.5}, with /
    without title, seats 1"""
    for n in range(0, 4):
        rankings = [list(p) for k in range(0, min(n, 2) + 1) for p in itertools.permutations(range(n), k)]
        for wd in itertools.product([False, True], repeat=n):
            cands = [[NAMES3[i], wd[i], 'person'] for i in range(n)]
            for title in (None, 'T'):
                for nb in range(0, 3):
                    for bs in itertools.combinations(rankings, nb):
                        for ws in itertools.product(EXH_WEIGHTS, repeat=nb):
                            if nb == 2 and ws[0]['v'] == '2' and ws[1]['v'] == '2':
                                continue
                            doc = {'seats': 1, 'cands': cands, 'ballots': [[b, w] for b, w in zip(bs, ws)], 'title': title}
                            yield {'op': 'blt_rt', 'doc': doc, '_tags': ['exhaustive_blt']}


NAMES3 = ['Ann', 'J. Smith', 'Cy']
EXH_WEIGHTS = [{'k': 'int', 'v': '1'}, {'k': 'int', 'v': '2'}, {'k': 'dec', 'v': '1.5'}]


def _exhaustive_codec():
    """small scope, complete: every value tree of depth <= 2 over a 6-atom / 2-number alphabet with containers of <= 2 children"""
    leaves = [{'a': 'none'}, {'a': 'bool', 'v': True}, {'a': 'int', 'v': '0'}, {'a': 'int', 'v': '7'}, {'a': 'str', 'v': 'type'},
              {'a': 'str', 'v': 'droop'}, {'t': 'frac', 'v': '7/5'}, {'t': 'dec', 'v': '0.05'},
              {'t': 'callable', 'n': 'votelib.component.quota.droop', 'self': True}]

    def level(kids):
        out = []
        for t in ('list', 'tuple', 'fset'):
            out.append({'t': t, 'v': []})
            for a in kids:
                out.append({'t': t, 'v': [a]})
            for a, b in itertools.permutations(kids, 2):
                if t == 'fset' and (not CC.hashable_p(a) or not CC.hashable_p(b)):
                    continue
                out.append({'t': t, 'v': [a, b]})
        for k in ({'a': 'str', 'v': 'k'}, {'a': 'str', 'v': 'class'}, {'a': 'int', 'v': '1'}, {'t': 'tuple', 'v': []}):
            for a in kids:
                out.append({'t': 'dict', 'k': [k], 'v': [a]})
        return out
    l1 = level(leaves)
    for p in leaves + l1:
        yield p
    # depth 2: containers over a thinned set of depth-1 values
    thin = leaves[:3] + leaves[6:] + l1[::7]
    for p in level(thin):
        yield p


def _gen_exhaustive_codec():
    g = CC.Gen(None)
    for p in _exhaustive_codec():
        if p.get('t') == 'fset' and len(g_distinct(p['v'])) != len(p['v']):
            continue
        c = {'op': 'codec', 'v': p, '_tags': ['exhaustive_codec']}
        yield c


def g_distinct(ps):
    return CC.Gen(None).distinct(ps)


def _tag_texts(cases):
    """coverage tags read off the text: one ballot listed more than once with a Decimal weight among the lines (the readers must add
    exactly), BLT content inside an STV file"""
    for c in cases:
        fmt = c['op'][:3]
        if IO.repeated_decimal_weight(c['text'], fmt):
            c['_tags'].append(fmt + '_text_repeated_decimal_weight')
        if fmt == 'stv' and IO.stv_blt_rest(c['text']):
            c['_tags'].append('stv_text_blt_content')
        if fmt == 'stv' and any(isinstance(h, dict) and 'cand' in h and IO.ws_features(h['cand'][2])
                                for h in (IO.stv_hline(l) for l in c['text'].split('\n'))):
            c['_tags'].append('stv_text_name_inner_ws')
        yield c


def generate(rng, tier):
    q = tier == 'quick'
    yield from _gen_codec(rng, 3000 if q else 40000)
    yield from _gen_blt_rt(rng, 2500 if q else 30000)
    yield from _gen_blt_clean(rng, 1500 if q else 20000)
    yield from _tag_texts(_gen_blt_text(rng, 3000 if q else 40000))
    yield from _gen_stv_rt(rng, 2000 if q else 25000)
    yield from _tag_texts(_gen_stv_text(rng, 2000 if q else 25000))
    yield from SY.gen(rng, 600 if q else 8000)
    yield from _gen_class(rng, 1400 if q else 12000, 120 if q else 1500)
    if not q:
        yield from _exhaustive_blt()
        yield from _gen_exhaustive_codec()


TECHNIQUE = 'Lean 4 proofs about a model of the dict codec and of the BLT writer/parser + differential correspondence with votelib + round-trip oracle over all classes carrying to_dict'
LEVEL_TEXT = ('The dict codec of persist.py (serialize_value / deserialize_value / from_dict), the BLT writer and parser and the candidate/ballot '
              'section of the STV format are modelled branch by branch in Lean (token level for the file formats), following the repaired code '
              '(722783a, 1c4ee21, b98eeeb, a89c3f1..d56e55e, 7f49a3e, 6e1811c, 134a849, f06b201). Proved for all inputs: every in-memory value is either refused at save or written to a dictionary that '
              'reloads to the same value (codec_save_or_faithful; which of the two is decided by Serializable), also through to_dict/from_dict and with '
              'an identical re-serialisation; EVERY election handed to the BLT writer is either refused with NotSupportedInBLT (exactly when a ballot '
              'has a negative weight or names an unlisted candidate: blt_dump_refuses_iff) or written to lines that reload to the same election '
              '(blt_save_or_faithful / blt_roundtrip: seats, names, any withdrawn subset, int/Decimal/Fraction weights, title); on ANY token lines, '
              'with either setting of oneplus_weights, the BLT parser returns a document or raises the parse error (blt_parse_total), a returned '
              'document names listed candidates only (blt_loaded_indices_valid) and a ballot listed twice counts with the exact sum '
              '(blt_repeated_ballot_exact); STV nicknames never collide, a whole STV file (system header, candidates, ballots incl. empty ones, '
              'Decimal weights, title None) round-trips in the own format (Stv.stv_roundtrip) and in BLT mode (Stv.stv_blt_mode_roundtrip), the STV '
              'writer raises NotSupportedInSTV for every negative weight (Stv.stv_dump_refuses_negative), the STV reader — own format and BLT '
              'content, unordered and ordered (order=) ballot format — raises only STVParseError / NotImplementedError on any token lines '
              '(Stv.stv_parse_total, no construct left outside the model) and returns ballots for candidates of the returned list only '
              '(Stv.stv_loaded_indices_valid). For ARBITRARY evaluator trees (wrappers in any order and number around any evaluator) the system '
              'header falls, by the shape of the tree alone, into exactly one of: refused with NotSupportedInSTV, written to a file the reader '
              'refuses, written to a file that reloads to the settings read off the tree (Stv.stv_sys_classification); every tree that is '
              'written completely round-trips as a whole file (Stv.stv_roundtrip_complete_system), for every other one the dump refuses, the '
              'reload fails or a setting is lost (Stv.stv_sys_incomplete, witnesses in Stv.stv_sys_witnesses; open findings). '
              'All 109 classes carrying to_dict, the STV system header and text lexing are covered by the differential correspondence and a direct '
              'round-trip / outcome / exception-type oracle on every run.')
LEVEL_NOTE = ('Trusted: Lean kernel + propext/Classical.choice/Quot.sound; the correspondence harness (generators, tokeniser, canonicalisation); '
              'constructor reflection, text lexing and the STV format are validated by testing only (bounded by the generator), not proved.')
